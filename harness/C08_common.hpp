// C08 — shared part of the multisequence_partition / multisequence_selection
// harness: element types, comparators, tuple generator and the oracle template.
// The oracle is instantiated per configuration in C08_inst<N>.cpp (one TU per
// element/comparator combination so that they compile in parallel).
#pragma once
#include "../engine/pbt.hpp"

#include <algorithm>
#include <cstddef>
#include <cstdint>
#include <functional>
#include <memory>
#include <utility>
#include <vector>

#include <tlx/algorithm/multisequence_partition.hpp>
#include <tlx/algorithm/multisequence_selection.hpp>

namespace c08 {

//! record compared by key only; no operator< / operator== on purpose (the
//! routines may use nothing but the comparator)
struct Rec {
    int key;
    short seq;
    short pos;
};
inline int keyof(int v) { return v; }
inline int keyof(const Rec& r) { return r.key; }
template <class T>
T mk(int key, int seq, int pos);
template <>
inline int mk<int>(int key, int, int) { return key; }
template <>
inline Rec mk<Rec>(int key, int seq, int pos) { return Rec{key, (short)seq, (short)pos}; }
inline bool same(int a, int b) { return a == b; }
inline bool same(const Rec& a, const Rec& b) { return a.key == b.key && a.seq == b.seq && a.pos == b.pos; }

struct KLess {
    template <class T>
    bool operator()(const T& a, const T& b) const { return keyof(a) < keyof(b); }
};
struct KGreater {
    template <class T>
    bool operator()(const T& a, const T& b) const { return keyof(a) > keyof(b); }
};
//! projection order: keys (all >= 0) are equivalent iff key/4 is equal, so
//! equivalent elements are distinguishable even for plain int
struct KProj {
    template <class T>
    bool operator()(const T& a, const T& b) const { return keyof(a) / 4 < keyof(b) / 4; }
};

struct Shape {
    int m = 1;
    std::vector<std::vector<int>> keys; // drawn (unsorted) keys per sequence
    bool wide = false;
    int distinct = 1;
};

inline uint64_t splitmix(uint64_t& s) {
    uint64_t z = (s += 0x9E3779B97F4A7C15ull);
    z = (z ^ (z >> 30)) * 0xBF58476D1CE4E5B9ull;
    z = (z ^ (z >> 27)) * 0x94D049BB133111EBull;
    return z ^ (z >> 31);
}

inline int gen_len(pbt::Source& src, int maxl) {
    switch (src.weighted({3, 4, 5, 4})) {
    case 0: return 1;
    case 1: return (int)src.range(1, 5);
    case 2: {
        int jmax = maxl > 64 ? 6 : 5;
        int j = (int)src.range(1, jmax);
        int d = (int)src.range(0, 2) - 1; // -1,0,+1 ... zero byte -> 2^j - 1
        int l = (1 << j) + d;
        return std::max(1, std::min(l, maxl));
    }
    default: return (int)src.range(1, maxl);
    }
}

inline Shape gen_shape(pbt::Source& src) {
    Shape sh;
    // selectors first
    // m = 1..8 mostly; sometimes 17..40: more runs than the insertion-sort threshold (16) of std::sort, so
    // that the order in which library sorts leave equal sample keys matters (seeded change seeded/C07)
    {
        int mi = (int)src.weighted({2, 5, 5, 4, 3, 2, 2, 2, 3});
        sh.m = mi < 8 ? 1 + mi : (int)src.range(17, 40);
    }
    int dk = (int)src.range(0, 6);
    sh.wide = dk == 6;
    sh.distinct = sh.wide ? 1000 : dk + 1;
    int stride = src.boolean() ? 3 : 1;
    bool big = src.chance(40);
    bool prng = src.chance(96);
    int maxl = sh.m > 8 ? 10 : big ? 70 : 40;
    sh.keys.resize(sh.m);
    std::vector<int> lens(sh.m);
    for (int i = 0; i < sh.m; ++i) lens[i] = gen_len(src, maxl);
    if (prng) {
        uint64_t s = src.bits(4);
        for (int i = 0; i < sh.m; ++i)
            for (int j = 0; j < lens[i]; ++j) sh.keys[i].push_back((int)(splitmix(s) % (uint64_t)sh.distinct) * stride);
    } else {
        for (int i = 0; i < sh.m; ++i)
            for (int j = 0; j < lens[i]; ++j) {
                int k = sh.wide ? (int)(src.bits(2) % 1000) : (int)(src.u8() % sh.distinct);
                sh.keys[i].push_back(k * stride);
            }
    }
    return sh;
}

//! 2^j - 1, 2^j, 2^j + 1 for j in jlo..jhi (zero bytes -> 2^jlo - 1)
inline int pow2_edge(pbt::Source& src, int jlo, int jhi) {
    int j = (int)src.range(jlo, jhi);
    int d = (int)src.range(0, 2) - 1;
    return (1 << j) + d;
}

// Scale classes (targets partition_scale / selection_scale): the same domain as gen_shape -- non-empty sorted
// sequences -- sampled along the size dimensions the small generator does not reach:
//   0 long+short   m = 2..8, ONE sequence of 1000..5000 elements (biased to 2^j-1, 2^j, 2^j+1, j = 10..12) next to
//                  sequences of length 1 / 1..5 / 1..40
//   1 many-short   m = 100..400 (biased to 127..129, 255..257) sequences of length 1..{1,3,10,40}
//   2 several-long m = 1..16, every length drawn from {1, 2^j+-1 (j = 7..12), 1..5000, 1..64}
//   3 big-N        m = 8..64 sequences of roughly equal length, total N = 20000..100000
//   4 many-mid     m = 17..300 sequences of length 1..(20..300)
// keys: 1..6 distinct / 1000 / about N/8 distinct / 2^20 (nearly unique), optionally staggered per sequence
// (sequence i draws from [i*shift, i*shift + distinct)), so that whole sequences lie left or right of the split.
// Lengths stay <= 32767 (Rec::pos is a short) and m <= 400 (Rec::seq).
struct ScaleShape : Shape {
    int cls = 0;
    int stagger = 0;
    uint64_t rank_seed = 0;
};

inline ScaleShape gen_shape_scale(pbt::Source& src) {
    ScaleShape sh;
    // selectors first
    sh.cls = (int)src.weighted({4, 4, 4, 1, 2});
    int dk = (int)src.range(0, 8);
    int stride = src.boolean() ? 3 : 1;
    sh.stagger = (int)src.weighted({5, 1, 1});
    uint64_t seed = src.bits(4);
    uint64_t s = seed * 0x9E3779B97F4A7C15ull + 77;
    sh.rank_seed = seed ^ 0x5DEECE66Dull;
    std::vector<int> lens;
    switch (sh.cls) {
    case 0: {
        sh.m = (int)src.range(2, 8);
        int where = (int)src.index((size_t)sh.m);
        int L = src.boolean() ? (int)src.range(1000, 5000) : pow2_edge(src, 10, 12);
        int shortmax = (int)src.weighted({2, 2, 1});
        shortmax = shortmax == 0 ? 1 : shortmax == 1 ? 5 : 40;
        for (int i = 0; i < sh.m; ++i) lens.push_back(i == where ? L : (int)src.range(1, shortmax));
        break;
    }
    case 1: {
        sh.m = src.boolean() ? (int)src.range(100, 400) : pow2_edge(src, 7, 8);
        static const int ML[4] = {3, 1, 10, 40};
        int maxl = ML[src.weighted({3, 1, 3, 2})];
        for (int i = 0; i < sh.m; ++i) lens.push_back(1 + (int)(splitmix(s) % (uint64_t)maxl));
        break;
    }
    case 2: {
        sh.m = (int)src.range(1, 16);
        for (int i = 0; i < sh.m; ++i) {
            switch (src.weighted({2, 4, 3, 2})) {
            case 0: lens.push_back(1); break;
            case 1: lens.push_back(pow2_edge(src, 7, 12)); break;
            case 2: lens.push_back((int)src.range(1, 5000)); break;
            default: lens.push_back((int)src.range(1, 64)); break;
            }
        }
        break;
    }
    case 3: {
        sh.m = (int)src.range(8, 64);
        int avg = 1000 * (int)src.range(20, 100) / sh.m;
        for (int i = 0; i < sh.m; ++i) lens.push_back(avg / 2 + (int)(splitmix(s) % (uint64_t)(avg + 1)));
        break;
    }
    default: {
        sh.m = (int)src.range(17, 300);
        int maxl = (int)src.range(20, 300);
        for (int i = 0; i < sh.m; ++i) lens.push_back(1 + (int)(splitmix(s) % (uint64_t)maxl));
        break;
    }
    }
    long N = 0;
    for (int l : lens) N += l;
    sh.wide = dk >= 6;
    sh.distinct = dk < 6 ? dk + 1 : dk == 6 ? 1000 : dk == 7 ? (int)std::max<long>(2, N / 8) : (1 << 20);
    int shift = sh.stagger == 0 ? 0 : sh.stagger == 1 ? std::max(1, sh.distinct / 2) : sh.distinct;
    sh.keys.resize(sh.m);
    for (int i = 0; i < sh.m; ++i) {
        sh.keys[i].reserve(lens[i]);
        for (int j = 0; j < lens[i]; ++j)
            sh.keys[i].push_back((i * shift + (int)(splitmix(s) % (uint64_t)sh.distinct)) * stride);
    }
    return sh;
}

template <class T, bool Ptr>
struct ItOf;
template <class T>
struct ItOf<T, true> {
    typedef T* type;
    static type begin(std::vector<T>& v) { return v.data(); }
};
template <class T>
struct ItOf<T, false> {
    typedef typename std::vector<T>::iterator type;
    static type begin(std::vector<T>& v) { return v.begin(); }
};

template <class T>
std::string show_seq(const std::vector<T>& v) {
    std::ostringstream os;
    os << "{";
    for (size_t i = 0; i < v.size(); ++i) os << (i ? "," : "") << keyof(v[i]);
    os << "}";
    return os.str();
}

struct Stats {
    bool cut_multi = false, cut3 = false;
    bool quiet = false;
    // scale targets: for tuples with more than 600 elements check a bounded sample of the ranks (see
    // sample_ranks) instead of every rank
    bool sample_ranks = false;
    uint64_t rank_seed = 0;
    bool sampled = false;    // out: the ranks were sampled
    size_t ranks_checked = 0; // out
};

//! bounded rank sample for a big tuple: all ranks near 0 and near N, powers of two, multiples of the padded
//! grid length and of the sequence-length prefix sums, the boundaries (and some interior points) of runs of
//! equivalent elements of the merged order, and uniformly random ranks; each with its two neighbours.
//! `run_starts` = ranks r in 1..N-1 where merged[r-1] is less than merged[r].
inline std::vector<ptrdiff_t> sample_ranks(ptrdiff_t N, const std::vector<ptrdiff_t>& lens, const std::vector<ptrdiff_t>& run_starts,
                                           uint64_t seed) {
    std::vector<ptrdiff_t> r;
    uint64_t s = seed;
    auto add = [&](ptrdiff_t x) {
        for (ptrdiff_t d = -1; d <= 1; ++d)
            if (x + d >= 0 && x + d <= N) r.push_back(x + d);
    };
    for (ptrdiff_t i = 0; i <= 16 && i <= N; ++i) r.push_back(i), r.push_back(N - i);
    for (ptrdiff_t p = 1; p <= N; p *= 2) add(p);
    ptrdiff_t nmax = 0;
    for (ptrdiff_t l : lens) nmax = std::max(nmax, l);
    ptrdiff_t grid = 1;
    while (grid < nmax + 1) grid *= 2; // the implementation pads every sequence to grid - 1 elements
    for (ptrdiff_t g : {grid - 1, grid, grid / 2, nmax}) {
        if (g <= 0) continue;
        ptrdiff_t cnt = N / g;
        for (ptrdiff_t k = 1; k <= std::min<ptrdiff_t>(cnt, 24); ++k) add(k * g);
        for (int k = 0; k < 8 && cnt > 24; ++k) add((ptrdiff_t)(1 + splitmix(s) % (uint64_t)cnt) * g);
    }
    {
        ptrdiff_t ps = 0;
        size_t step = lens.size() <= 48 ? 1 : lens.size() / 48;
        for (size_t i = 0; i < lens.size(); ++i) {
            ps += lens[i];
            if (i % step == 0) add(ps);
        }
    }
    {
        size_t nb = run_starts.size();
        auto around = [&](size_t bi) {
            ptrdiff_t b = run_starts[bi], e = bi + 1 < nb ? run_starts[bi + 1] : N;
            add(b);
            r.push_back(b + (e - b) / 2);
            r.push_back(b + (ptrdiff_t)(splitmix(s) % (uint64_t)(e - b)));
        };
        if (nb <= 40)
            for (size_t i = 0; i < nb; ++i) around(i);
        else {
            for (size_t i = 0; i < 6; ++i) around(i), around(nb - 1 - i);
            for (int k = 0; k < 28; ++k) around((size_t)(splitmix(s) % nb));
        }
    }
    for (int k = 0; k < 96; ++k) r.push_back((ptrdiff_t)(splitmix(s) % (uint64_t)(N + 1)));
    std::sort(r.begin(), r.end());
    r.erase(std::unique(r.begin(), r.end()), r.end());
    return r;
}

//! the oracle for one tuple, all ranks
template <class T, class Comp, bool DefaultComp, class RankT, bool Ptr>
void check_tuple(const std::vector<std::vector<int>>& keys, bool do_partition, bool do_selection, Stats& st) {
    typedef typename ItOf<T, Ptr>::type It;
    Comp comp;
    const int m = (int)keys.size();

    // exact-size heap storage per sequence (ASan sees any read past the end)
    std::vector<std::vector<T>> data(m);
    for (int i = 0; i < m; ++i) {
        std::vector<T> tmp;
        for (size_t j = 0; j < keys[i].size(); ++j) tmp.push_back(mk<T>(keys[i][j], i, 0));
        std::stable_sort(tmp.begin(), tmp.end(), comp);
        for (size_t j = 0; j < tmp.size(); ++j) tmp[j] = mk<T>(keyof(tmp[j]), i, (int)j);
        data[i] = std::vector<T>(tmp.begin(), tmp.end());
    }
    const std::vector<std::vector<T>> orig = data;

    std::vector<std::pair<It, It>> seqs(m);
    ptrdiff_t N = 0;
    for (int i = 0; i < m; ++i) {
        seqs[i].first = ItOf<T, Ptr>::begin(data[i]);
        seqs[i].second = seqs[i].first + (ptrdiff_t)data[i].size();
        N += (ptrdiff_t)data[i].size();
    }
    const std::vector<std::pair<It, It>> seqs_copy = seqs;

    // reference: stable merge = concatenation in (seq,pos) order, stably sorted
    struct M {
        T v;
        int seq;
    };
    std::vector<M> merged;
    for (int i = 0; i < m; ++i)
        for (const T& x : data[i]) merged.push_back(M{x, i});
    std::stable_sort(merged.begin(), merged.end(), [&](const M& a, const M& b) { return comp(a.v, b.v); });

    const bool big = N > 600; // messages describe a big tuple by its lengths and the neighbourhood of the split only
    if (pbt::verbose() && !st.quiet) {
        if (!big)
            for (int i = 0; i < m; ++i) PBT_LOG("  seq" << i << " (" << data[i].size() << ") " << show_seq(data[i]) << "\n");
        else {
            PBT_LOG("  N=" << N << " lengths:");
            for (int i = 0; i < m; ++i) PBT_LOG(" " << data[i].size());
            PBT_LOG("\n");
        }
    }

    // ranks to check: every rank, or (scale targets, big tuples) a bounded sample
    std::vector<ptrdiff_t> ranks;
    if (st.sample_ranks && big) {
        std::vector<ptrdiff_t> lens, run_starts;
        for (int i = 0; i < m; ++i) lens.push_back((ptrdiff_t)data[i].size());
        for (ptrdiff_t r = 1; r < N; ++r)
            if (comp(merged[r - 1].v, merged[r].v)) run_starts.push_back(r);
        ranks = sample_ranks(N, lens, run_starts, st.rank_seed);
        st.sampled = true;
    } else {
        for (ptrdiff_t r = 0; r <= N; ++r) ranks.push_back(r);
    }
    st.ranks_checked += ranks.size();

    std::vector<T> dummy(1, mk<T>(0, 0, 0));
    const It poison = ItOf<T, Ptr>::begin(dummy);
    std::vector<ptrdiff_t> expect(m, 0);

    ptrdiff_t upto = 0; // expect[] = per-sequence counts among the first `upto` elements of the stable merge
    for (ptrdiff_t r : ranks) {
        while (upto < r) ++expect[merged[upto++].seq];

        if (do_partition) {
            std::vector<It> offs(m, poison);
            const RankT rank = (RankT)r;
            if constexpr (DefaultComp)
                tlx::multisequence_partition(seqs.begin(), seqs.end(), rank, offs.begin());
            else
                tlx::multisequence_partition(seqs.begin(), seqs.end(), rank, offs.begin(), comp);

            std::vector<ptrdiff_t> o(m);
            auto show = [&]() {
                std::ostringstream os;
                os << "rank " << r << " of " << N << ": offsets (";
                for (int i = 0; i < m; ++i) os << (i ? "," : "") << o[i];
                os << ") expected (";
                for (int i = 0; i < m; ++i) os << (i ? "," : "") << expect[i];
                if (!big) {
                    os << "); sequences";
                    for (int i = 0; i < m; ++i) os << " " << show_seq(data[i]);
                } else {
                    os << "); " << m << " sequences, lengths";
                    for (int i = 0; i < m; ++i) os << " " << data[i].size();
                    int shown = 0;
                    for (int i = 0; i < m && shown < 6; ++i) {
                        if (o[i] == expect[i]) continue;
                        ++shown;
                        ptrdiff_t lo = std::max<ptrdiff_t>(0, std::min(o[i], expect[i]) - 3);
                        ptrdiff_t hi = std::min<ptrdiff_t>((ptrdiff_t)data[i].size(), std::max(o[i], expect[i]) + 3);
                        if (hi - lo > 40) hi = lo + 40;
                        os << "; seq" << i << "[" << lo << ".." << hi << ") = {";
                        for (ptrdiff_t j = lo; j < hi; ++j) os << (j > lo ? "," : "") << keyof(data[i][j]);
                        os << "}";
                    }
                }
                return os.str();
            };
            // 1. offsets written and inside their sequences
            for (int i = 0; i < m; ++i) {
                const T* p = std::to_address(offs[i]);
                const T* b = data[i].data();
                PBT_CHECK(p != dummy.data(), "C08/offset-range", "offset of sequence " << i << " not written at rank " << r);
                bool inside = !std::less<const T*>()(p, b) && !std::less<const T*>()(b + data[i].size(), p);
                o[i] = inside ? (ptrdiff_t)(p - b) : -1;
                PBT_CHECK(inside, "C08/offset-range", "offset of sequence " << i << " outside the sequence; " << show());
            }
            // 2. left parts hold exactly rank elements
            ptrdiff_t sum = 0;
            for (int i = 0; i < m; ++i) sum += o[i];
            PBT_CHECK(sum == r, "C08/sum", "left parts hold " << sum << " elements; " << show());
            // 3. no element on the left is greater than any element on the right
            const T* maxleft = nullptr;
            const T* minright = nullptr;
            for (int i = 0; i < m; ++i) {
                if (o[i] > 0 && (!maxleft || comp(*maxleft, data[i][o[i] - 1]))) maxleft = &data[i][o[i] - 1];
                if (o[i] < (ptrdiff_t)data[i].size() && (!minright || comp(data[i][o[i]], *minright))) minright = &data[i][o[i]];
            }
            if (maxleft && minright)
                PBT_CHECK(!comp(*minright, *maxleft), "C08/order",
                          "left element " << keyof(*maxleft) << " is greater than right element " << keyof(*minright) << "; " << show());
            // 4. tie rule on the class cut by the split
            if (maxleft && minright && !comp(*maxleft, *minright)) {
                int present = 0;
                bool higher_has_left = false;
                for (int i = m - 1; i >= 0; --i) {
                    ptrdiff_t lb = std::lower_bound(data[i].begin(), data[i].end(), *minright, comp) - data[i].begin();
                    ptrdiff_t ub = std::upper_bound(data[i].begin(), data[i].end(), *minright, comp) - data[i].begin();
                    if (ub > lb) ++present;
                    // some j > i contributes an element of the class to the left => all of i's class elements are left
                    PBT_CHECK(!(higher_has_left && o[i] < ub), "C08/tie-rule",
                              "equivalent elements across the split are not taken from lower-numbered sequences first (sequence "
                                  << i << " keeps one on the right); " << show());
                    if (o[i] > lb) higher_has_left = true;
                }
                if (present >= 2) st.cut_multi = true;
                if (present >= 3) st.cut3 = true;
            }
            // safety net: 1-4 determine the split uniquely
            for (int i = 0; i < m; ++i)
                PBT_CHECK(o[i] == expect[i], "C08/oracle-inconsistent", "oracles 1-4 passed but split differs from the stable merge; " << show());
        }

        if (do_selection && r < N) {
            RankT off = (RankT)12345;
            const RankT rank = (RankT)r;
            T v = mk<T>(-1, 0, 0);
            if constexpr (DefaultComp)
                v = tlx::multisequence_selection<T>(seqs.begin(), seqs.end(), rank, off);
            else
                v = tlx::multisequence_selection<T>(seqs.begin(), seqs.end(), rank, off, comp);
            const T& want = merged[r].v;
            PBT_CHECK(!comp(v, want) && !comp(want, v), "C08/sel-value",
                      "selection at rank " << r << " returned key " << keyof(v) << ", merged[rank] has key " << keyof(want));
            ptrdiff_t lb = std::lower_bound(merged.begin(), merged.end(), v, [&](const M& a, const T& b) { return comp(a.v, b); }) -
                           merged.begin();
            PBT_CHECK((ptrdiff_t)off == r - lb, "C08/sel-offset",
                      "selection at rank " << r << " (key " << keyof(v) << "): offset " << (long long)off << ", expected " << (r - lb));
        }
    }

    // inputs and iterator pairs untouched
    for (int i = 0; i < m; ++i) {
        PBT_CHECK(seqs[i] == seqs_copy[i], "C08/inputs-modified", "iterator pair " << i << " changed");
        for (size_t j = 0; j < data[i].size(); ++j)
            PBT_CHECK(same(data[i][j], orig[i][j]), "C08/inputs-modified", "sequence " << i << " element " << j << " changed");
    }
}

template <class T, class Comp, bool DefaultComp>
void disp_rank(int rsel, bool ptr, const std::vector<std::vector<int>>& keys, bool dp, bool ds, Stats& st) {
    // rank type x iterator type: (ptrdiff_t, both), (size_t, T*), (int, vector::iterator)
    (void)ptr;
    switch (rsel) {
    case 0:
        if (ptr) check_tuple<T, Comp, DefaultComp, ptrdiff_t, true>(keys, dp, ds, st);
        else check_tuple<T, Comp, DefaultComp, ptrdiff_t, false>(keys, dp, ds, st);
        break;
    case 1: check_tuple<T, Comp, DefaultComp, size_t, true>(keys, dp, ds, st); break;
    default: check_tuple<T, Comp, DefaultComp, int, false>(keys, dp, ds, st); break;
    }
}


// one function per element/comparator configuration (C08_inst<N>.cpp)
void run_cfg0(int rsel, bool ptr, const std::vector<std::vector<int>>& keys, bool dp, bool ds, Stats& st); // int, std::less (default argument)
void run_cfg1(int rsel, bool ptr, const std::vector<std::vector<int>>& keys, bool dp, bool ds, Stats& st); // int, std::greater
void run_cfg2(int rsel, bool ptr, const std::vector<std::vector<int>>& keys, bool dp, bool ds, Stats& st); // int, key/4
void run_cfg3(int rsel, bool ptr, const std::vector<std::vector<int>>& keys, bool dp, bool ds, Stats& st); // record, key less
void run_cfg4(int rsel, bool ptr, const std::vector<std::vector<int>>& keys, bool dp, bool ds, Stats& st); // record, key greater
void run_cfg5(int rsel, bool ptr, const std::vector<std::vector<int>>& keys, bool dp, bool ds, Stats& st); // record, key/4

} // namespace c08
