#!/opt/veriftools/pyvenv/bin/python
"""C14 — digests and SipHash equal their standards (DESIGN.md §4 C14).

Hypothesis (generator + shrinker) and hashlib / an independent SipHash-2-4 (oracles) on the Python side,
harness/C14_runner.cpp (tlx code, flavour R: -O1 -DNDEBUG ASan+UBSan) on the C++ side.

    C14_check.py sweep    deterministic sweep: every length 0..1100 x 4 digests x 3 chunkings (+ SipHash lengths x offsets)
    C14_check.py hyp      Hypothesis search (digest and SipHash properties), sharded over worker processes
    C14_check.py replay   re-execute the self-contained JSON case in $REPLAY_FILE (no Hypothesis involved)

Environment (set by run.py's "cmd" step): STEP_OUT, VERIF_SEED, VERIF_TIER, VERIF_REPO, VERIF_WORK, REPLAY_FILE;
tuning: C14_EXAMPLES (digest Hypothesis examples, each evaluated on all 4 digests), C14_SIP_EXAMPLES,
C14_SHARDS, C14_BUDGET_S (no new shard is started after this many seconds), VERIF_WORKERS.
Exit status: 0 ok / result written, 1 replayed case fails, 2 machinery error.
"""
import hashlib
import json
import multiprocessing
import os
import random
import re
import struct
import subprocess
import sys
import tempfile
import time
import traceback

HERE = os.path.dirname(os.path.abspath(__file__))
REPO = os.environ.get("VERIF_REPO", "/repo")
T0 = time.time()

SAN_DEFAULTS = {
    "ASAN_OPTIONS": "detect_leaks=0:exitcode=86:allocator_may_return_null=1:detect_stack_use_after_return=0",
    "UBSAN_OPTIONS": "print_stacktrace=0",
}

# ----------------------------------------------------------------------------------------------------------------------
# building and talking to the C++ runner

CXXFLAGS = ["-std=gnu++17", "-O1", "-gline-tables-only", "-DNDEBUG", "-fsanitize=address,undefined",
            "-fno-sanitize=alignment", "-fno-sanitize-recover=undefined", "-fno-omit-frame-pointer"]
TLX_SOURCES = ["tlx/digest/md5.cpp", "tlx/digest/sha1.cpp", "tlx/digest/sha256.cpp", "tlx/digest/sha512.cpp",
               "tlx/string/hexdump.cpp"]


class Machinery(Exception):
    """harness/tooling problem: never a violation"""


def build_runner(work):
    """compile harness/C14_runner.cpp + the tlx digest sources of $VERIF_REPO (takes ~2 s; one build per work dir,
    run.py wipes the work dir at the start of every check)"""
    exe = os.path.join(work, "c14_runner")
    if os.path.exists(exe):
        return exe
    os.makedirs(work, exist_ok=True)
    bdir = tempfile.mkdtemp(prefix="c14build-", dir=work)
    jobs = [(os.path.join(REPO, s), os.path.join(bdir, "t%d.o" % i)) for i, s in enumerate(TLX_SOURCES)]
    jobs.append((os.path.join(HERE, "C14_runner.cpp"), os.path.join(bdir, "runner.o")))
    procs = [(src, subprocess.Popen(["clang++"] + CXXFLAGS + ["-I" + REPO, "-c", src, "-o", obj],
                                    stdout=subprocess.PIPE, stderr=subprocess.STDOUT, text=True)) for src, obj in jobs]
    for src, p in procs:
        out, _ = p.communicate(timeout=900)
        if p.returncode != 0:
            raise Machinery("BUILD-ERROR %s\n%s" % (src, out[-4000:]))
    r = subprocess.run(["clang++"] + CXXFLAGS + [o for _, o in jobs] + ["-o", exe + ".tmp"], capture_output=True,
                       text=True, timeout=900)
    if r.returncode != 0:
        raise Machinery("LINK-ERROR\n" + r.stderr[-4000:])
    os.rename(exe + ".tmp", exe)
    return exe


class RunnerDied(Exception):
    def __init__(self, rc, text):
        Exception.__init__(self, "runner died rc=%s" % rc)
        self.rc = rc
        self.text = text


class Runner:
    """one runner process; call() is a synchronous request/response round trip"""

    def __init__(self, exe):
        self.exe = exe
        self.p = None
        self.errf = None

    def start(self):
        env = dict(os.environ)
        for k, v in SAN_DEFAULTS.items():
            env.setdefault(k, v)
        self.errf = tempfile.TemporaryFile()
        self.p = subprocess.Popen([self.exe], stdin=subprocess.PIPE, stdout=subprocess.PIPE, stderr=self.errf,
                                  bufsize=0, env=env)

    def close(self):
        if self.p is not None:
            try:
                self.p.stdin.close()
            except OSError:
                pass
            try:
                self.p.wait(timeout=20)
            except subprocess.TimeoutExpired:
                self.p.kill()
                self.p.wait()
            self.p.stdout.close()
            self.errf.close()
            self.p = None

    def _dead(self):
        try:
            rc = self.p.wait(timeout=60)
        except subprocess.TimeoutExpired:
            self.p.kill()
            rc = self.p.wait()
        self.errf.seek(0)
        text = self.errf.read().decode("utf-8", "replace")
        try:
            self.p.stdin.close()
        except OSError:
            pass
        self.p.stdout.close()
        self.errf.close()
        self.p = None
        if rc == 3:
            raise Machinery("runner rejected a request: " + text[-500:])
        raise RunnerDied(rc, text)

    def _read(self, n):
        out = b""
        while len(out) < n:
            b = self.p.stdout.read(n - len(out))
            if not b:
                self._dead()
            out += b
        return out

    def call(self, payload):
        if self.p is None:
            self.start()
        try:
            self.p.stdin.write(struct.pack("<I", len(payload)) + payload)
        except (BrokenPipeError, OSError):
            self._dead()
        (m,) = struct.unpack("<I", self._read(4))
        return self._read(m) if m else b""


# ----------------------------------------------------------------------------------------------------------------------
# oracles

ALGOS = ["md5", "sha1", "sha256", "sha512"]
BLOCK = {"md5": 64, "sha1": 64, "sha256": 64, "sha512": 128}
LENFIELD = {"md5": 8, "sha1": 8, "sha256": 8, "sha512": 16}
FORMS = ["digest", "digest_hex", "digest_hex_uc", "finalize", "helper_hex_ptr", "helper_hex_str", "helper_hex_uc_ptr",
         "helper_hex_uc_str"]
CTORS = ["default", "ptr", "sv"]
STYLES = ["ptr", "sv", "string"]
SIP_VARIANTS = ["plain", "sse2", "dispatch", "default_key_u8", "default_key_char", "default_key_sv", "all3", "default_key_string"]
DEFAULT_KEY = bytes(range(16))

M64 = (1 << 64) - 1


def _rotl(x, b):
    return ((x << b) | (x >> (64 - b))) & M64


def siphash24(key, msg):
    """SipHash-2-4, transcribed from the paper (Aumasson & Bernstein 2012, section 2): initialisation, message padded
    to a multiple of 8 bytes whose last byte is len mod 256, c=2 compression rounds, d=4 finalisation rounds."""
    k0 = int.from_bytes(key[0:8], "little")
    k1 = int.from_bytes(key[8:16], "little")
    v = [k0 ^ 0x736f6d6570736575, k1 ^ 0x646f72616e646f6d, k0 ^ 0x6c7967656e657261, k1 ^ 0x7465646279746573]

    def sipround():
        v[0] = (v[0] + v[1]) & M64
        v[2] = (v[2] + v[3]) & M64
        v[1] = _rotl(v[1], 13) ^ v[0]
        v[3] = _rotl(v[3], 16) ^ v[2]
        v[0] = _rotl(v[0], 32)
        v[2] = (v[2] + v[1]) & M64
        v[0] = (v[0] + v[3]) & M64
        v[1] = _rotl(v[1], 17) ^ v[2]
        v[3] = _rotl(v[3], 21) ^ v[0]
        v[2] = _rotl(v[2], 32)

    padded = msg + b"\0" * (7 - len(msg) % 8) + bytes([len(msg) % 256])
    for i in range(0, len(padded), 8):
        m = int.from_bytes(padded[i:i + 8], "little")
        v[3] ^= m
        sipround()
        sipround()
        v[0] ^= m
    v[2] ^= 0xff
    for _ in range(4):
        sipround()
    return v[0] ^ v[1] ^ v[2] ^ v[3]


# Official SipHash-2-4 64-bit test vectors (reference implementation, vectors.h `vectors_sip64`): key 00..0f,
# message i = bytes 00..(i-1), i = 0..63, each output read as a little-endian u64.
SIP_VECTORS = [
    0x726fdb47dd0e0e31, 0x74f839c593dc67fd, 0x0d6c8009d9a94f5a, 0x85676696d7fb7e2d, 0xcf2794e0277187b7,
    0x18765564cd99a68d, 0xcbc9466e58fee3ce, 0xab0200f58b01d137, 0x93f5f5799a932462, 0x9e0082df0ba9e4b0,
    0x7a5dbbc594ddb9f3, 0xf4b32f46226bada7, 0x751e8fbc860ee5fb, 0x14ea5627c0843d90, 0xf723ca908e7af2ee,
    0xa129ca6149be45e5, 0x3f2acc7f57c29bdb, 0x699ae9f52cbe4794, 0x4bc1b3f0968dd39c, 0xbb6dc91da77961bd,
    0xbed65cf21aa2ee98, 0xd0f2cbb02e3b67c7, 0x93536795e3a33e88, 0xa80c038ccd5ccec8, 0xb8ad50c6f649af94,
    0xbce192de8a85b8ea, 0x17d835b85bbb15f3, 0x2f2e6163076bcfad, 0xde4daaaca71dc9a5, 0xa6a2506687956571,
    0xad87a3535c49ef28, 0x32d892fad841c342, 0x7127512f72f27cce, 0xa7f32346f95978e3, 0x12e0b01abb051238,
    0x15e034d40fa197ae, 0x314dffbe0815a3b4, 0x027990f029623981, 0xcadcd4e59ef40c4d, 0x9abfd8766a33735c,
    0x0e3ea96b5304a7d0, 0xad0c42d6fc585992, 0x187306c89bc215a9, 0xd4a60abcf3792b95, 0xf935451de4f21df2,
    0xa9538f0419755787, 0xdb9acddff56ca510, 0xd06c98cd5c0975eb, 0xe612a3cb9ecba951, 0xc766e62cfcadaf96,
    0xee64435a9752fe72, 0xa192d576b245165a, 0x0a8787bf8ecb74b2, 0x81b3e73d20b49b6f, 0x7fa8220ba3b2ecea,
    0x245731c13ca42499, 0xb78dbfaf3a8d83bd, 0xea1ad565322a1a0b, 0x60e61c23a3795013, 0x6606d7e446282b93,
    0x6ca4ecb15c5f91e1, 0x9f626da15c9625f3, 0xe51b38608ef25f57, 0x958a324ceb064572]


def validate_oracles():
    """start-up self check of the Python oracles (machinery error if they are wrong)"""
    for i in range(64):
        got = siphash24(DEFAULT_KEY, bytes(range(i)))
        if got != SIP_VECTORS[i]:
            raise Machinery("Python SipHash-2-4 reference disagrees with official vector %d: %016x" % (i, got))
    # worked example of the paper, Appendix A
    if siphash24(DEFAULT_KEY, bytes(range(15))) != 0xa129ca6149be45e5:
        raise Machinery("Python SipHash-2-4 reference disagrees with the paper's Appendix A")
    # hashlib sanity: FIPS 180 / RFC 1321 "abc" vectors
    abc = {"md5": "900150983cd24fb0d6963f7d28e17f72", "sha1": "a9993e364706816aba3e25717850c26c9cd0d89d",
           "sha256": "ba7816bf8f01cfea414140de5dae2223b00361a396177a9cb410ff61f20015ad",
           "sha512": "ddaf35a193617abacc417349ae20413112e6fa4e89a97ea20a9eeee64b55d39a"
                     "2192992a274fc1a836ba3c23a3feebbd454d4423643ce80e2a9ac94fa54ca49f"}
    for a, h in abc.items():
        if hashlib.new(a, b"abc").hexdigest() != h:
            raise Machinery("hashlib %s is not the standard function" % a)


# ----------------------------------------------------------------------------------------------------------------------
# cases: JSON-able dicts
#   {"kind":"digest","algo":..,"form":..,"ctor":..,"chunks":[[len,style],..],"msg":hex}
#   {"kind":"siphash","variant":..,"msg_off":n,"key_off":n,"key":hex,"msg":hex}

def digest_case(algo, form, ctor, chunks, msg):
    if form >= 4:
        chunks, ctor = [], 0
    return {"kind": "digest", "algo": ALGOS[algo], "form": FORMS[form], "ctor": CTORS[ctor],
            "chunks": [[n, STYLES[s]] for n, s in chunks], "msg": msg.hex()}


def sip_case(variant, msg_off, key_off, key, msg):
    if 3 <= variant <= 5 or variant == 7:
        key, key_off = DEFAULT_KEY, 0
    return {"kind": "siphash", "variant": SIP_VARIANTS[variant], "msg_off": msg_off, "key_off": key_off,
            "key": key.hex(), "msg": msg.hex()}


def encode(case):
    msg = bytes.fromhex(case["msg"])
    if case["kind"] == "digest":
        out = bytearray(b"D")
        out += bytes([ALGOS.index(case["algo"]), FORMS.index(case["form"]), CTORS.index(case["ctor"])])
        out += struct.pack("<I", len(case["chunks"]))
        for n, s in case["chunks"]:
            out += struct.pack("<IB", n, STYLES.index(s))
        return bytes(out) + msg
    out = bytearray(b"S")
    out += bytes([SIP_VARIANTS.index(case["variant"]), case["msg_off"], case["key_off"]])
    out += bytes.fromhex(case["key"])
    return bytes(out) + msg


def expected(case):
    msg = bytes.fromhex(case["msg"])
    if case["kind"] == "digest":
        h = hashlib.new(case["algo"], msg)
        f = case["form"]
        if f in ("digest", "finalize"):
            return h.digest()
        if f in ("digest_hex", "helper_hex_ptr", "helper_hex_str"):
            return h.hexdigest().encode()
        return h.hexdigest().upper().encode()
    v = struct.pack("<Q", siphash24(bytes.fromhex(case["key"]), msg))
    return v * 3 if case["variant"] == "all3" else v


def show(b, case):
    if case["kind"] == "digest" and case["form"] not in ("digest", "finalize"):
        return repr(b.decode("latin-1"))
    if case["kind"] == "siphash":
        return "0x" + b[0:8][::-1].hex()
    return b.hex()


def describe(case):
    msg = bytes.fromhex(case["msg"])
    m = case["msg"] if len(msg) <= 48 else case["msg"][:64] + "...(%d bytes)" % len(msg)
    if case["kind"] == "digest":
        ch = case["chunks"]
        chs = " ".join("%d%s" % (n, {"ptr": "", "sv": "v", "string": "s"}[s]) for n, s in ch[:24]) + \
            (" ...(%d chunks)" % len(ch) if len(ch) > 24 else "")
        return "%s %s ctor=%s len=%d chunks=[%s] msg=%s" % (case["algo"], case["form"], case["ctor"], len(msg), chs, m)
    return "siphash %s len=%d msg_off=%d key_off=%d key=%s msg=%s" % (case["variant"], len(msg), case["msg_off"],
                                                                   case["key_off"], case["key"], m)


def crash_label(e):
    m = re.search(r"AddressSanitizer: ([A-Za-z0-9_-]+)", e.text)
    if m:
        return "crash/asan:" + m.group(1)
    m = re.search(r"runtime error: ([a-z -]+?)(?: of | to | for |:|\d|$)", e.text, re.M)
    if m:
        return "crash/ubsan:" + m.group(1).strip().replace(" ", "-")
    if e.rc is not None and e.rc < 0:
        return "crash/signal:%d" % -e.rc
    return "crash/exit:%s" % e.rc


def check_case(runner, case, has_sse2=True):
    """returns None (property holds on this case) or (label, message)"""
    try:
        got = runner.call(encode(case))
    except RunnerDied as e:
        return crash_label(e), "runner died (rc=%s) on this case:\n%s" % (e.rc, e.text[-3000:])
    want = expected(case)
    if case["kind"] == "digest":
        if got != want:
            return "C14/%s-%s" % (case["algo"], case["form"]), "got %s, standard says %s" % (show(got, case),
                                                                                             show(want, case))
        return None
    if case["variant"] == "sse2" and not has_sse2:
        return None
    if case["variant"] == "all3":
        if len(got) != 24:
            raise Machinery("bad all3 response")
        p, s, d = got[0:8], got[8:16], got[16:24]
        ref = want[0:8]
        if p != s:
            return "C14/siphash-plain-vs-sse2", "plain %s != sse2 %s (reference %s)" % (p[::-1].hex(), s[::-1].hex(),
                                                                                       ref[::-1].hex())
        if p != ref:
            return "C14/siphash-plain", "got %s, SipHash-2-4 is %s" % (p[::-1].hex(), ref[::-1].hex())
        if d != ref:
            return "C14/siphash-dispatch", "got %s, SipHash-2-4 is %s" % (d[::-1].hex(), ref[::-1].hex())
        return None
    if got != want:
        return "C14/siphash-" + case["variant"].replace("_", "-"), "got %s, SipHash-2-4 is %s" % (got[::-1].hex(),
                                                                                                 want[::-1].hex())
    return None


def classify(case):
    """(labels, nontrivial) by the DESIGN §4 C14 rule"""
    labels = []
    n = len(case["msg"]) // 2
    if case["kind"] == "digest":
        a = case["algo"]
        B = BLOCK[a]
        labels += ["algo/" + a, "form/" + case["form"]]
        rem = n % B
        if n == 0:
            labels.append("len/0")
        elif n >= 10000:
            labels.append("len/long")
        if rem >= B - LENFIELD[a]:
            labels.append("tail/extra-pad-block")
        elif rem == B - LENFIELD[a] - 1:
            labels.append("tail/exact-fit")
        elif rem == 0 and n:
            labels.append("tail/block-aligned")
        ch = case["chunks"]
        if not ch:
            labels.append("chunks/helper-one-shot")
            return labels, False
        labels.append("ctor/" + case["ctor"])
        nonempty = sum(1 for c in ch if c[0])
        labels.append("chunks/1" if len(ch) == 1 else "chunks/2-3" if len(ch) <= 3 else "chunks/4+")
        cur = 0
        seen = set()
        for ln, style in ch:
            seen.add("style/" + style)
            if ln == 0:
                seen.add("chunk/empty")
            if cur == 0 and ln >= B:
                seen.add("path/direct-block")
            if cur and cur + ln >= B:
                seen.add("path/buffer-fill-flush")
                if ln - (B - cur) >= B:
                    seen.add("path/fill-then-direct")
            if cur and ln and cur + ln < B:
                seen.add("path/buffer-append")
            cur = (cur + ln) % B
        labels += sorted(seen)
        nt = nonempty >= 2 and (rem >= B - 9 or rem <= 1)
        return labels, nt
    labels.append("sip/" + case["variant"])
    labels.append("sip/tail%d" % (n % 8))
    if case["msg_off"]:
        labels.append("sip/msg-unaligned")
    if case["key_off"]:
        labels.append("sip/key-unaligned")
    if n >= 256:
        labels.append("sip/len>=256")
    if n >= 8:
        labels.append("sip/multi-word")
    return labels, (n % 8 != 0 and case["msg_off"] != 0)


# ----------------------------------------------------------------------------------------------------------------------
# bookkeeping shared by sweep and Hypothesis shards (one instance per worker process / shard)

class Stats:
    def __init__(self):
        self.evaluations = 0
        self.labels = {}
        self.nt = set()          # 8-byte hashes of distinct non-trivial cases
        self.samples = []
        self.failure = None      # (case, label, msg)
        self.target_label = None
        self.failed_keys = set()
        self.shrink_deadline = None

    def account(self, case, payload):
        self.evaluations += 1
        labels, nt = classify(case)
        for k in labels:
            self.labels[k] = self.labels.get(k, 0) + 1
        if nt:
            self.labels["nontrivial"] = self.labels.get("nontrivial", 0) + 1
            self.nt.add(hashlib.blake2b(payload, digest_size=8).digest())
            if len(self.samples) < 3 and len(payload) < 600:
                self.samples.append(describe(case))

    def result(self):
        return {"evaluations": self.evaluations, "labels": self.labels, "nt": b"".join(sorted(self.nt)),
                "samples": self.samples,
                "failure": None if self.failure is None else
                {"case": self.failure[0], "label": self.failure[1], "msg": self.failure[2]}}


class CaseFailure(Exception):
    pass


# opt-in: also call tlx::siphash(std::string). On the pinned tree overload resolution picks the generic
# `template siphash(const Type&)`, which hashes the std::string OBJECT (pointer, size, SSO buffer) rather than the
# characters; whether that is within the property statement is a maintainer decision (see fixes/C14/*.txt).
STRING_OVERLOAD = os.environ.get("C14_STRING_OVERLOAD", "") not in ("", "0")
SHRINK_BUDGET_S = float(os.environ.get("C14_SHRINK_BUDGET_S", "60"))


def evaluate(runner, st, case, has_sse2):
    """run one case against the oracle; raises CaseFailure (single raise site = single Hypothesis 'origin')"""
    payload = encode(case)
    if st.shrink_deadline is not None and time.time() > st.shrink_deadline and payload not in st.failed_keys:
        return  # shrinking budget used up: only already-known failing cases are re-executed
    st.account(case, payload)
    r = check_case(runner, case, has_sse2)
    if r is None:
        return
    label, msg = r
    if st.target_label is None:
        st.target_label = label
        st.shrink_deadline = time.time() + SHRINK_BUDGET_S
    if label != st.target_label:
        return  # the shrinker only follows the label found first (like the engine's shrinker)
    st.failed_keys.add(payload)
    st.failure = (case, label, msg)
    raise CaseFailure(label + ": " + msg + "\n  case: " + describe(case))


# ----------------------------------------------------------------------------------------------------------------------
# deterministic sweep

SWEEP_MAX = 1100
SIP_SWEEP_MAX = 130


def sweep_chunkings(L, B):
    """the three chunkings of the sweep: one call; byte by byte; a fixed pattern around the block size"""
    yield [(L, 0)]
    yield [(1, 0)] * L if L else [(0, 0)]
    pat = [B - 1, 1, B + 1, 0, 2 * B, 7, B, B - 9, 9, 3 * B + 1, B - 1]
    out, left, i = [], L, 0
    while left > 0:
        n = min(pat[i % len(pat)], left)
        out.append((n, (i + L) % 3))
        left -= n
        i += 1
    if not out or L % 2:
        out.append((0, 1))
    yield out


def sweep_shard(args):
    exe, seed, shard, nshards = args
    st = Stats()
    runner = Runner(exe)
    try:
        has_sse2 = runner.call(b"I") == b"\1"
        for L in range(shard, SWEEP_MAX + 1, nshards):
            msg = random.Random("c14-sweep/%d/%d" % (seed, L)).randbytes(L)
            for a, algo in enumerate(ALGOS):
                for ci, chunks in enumerate(sweep_chunkings(L, BLOCK[algo])):
                    if ci == 0:
                        cases = [digest_case(a, f, (L + f) % 3, chunks, msg) for f in range(8)]
                    else:
                        cases = [digest_case(a, (L + ci + a) % 4, (L + ci) % 3, chunks, msg)]
                    for c in cases:
                        evaluate(runner, st, c, has_sse2)
                        st.labels["sweep/digest"] = st.labels.get("sweep/digest", 0) + 1
        for L in range(shard, SIP_SWEEP_MAX + 1, nshards):
            msg = bytes(range(L)) if L <= 63 else random.Random("c14-sip/%d/%d" % (seed, L)).randbytes(L)
            rkey = random.Random("c14-sipkey/%d/%d" % (seed, L)).randbytes(16)
            for off in range(16):
                for c in (sip_case(6, off, 0, DEFAULT_KEY, msg), sip_case(6, off, (off * 7 + L) % 16, rkey, msg),
                          sip_case(3 + (L + off) % 3, off, 0, DEFAULT_KEY, msg)):
                    evaluate(runner, st, c, has_sse2)
                    st.labels["sweep/siphash"] = st.labels.get("sweep/siphash", 0) + 1
    except CaseFailure:
        pass
    finally:
        runner.close()
    r = st.result()
    r["shard"] = shard
    return r


# ----------------------------------------------------------------------------------------------------------------------
# Hypothesis search

# residues mod 128 within [-9, +1] of a 64- or 128-byte block boundary (all padding cases of both block sizes)
BOUNDARY_RESIDUES = [0, 1] + list(range(55, 66)) + list(range(119, 128))


def hyp_shard(args):
    exe, kind, shard, seed, nexamples, budget_end = args
    st = Stats()
    res = {"shard": shard, "kind": kind, "skipped": False}
    if time.time() > budget_end:
        res.update(st.result())
        res["skipped"] = True
        return res
    from hypothesis import given, settings, seed as hseed, strategies as S, Phase, HealthCheck
    from hypothesis.errors import Flaky
    try:
        from hypothesis.errors import FlakyFailure
    except ImportError:  # older Hypothesis
        FlakyFailure = Flaky

    runner = Runner(exe)
    has_sse2 = runner.call(b"I") == b"\1"
    br = BOUNDARY_RESIDUES

    @S.composite
    def digest_inputs(draw):
        form = draw(S.sampled_from([0, 1, 2, 3, 0, 1, 2, 3, 0, 1, 2, 3, 4, 5, 6, 7]))
        ctor = draw(S.integers(0, 2))
        # length = 128*q + r so that shrinking q keeps the padding class (r mod 64, r mod 128) of a failing case
        lsel = draw(S.integers(0, 39))
        if lsel < 10:
            L = draw(S.integers(0, 300))
        else:
            q = draw(S.integers(0, 8)) if lsel < 39 else draw(S.integers(78, 781))
            r = draw(S.sampled_from(br)) if draw(S.integers(0, 2)) else draw(S.integers(0, 127))
            L = 128 * q + r
        if L <= 1160 and draw(S.integers(0, 3)) != 3:
            msg = draw(S.binary(min_size=L, max_size=L))
        else:
            # long (or every fourth short) message: content expanded from a drawn 64-bit seed
            msg = random.Random(draw(S.integers(0, 2 ** 64 - 1))).randbytes(L)
        if form >= 4:
            return form, 0, [], msg
        ncuts = draw(S.integers(0, 11))
        cuts = []
        for _ in range(ncuts):
            how = draw(S.integers(0, 2))
            if how < 2:
                cuts.append(draw(S.integers(0, L)))
            else:
                k = draw(S.integers(0, L // 64 + 1))
                d = draw(S.sampled_from([0, -1, 1]))
                cuts.append(min(max(64 * k + d, 0), L))
        cuts.sort()
        styles = draw(S.integers(0, 3 ** (ncuts + 1) - 1))
        chunks, prev = [], 0
        for c in cuts + [L]:
            chunks.append((c - prev, styles % 3))
            styles //= 3
            prev = c
        return form, ctor, chunks, msg

    @S.composite
    def sip_inputs(draw):
        variant = draw(S.sampled_from([6, 0, 1, 2, 6, 3, 4, 5, 6] + ([7] if STRING_OVERLOAD else [])))
        msg_off = draw(S.integers(0, 15))
        key_off = draw(S.integers(0, 15))
        lsel = draw(S.integers(0, 9))
        L = draw(S.integers(0, 130)) if lsel < 9 else draw(S.integers(131, 700))
        key = DEFAULT_KEY if 3 <= variant <= 5 or variant == 7 else draw(S.binary(min_size=16, max_size=16))
        msg = draw(S.binary(min_size=L, max_size=L))
        return variant, msg_off, key_off, key, msg

    # too_slow is wall-clock based: a shard shares its core with other checks (observed 4x slowdowns under load)
    HC = [] if os.environ.get("C14_NO_SUPPRESS") else [HealthCheck.too_slow]
    common = dict(max_examples=nexamples, database=None, deadline=None, report_multiple_bugs=False,
                  phases=[Phase.generate, Phase.shrink],
                  suppress_health_check=HC)

    if kind == "digest":
        @hseed(seed)
        @settings(**common)
        @given(digest_inputs())
        def prop(inp):
            form, ctor, chunks, msg = inp
            for a in range(4):
                evaluate(runner, st, digest_case(a, form, ctor, chunks, msg), has_sse2)
    else:
        @hseed(seed)
        @settings(**common)
        @given(sip_inputs())
        def prop(inp):
            evaluate(runner, st, sip_case(*inp), has_sse2)

    try:
        prop()
    except CaseFailure:
        pass
    except (Flaky, FlakyFailure) as e:
        res["flaky"] = str(e)[:500]
    finally:
        runner.close()
    res.update(st.result())
    return res


# ----------------------------------------------------------------------------------------------------------------------
# driver

def confirm(exe, case):
    """re-execute a failing case in a fresh runner; returns (label,msg) or None"""
    r = Runner(exe)
    try:
        has_sse2 = r.call(b"I") == b"\1"
        return check_case(r, case, has_sse2)
    finally:
        r.close()


def count_distinct(blobs):
    data = b"".join(blobs)
    try:
        import numpy as np
        return int(np.unique(np.frombuffer(data, dtype="<u8")).size)
    except ImportError:
        return len({data[i:i + 8] for i in range(0, len(data), 8)})


def run_steps(mode):
    seed = int(os.environ.get("VERIF_SEED", "1") or "1")
    tier = os.environ.get("VERIF_TIER", "quick")
    work = os.environ.get("VERIF_WORK") or tempfile.mkdtemp(prefix="c14-")
    out_path = os.environ.get("STEP_OUT") or os.path.join(work, "step-%s.json" % mode)
    nworkers = int(os.environ.get("VERIF_WORKERS", "0") or 0) or os.cpu_count() or 4
    validate_oracles()
    exe = build_runner(work)
    t_built = time.time()
    ctx = multiprocessing.get_context("fork")
    if mode == "sweep":
        nshards = 32
        jobs = [(exe, seed, s, nshards) for s in range(nshards)]
        fn = sweep_shard
    else:
        nshards = int(os.environ.get("C14_SHARDS", "32"))
        nd = int(os.environ.get("C14_EXAMPLES", "20000"))
        ns = int(os.environ.get("C14_SIP_EXAMPLES", "20000"))
        budget_end = T0 + float(os.environ.get("C14_BUDGET_S", "1e9"))
        jobs = []
        for s in range(nshards):
            jobs.append((exe, "digest", s, seed * 100003 + 2 * s, max(1, nd // nshards), budget_end))
            if s % 2 == 0:
                jobs.append((exe, "siphash", s, seed * 100003 + 2 * s + 1, max(1, 2 * ns // nshards), budget_end))
        fn = hyp_shard
    with ctx.Pool(min(nworkers, len(jobs))) as pool:
        results = pool.map(fn, jobs, chunksize=1)
    labels = {}
    evaluations = 0
    samples = []
    skipped = 0
    for r in results:
        evaluations += r["evaluations"]
        for k, v in r["labels"].items():
            labels[k] = labels.get(k, 0) + v
        samples += r["samples"][:1]
        skipped += 1 if r.get("skipped") else 0
        if r.get("flaky"):
            labels["flaky-shards"] = labels.get("flaky-shards", 0) + 1
            sys.stderr.write("shard %s flaky: %s\n" % (r["shard"], r["flaky"]))
    if skipped:
        labels["shards-skipped-by-time-budget"] = skipped
    failure = None
    failing = [r["failure"] for r in results if r["failure"]]
    failing.sort(key=lambda f: len(encode(f["case"])))  # deterministic choice: smallest case, ties in job order
    for f in failing:
        again = confirm(exe, f["case"])
        if again is None:
            labels["unreproducible/" + f["label"]] = labels.get("unreproducible/" + f["label"], 0) + 1
            sys.stderr.write("unreproducible failure %s: %s\n" % (f["label"], describe(f["case"])))
            continue
        label, msg = again
        case = dict(f["case"])
        case["label"] = label
        case["expected"] = show(expected(case), case)
        path = os.path.join(work, "c14-%s-failure.case" % mode)
        with open(path, "w") as fh:
            json.dump(case, fh, indent=1)
            fh.write("\n")
        failure = {"label": label, "msg": (describe(f["case"]) + "\n" + msg)[:4000], "file": path}
        break
    out = {"evaluations": evaluations, "distinct_nontrivial": count_distinct([r["nt"] for r in results]),
           "samples": samples[:6], "labels": dict(sorted(labels.items())),
           "wall_s": round(time.time() - T0, 2), "build_s": round(t_built - T0, 2), "failure": failure}
    with open(out_path, "w") as fh:
        json.dump(out, fh, indent=1)
        fh.write("\n")
    sys.stdout.write("C14 %s: evaluations=%d distinct_nontrivial=%d wall=%.1fs%s\n" % (
        mode, evaluations, out["distinct_nontrivial"], out["wall_s"],
        " FAILURE " + failure["label"] if failure else ""))
    return 0


def replay():
    path = os.environ.get("REPLAY_FILE") or (sys.argv[2] if len(sys.argv) > 2 else None)
    if not path:
        raise Machinery("REPLAY_FILE not set")
    with open(path) as fh:
        case = json.load(fh)
    validate_oracles()
    work = tempfile.mkdtemp(prefix="c14-replay-")
    try:
        exe = build_runner(work)
        print("case: " + describe(case))
        print("expected: " + show(expected(case), case))
        r = confirm(exe, case)
    finally:
        import shutil
        shutil.rmtree(work, ignore_errors=True)
    if r is None:
        print("RESULT PASS")
        return 0
    print(r[1])
    print("RESULT FAIL label=%s" % r[0])
    return 1


def main():
    mode = sys.argv[1] if len(sys.argv) > 1 else ""
    if mode in ("sweep", "hyp"):
        return run_steps(mode)
    if mode == "replay":
        return replay()
    sys.stderr.write(__doc__)
    return 2


if __name__ == "__main__":
    try:
        sys.exit(main())
    except Machinery as e:
        sys.stderr.write("C14 machinery error: %s\n" % e)
        sys.exit(2)
    except Exception:
        traceback.print_exc()
        sys.exit(2)
