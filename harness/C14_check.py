#!/opt/veriftools/pyvenv/bin/python
"""C14 — digests and SipHash equal their standards (DESIGN.md §4 C14).

Hypothesis (generator + shrinker) and hashlib / an independent SipHash-2-4 (oracles) on the Python side,
harness/C14_runner.cpp (tlx code, flavour R: -O1 -DNDEBUG ASan+UBSan) on the C++ side.

    C14_check.py sweep    deterministic sweep: every length 0..1100 x 4 digests x 3 chunkings (+ SipHash lengths x offsets)
                          + the scale classes: generated messages of 8 KiB .. 16 MiB (thorough: .. 256 MiB) around the
                          points where the encoded bit length gains a byte, and SipHash messages up to 64 KiB
    C14_check.py huge     the huge-single-call class: messages of 2^29 bytes (2^32 bits) and more fed in ONE call, as
                          1 + rest and in a few large pieces (thorough: 2^29-1, 2^29, 2^29+1, 2^30+64, 2^32-1); ONE process
                          and one message buffer at a time, serialised across concurrent checks by work/c14-huge.lock
    C14_check.py hyp      Hypothesis search (digest and SipHash properties), sharded over worker processes
    C14_check.py replay   re-execute the self-contained JSON case in $REPLAY_FILE (no Hypothesis involved)

Environment (set by run.py's "cmd" step): STEP_OUT, VERIF_SEED, VERIF_TIER, VERIF_REPO, VERIF_WORK, REPLAY_FILE;
tuning: C14_EXAMPLES (digest Hypothesis examples, each evaluated on all 4 digests), C14_SIP_EXAMPLES,
C14_SHARDS, C14_BUDGET_S (no new shard is started after this many seconds), VERIF_WORKERS.
Exit status: 0 ok / result written, 1 replayed case fails, 2 machinery error.
"""
import hashlib
import json
import multiprocessing
import os
import random
import re
import struct
import subprocess
import sys
import tempfile
import time
import traceback

HERE = os.path.dirname(os.path.abspath(__file__))
REPO = os.environ.get("VERIF_REPO", "/repo")
T0 = time.time()

SAN_DEFAULTS = {
    "ASAN_OPTIONS": "detect_leaks=0:exitcode=86:allocator_may_return_null=1:detect_stack_use_after_return=0",
    "UBSAN_OPTIONS": "print_stacktrace=0",
}

# ----------------------------------------------------------------------------------------------------------------------
# building and talking to the C++ runner

CXXFLAGS = ["-std=gnu++17", "-O1", "-gline-tables-only", "-DNDEBUG", "-fsanitize=address,undefined",
            "-fno-sanitize=alignment", "-fno-sanitize-recover=undefined", "-fno-omit-frame-pointer"]
TLX_SOURCES = ["tlx/digest/md5.cpp", "tlx/digest/sha1.cpp", "tlx/digest/sha256.cpp", "tlx/digest/sha512.cpp",
               "tlx/string/hexdump.cpp"]


class Machinery(Exception):
    """harness/tooling problem: never a violation"""



def huge_lock_path():
    """lock file of the huge step, under /verif/work (created on demand)"""
    d = os.path.join(os.path.dirname(os.path.dirname(os.path.abspath(__file__))), "work")
    os.makedirs(d, exist_ok=True)
    return os.path.join(d, "c14-huge.lock")


def build_runner(work):
    """compile harness/C14_runner.cpp + the tlx digest sources of $VERIF_REPO (takes ~2 s; one build per work dir,
    run.py wipes the work dir at the start of every check)"""
    exe = os.path.join(work, "c14_runner")
    if os.path.exists(exe):
        return exe
    os.makedirs(work, exist_ok=True)
    bdir = tempfile.mkdtemp(prefix="c14build-", dir=work)
    jobs = [(os.path.join(REPO, s), os.path.join(bdir, "t%d.o" % i)) for i, s in enumerate(TLX_SOURCES)]
    jobs.append((os.path.join(HERE, "C14_runner.cpp"), os.path.join(bdir, "runner.o")))
    procs = [(src, subprocess.Popen(["clang++"] + CXXFLAGS + ["-I" + REPO, "-c", src, "-o", obj],
                                    stdout=subprocess.PIPE, stderr=subprocess.STDOUT, text=True)) for src, obj in jobs]
    for src, p in procs:
        out, _ = p.communicate(timeout=900)
        if p.returncode != 0:
            raise Machinery("BUILD-ERROR %s\n%s" % (src, out[-4000:]))
    r = subprocess.run(["clang++"] + CXXFLAGS + [o for _, o in jobs] + ["-pthread", "-o", exe + ".tmp"], capture_output=True,
                       text=True, timeout=900)
    if r.returncode != 0:
        raise Machinery("LINK-ERROR\n" + r.stderr[-4000:])
    os.rename(exe + ".tmp", exe)
    return exe


class RunnerDied(Exception):
    def __init__(self, rc, text):
        Exception.__init__(self, "runner died rc=%s" % rc)
        self.rc = rc
        self.text = text


class Runner:
    """one runner process; call() is a synchronous request/response round trip"""

    def __init__(self, exe):
        self.exe = exe
        self.p = None
        self.errf = None

    def start(self):
        env = dict(os.environ)
        for k, v in SAN_DEFAULTS.items():
            env.setdefault(k, v)
        self.errf = tempfile.TemporaryFile()
        self.p = subprocess.Popen([self.exe], stdin=subprocess.PIPE, stdout=subprocess.PIPE, stderr=self.errf,
                                  bufsize=0, env=env)

    def close(self):
        if self.p is not None:
            try:
                self.p.stdin.close()
            except OSError:
                pass
            try:
                self.p.wait(timeout=20)
            except subprocess.TimeoutExpired:
                self.p.kill()
                self.p.wait()
            self.p.stdout.close()
            self.errf.close()
            self.p = None

    def _dead(self):
        try:
            rc = self.p.wait(timeout=60)
        except subprocess.TimeoutExpired:
            self.p.kill()
            rc = self.p.wait()
        self.errf.seek(0)
        text = self.errf.read().decode("utf-8", "replace")
        try:
            self.p.stdin.close()
        except OSError:
            pass
        self.p.stdout.close()
        self.errf.close()
        self.p = None
        if rc == 3:
            raise Machinery("runner rejected a request: " + text[-500:])
        raise RunnerDied(rc, text)

    def _read(self, n):
        out = b""
        while len(out) < n:
            b = self.p.stdout.read(n - len(out))
            if not b:
                self._dead()
            out += b
        return out

    def call(self, payload):
        if self.p is None:
            self.start()
        try:
            self.p.stdin.write(struct.pack("<I", len(payload)) + payload)
        except (BrokenPipeError, OSError):
            self._dead()
        (m,) = struct.unpack("<I", self._read(4))
        return self._read(m) if m else b""


# ----------------------------------------------------------------------------------------------------------------------
# oracles

ALGOS = ["md5", "sha1", "sha256", "sha512"]
BLOCK = {"md5": 64, "sha1": 64, "sha256": 64, "sha512": 128}
LENFIELD = {"md5": 8, "sha1": 8, "sha256": 8, "sha512": 16}
FORMS = ["digest", "digest_hex", "digest_hex_uc", "finalize", "helper_hex_ptr", "helper_hex_str", "helper_hex_uc_ptr",
         "helper_hex_uc_str", "helper_hex_sv", "helper_hex_uc_sv"]
NFORMS = len(FORMS)
CTORS = ["default", "ptr", "sv", "string"]
STYLES = ["ptr", "sv", "string", "std_sv"]
SIP_VARIANTS = ["plain", "sse2", "dispatch", "default_key_u8", "default_key_char", "default_key_sv", "all3", "default_key_string",
                "template_pod"]
# sizeof of the objects hashed through `template <typename Type> siphash(const Type&)` (C14_runner.cpp variant 8)
POD_SIZES = [1, 2, 3, 4, 5, 7, 8, 9, 12, 15, 16, 17, 24, 31, 32, 33, 64]
DEFAULT_KEY = bytes(range(16))

M64 = (1 << 64) - 1


def _rotl(x, b):
    return ((x << b) | (x >> (64 - b))) & M64


def siphash24(key, msg):
    """SipHash-2-4, transcribed from the paper (Aumasson & Bernstein 2012, section 2): initialisation, message padded
    to a multiple of 8 bytes whose last byte is len mod 256, c=2 compression rounds, d=4 finalisation rounds."""
    k0 = int.from_bytes(key[0:8], "little")
    k1 = int.from_bytes(key[8:16], "little")
    v = [k0 ^ 0x736f6d6570736575, k1 ^ 0x646f72616e646f6d, k0 ^ 0x6c7967656e657261, k1 ^ 0x7465646279746573]

    def sipround():
        v[0] = (v[0] + v[1]) & M64
        v[2] = (v[2] + v[3]) & M64
        v[1] = _rotl(v[1], 13) ^ v[0]
        v[3] = _rotl(v[3], 16) ^ v[2]
        v[0] = _rotl(v[0], 32)
        v[2] = (v[2] + v[1]) & M64
        v[0] = (v[0] + v[3]) & M64
        v[1] = _rotl(v[1], 17) ^ v[2]
        v[3] = _rotl(v[3], 21) ^ v[0]
        v[2] = _rotl(v[2], 32)

    padded = msg + b"\0" * (7 - len(msg) % 8) + bytes([len(msg) % 256])
    for m in struct.unpack("<%dQ" % (len(padded) // 8), padded):  # the 64-bit little-endian words m_i
        v[3] ^= m
        sipround()
        sipround()
        v[0] ^= m
    v[2] ^= 0xff
    for _ in range(4):
        sipround()
    return v[0] ^ v[1] ^ v[2] ^ v[3]


# Official SipHash-2-4 64-bit test vectors (reference implementation, vectors.h `vectors_sip64`): key 00..0f,
# message i = bytes 00..(i-1), i = 0..63, each output read as a little-endian u64.
SIP_VECTORS = [
    0x726fdb47dd0e0e31, 0x74f839c593dc67fd, 0x0d6c8009d9a94f5a, 0x85676696d7fb7e2d, 0xcf2794e0277187b7,
    0x18765564cd99a68d, 0xcbc9466e58fee3ce, 0xab0200f58b01d137, 0x93f5f5799a932462, 0x9e0082df0ba9e4b0,
    0x7a5dbbc594ddb9f3, 0xf4b32f46226bada7, 0x751e8fbc860ee5fb, 0x14ea5627c0843d90, 0xf723ca908e7af2ee,
    0xa129ca6149be45e5, 0x3f2acc7f57c29bdb, 0x699ae9f52cbe4794, 0x4bc1b3f0968dd39c, 0xbb6dc91da77961bd,
    0xbed65cf21aa2ee98, 0xd0f2cbb02e3b67c7, 0x93536795e3a33e88, 0xa80c038ccd5ccec8, 0xb8ad50c6f649af94,
    0xbce192de8a85b8ea, 0x17d835b85bbb15f3, 0x2f2e6163076bcfad, 0xde4daaaca71dc9a5, 0xa6a2506687956571,
    0xad87a3535c49ef28, 0x32d892fad841c342, 0x7127512f72f27cce, 0xa7f32346f95978e3, 0x12e0b01abb051238,
    0x15e034d40fa197ae, 0x314dffbe0815a3b4, 0x027990f029623981, 0xcadcd4e59ef40c4d, 0x9abfd8766a33735c,
    0x0e3ea96b5304a7d0, 0xad0c42d6fc585992, 0x187306c89bc215a9, 0xd4a60abcf3792b95, 0xf935451de4f21df2,
    0xa9538f0419755787, 0xdb9acddff56ca510, 0xd06c98cd5c0975eb, 0xe612a3cb9ecba951, 0xc766e62cfcadaf96,
    0xee64435a9752fe72, 0xa192d576b245165a, 0x0a8787bf8ecb74b2, 0x81b3e73d20b49b6f, 0x7fa8220ba3b2ecea,
    0x245731c13ca42499, 0xb78dbfaf3a8d83bd, 0xea1ad565322a1a0b, 0x60e61c23a3795013, 0x6606d7e446282b93,
    0x6ca4ecb15c5f91e1, 0x9f626da15c9625f3, 0xe51b38608ef25f57, 0x958a324ceb064572]


def validate_oracles():
    """start-up self check of the Python oracles (machinery error if they are wrong)"""
    for i in range(64):
        got = siphash24(DEFAULT_KEY, bytes(range(i)))
        if got != SIP_VECTORS[i]:
            raise Machinery("Python SipHash-2-4 reference disagrees with official vector %d: %016x" % (i, got))
    # worked example of the paper, Appendix A
    if siphash24(DEFAULT_KEY, bytes(range(15))) != 0xa129ca6149be45e5:
        raise Machinery("Python SipHash-2-4 reference disagrees with the paper's Appendix A")
    # hashlib sanity: FIPS 180 / RFC 1321 "abc" vectors
    abc = {"md5": "900150983cd24fb0d6963f7d28e17f72", "sha1": "a9993e364706816aba3e25717850c26c9cd0d89d",
           "sha256": "ba7816bf8f01cfea414140de5dae2223b00361a396177a9cb410ff61f20015ad",
           "sha512": "ddaf35a193617abacc417349ae20413112e6fa4e89a97ea20a9eeee64b55d39a"
                     "2192992a274fc1a836ba3c23a3feebbd454d4423643ce80e2a9ac94fa54ca49f"}
    for a, h in abc.items():
        if hashlib.new(a, b"abc").hexdigest() != h:
            raise Machinery("hashlib %s is not the standard function" % a)


def validate_generator(exe):
    """the runner's gen_bytes must be byte-identical to the Python one (machinery error otherwise)"""
    r = Runner(exe)
    try:
        for seed in (0, 1, 2 ** 32 - 1, 2 ** 32, 2 ** 64 - 1, 12345678901234567):
            for n in (0, 1, 2, 3, 4, 5, 7, 8, 9, 63, 1000, 4099, 70001):
                if r.call(b"P" + struct.pack("<QI", seed, n)) != random.Random(seed).randbytes(n):
                    raise Machinery("runner gen_bytes(%d, %d) differs from random.Random(seed).randbytes(n)" % (seed, n))
        for seed, n, mem in ((3, 0, 0), (3, 1, 0), (5, TILE - 1, 0), (5, TILE, 0), (2 ** 40 + 1, 3 * TILE + 77, 0), (0, 70001, 1)):
            want = b"".join(huge_blocks(seed, n, mem))
            if r.call(b"T" + struct.pack("<QQB", seed, n, mem)) != want:
                raise Machinery("runner huge message (seed=%d, len=%d, mem=%d) differs from the Python one" % (seed, n, mem))
    finally:
        r.close()


# ----------------------------------------------------------------------------------------------------------------------
# cases: JSON-able dicts
#   {"kind":"digest","algo":..,"form":..,"ctor":..,"chunks":[[len,style],..],"msg":hex}
#   {"kind":"digest", ... ,"gen":{"seed":s,"len":n}}     generated message gen_bytes(s, n) instead of "msg" (scale class)
#   {"kind":"siphash","variant":..,"msg_off":n,"key_off":n,"key":hex,"msg":hex}

def gen_bytes(seed, n):
    """the generated message of a scale case: MT19937 seeded with the integer `seed`, n bytes. The runner implements the
    same generator (C14_runner.cpp PyMT/gen_bytes), so that megabytes need not travel through the pipe; the two are
    compared at start-up (validate_generator)."""
    key = (seed, n)
    if _gen_cache.get("key") != key:
        _gen_cache["key"] = None
        # pieces of 64 MiB (a multiple of 4 bytes, so the concatenation is the same MT19937 word stream as one
        # randbytes(n) call; getrandbits() itself is limited to 2^31 - 1 bits)
        r, step = random.Random(seed), 1 << 26
        _gen_cache["val"] = r.randbytes(n) if n <= step else b"".join(r.randbytes(min(step, n - i))
                                                                      for i in range(0, n, step))
        _gen_cache["key"] = key
    return _gen_cache["val"]


_gen_cache = {}
_digest_cache = {}
_sip_cache = {}


# ---- huge messages (2^29 bytes and more): never materialised on the Python side -------------------------------------------
TILE = 1048573  # prime period of the tiled message (see C14_runner.cpp 'H')


def huge_blocks(seed, n, mem):
    """the huge message as a sequence of blocks: mem 0 = gen_bytes(seed, TILE) repeated with period TILE and cut at n,
    mem 1 = n zero bytes"""
    if mem == 1:
        blk = bytes(1 << 26)
    else:
        blk = random.Random(seed).randbytes(TILE) * 64
    left = n
    while left > 0:
        k = min(left, len(blk))
        yield blk if k == len(blk) else blk[:k]
        left -= k


def _huge_compute(algos, seed, n, mem):
    hs = [hashlib.new(a) for a in algos]
    for blk in huge_blocks(seed, n, mem):
        for h in hs:
            h.update(blk)  # hashlib releases the GIL: this overlaps with the runner working on the same message
    if len(_huge_cache) >= 16:
        _huge_cache.clear()
    for a, h in zip(algos, hs):
        _huge_cache[(a, seed, n, mem)] = h


def huge_prefetch(case):
    """start hashing the reference digest(s) of a huge case in a thread, while the runner hashes the same message"""
    if case["kind"] != "digest" or "huge" not in case:
        return
    hh = case["huge"]
    want = [case["algo"]] + [a for a in case.get("prefetch", ()) if a != case["algo"]]
    algos = [a for a in want if (a, hh["seed"], hh["len"], hh["mem"]) not in _huge_cache]
    if not algos or _huge_thread:
        return
    import threading
    t = threading.Thread(target=_huge_compute, args=(algos, hh["seed"], hh["len"], hh["mem"]))
    t.start()
    _huge_thread.append(t)


def huge_digest(algo, seed, n, mem, prefetch=()):
    """hashlib object over the huge message; `prefetch` = more algorithms to compute in the same pass"""
    while _huge_thread:
        _huge_thread.pop().join()
    key = (algo, seed, n, mem)
    if key not in _huge_cache:
        _huge_compute([algo] + [a for a in prefetch if a != algo and (a, seed, n, mem) not in _huge_cache], seed, n, mem)
    return _huge_cache[key]


_huge_thread = []
_huge_cache = {}


def msg_len(case):
    if "huge" in case:
        return case["huge"]["len"]
    return case["gen"]["len"] if "gen" in case else len(case["msg"]) // 2


def msg_bytes(case):
    return gen_bytes(case["gen"]["seed"], case["gen"]["len"]) if "gen" in case else bytes.fromhex(case["msg"])


def digest_case(algo, form, ctor, chunks, msg, gen=None, huge=None):
    """gen = (seed, length): the message is gen_bytes(seed, length) and `msg` is ignored;
    huge = (seed, length, mem): the message is the tiled / all-zero huge message, chunks are fed without copying"""
    if form >= 4:
        chunks, ctor = [], 0
    c = {"kind": "digest", "algo": ALGOS[algo], "form": FORMS[form], "ctor": CTORS[ctor],
         "chunks": [[n, STYLES[s]] for n, s in chunks]}
    if huge is not None:
        c["huge"] = {"seed": huge[0], "len": huge[1], "mem": huge[2]}
    elif gen is None:
        c["msg"] = msg.hex()
    else:
        c["gen"] = {"seed": gen[0], "len": gen[1]}
    return c


def sip_huge_case(seed, n, mem, key):
    return {"kind": "siphash_huge", "huge": {"seed": seed, "len": n, "mem": mem}, "key": key.hex()}


def sip_case(variant, msg_off, key_off, key, msg):
    if 3 <= variant <= 5 or variant >= 7:
        key, key_off = DEFAULT_KEY, 0
    if variant == 8:  # the message is the object representation: cut to a supported sizeof
        n = max(x for x in POD_SIZES if x <= max(len(msg), 1))
        msg, msg_off = (msg + b"\0")[:n], 0
    return {"kind": "siphash", "variant": SIP_VARIANTS[variant], "msg_off": msg_off, "key_off": key_off,
            "key": key.hex(), "msg": msg.hex()}


def encode(case):
    if case["kind"] == "siphash_huge":
        h = case["huge"]
        return b"U" + struct.pack("<QQB", h["seed"], h["len"], h["mem"]) + bytes.fromhex(case["key"])
    if case["kind"] == "digest":
        out = bytearray(b"H" if "huge" in case else b"G" if "gen" in case else b"D")
        out += bytes([ALGOS.index(case["algo"]), FORMS.index(case["form"]), CTORS.index(case["ctor"])])
        out += struct.pack("<I", len(case["chunks"]))
        for n, s in case["chunks"]:
            out += struct.pack("<IB", n, STYLES.index(s))
        if "huge" in case:
            h = case["huge"]
            return bytes(out) + struct.pack("<QQB", h["seed"], h["len"], h["mem"])
        if "gen" in case:
            return bytes(out) + struct.pack("<QI", case["gen"]["seed"], case["gen"]["len"])
        return bytes(out) + bytes.fromhex(case["msg"])
    msg = bytes.fromhex(case["msg"])
    out = bytearray(b"S")
    out += bytes([SIP_VARIANTS.index(case["variant"]), case["msg_off"], case["key_off"]])
    out += bytes.fromhex(case["key"])
    return bytes(out) + msg


def expected(case):
    if case["kind"] == "siphash_huge":
        return None  # no reference value at this size: the three implementations are compared with each other
    if case["kind"] == "digest":
        if "huge" in case:
            hh = case["huge"]
            h = huge_digest(case["algo"], hh["seed"], hh["len"], hh["mem"], case.get("prefetch", ()))
        elif "gen" in case:  # long message hashed in several forms / chunkings: one hashlib pass per (algorithm, message)
            key = (case["algo"], case["gen"]["seed"], case["gen"]["len"])
            h = _digest_cache.get(key)
            if h is None:
                if len(_digest_cache) >= 8:
                    _digest_cache.clear()
                h = _digest_cache[key] = hashlib.new(case["algo"], msg_bytes(case))
        else:
            h = hashlib.new(case["algo"], bytes.fromhex(case["msg"]))
        f = case["form"]
        if f in ("digest", "finalize"):
            return h.digest()
        if f in ("digest_hex", "helper_hex_ptr", "helper_hex_str", "helper_hex_sv"):
            return h.hexdigest().encode()
        return h.hexdigest().upper().encode()
    if len(case["msg"]) >= 2048:  # long message evaluated at several alignments / variants: one reference pass
        key = (case["key"], hashlib.blake2b(case["msg"].encode(), digest_size=16).digest())
        h = _sip_cache.get(key)
        if h is None:
            if len(_sip_cache) >= 8:
                _sip_cache.clear()
            h = _sip_cache[key] = siphash24(bytes.fromhex(case["key"]), bytes.fromhex(case["msg"]))
    else:
        h = siphash24(bytes.fromhex(case["key"]), bytes.fromhex(case["msg"]))
    v = struct.pack("<Q", h)
    return v * 3 if case["variant"] == "all3" else v


def show(b, case):
    if b is None:
        return "(plain == sse2 == dispatch)"
    if case["kind"] == "digest" and case["form"] not in ("digest", "finalize"):
        return repr(b.decode("latin-1"))
    if case["kind"] == "siphash":
        return "0x" + b[0:8][::-1].hex()
    return b.hex()


def describe(case):
    n = msg_len(case)
    if "huge" in case:
        hh = case["huge"]
        m = ("%d zero bytes" % n) if hh["mem"] == 1 else \
            "random.Random(%d).randbytes(%d) repeated with that period, cut at %d bytes" % (hh["seed"], TILE, n)
        if case["kind"] == "siphash_huge":
            return "siphash plain/sse2/dispatch len=%d key=%s msg=%s" % (n, case["key"], m)
    elif "gen" in case:
        m = "gen_bytes(seed=%d, len=%d) = random.Random(seed).randbytes(len)" % (case["gen"]["seed"], n)
    else:
        m = case["msg"] if n <= 48 else case["msg"][:64] + "...(%d bytes)" % n
    if case["kind"] == "digest":
        ch = case["chunks"]
        chs = " ".join("%d%s" % (k, {"ptr": "", "sv": "v", "string": "s", "std_sv": "w"}[s]) for k, s in ch[:24]) + \
            (" ...(%d chunks)" % len(ch) if len(ch) > 24 else "")
        return "%s %s ctor=%s len=%d chunks=[%s] msg=%s" % (case["algo"], case["form"], case["ctor"], n, chs, m)
    msg = bytes.fromhex(case["msg"])
    return "siphash %s len=%d msg_off=%d key_off=%d key=%s msg=%s" % (case["variant"], len(msg), case["msg_off"],
                                                                   case["key_off"], case["key"], m)


def crash_label(e):
    m = re.search(r"AddressSanitizer: ([A-Za-z0-9_-]+)", e.text)
    if m:
        return "crash/asan:" + m.group(1)
    m = re.search(r"runtime error: ([a-z -]+?)(?: of | to | for |:|\d|$)", e.text, re.M)
    if m:
        return "crash/ubsan:" + m.group(1).strip().replace(" ", "-")
    if e.rc is not None and e.rc < 0:
        return "crash/signal:%d" % -e.rc
    return "crash/exit:%s" % e.rc


def check_case(runner, case, has_sse2=True, got=None):
    """returns None (property holds on this case) or (label, message); got = response already obtained (batch)"""
    try:
        if got is None:
            got = runner.call(encode(case))
    except RunnerDied as e:
        return crash_label(e), "runner died (rc=%s) on this case:\n%s" % (e.rc, e.text[-3000:])
    want = expected(case)
    if case["kind"] == "siphash_huge":
        if len(got) != 24:
            raise Machinery("bad huge siphash response")
        pl, ss, di = got[0:8], got[8:16], got[16:24]
        if pl != ss:
            return "C14/siphash-plain-vs-sse2", "plain %s != sse2 %s" % (pl[::-1].hex(), ss[::-1].hex())
        if di != pl:
            return "C14/siphash-dispatch", "dispatch %s != plain %s" % (di[::-1].hex(), pl[::-1].hex())
        return None
    if case["kind"] == "digest":
        if got != want:
            return "C14/%s-%s" % (case["algo"], case["form"]), "got %s, standard says %s" % (show(got, case),
                                                                                             show(want, case))
        return None
    if case["variant"] == "sse2" and not has_sse2:
        return None
    if case["variant"] == "all3":
        if len(got) != 24:
            raise Machinery("bad all3 response")
        p, s, d = got[0:8], got[8:16], got[16:24]
        ref = want[0:8]
        if p != s:
            return "C14/siphash-plain-vs-sse2", "plain %s != sse2 %s (reference %s)" % (p[::-1].hex(), s[::-1].hex(),
                                                                                       ref[::-1].hex())
        if p != ref:
            return "C14/siphash-plain", "got %s, SipHash-2-4 is %s" % (p[::-1].hex(), ref[::-1].hex())
        if d != ref:
            return "C14/siphash-dispatch", "got %s, SipHash-2-4 is %s" % (d[::-1].hex(), ref[::-1].hex())
        return None
    if case["variant"] == "template_pod":
        if len(got) not in (16, 24):
            raise Machinery("bad template_pod response")
        for i in range(0, len(got), 8):
            if got[i:i + 8] != want:
                return "C14/siphash-template-pod", "object type #%d of %d bytes: got %s, SipHash-2-4 of its bytes is %s" % (
                    i // 8, len(case["msg"]) // 2, got[i:i + 8][::-1].hex(), want[::-1].hex())
        return None
    if got != want:
        return "C14/siphash-" + case["variant"].replace("_", "-"), "got %s, SipHash-2-4 is %s" % (got[::-1].hex(),
                                                                                                 want[::-1].hex())
    return None


def huge_size_label(n):
    for k in (29, 30, 32):
        if abs(n - (1 << k)) <= 256:
            return "n=2^%d%s" % (k, "" if n == 1 << k else "%+d" % (n - (1 << k)))
    return "n=%d" % n


def classify(case):
    """(labels, nontrivial) by the DESIGN §4 C14 rule"""
    labels = []
    n = msg_len(case)
    if case["kind"] == "siphash_huge":
        return ["huge/siphash-3-implementations", "huge/siphash/" + huge_size_label(n)], True
    if case["kind"] == "digest":
        a = case["algo"]
        B = BLOCK[a]
        labels += ["algo/" + a, "form/" + case["form"]]
        rem = n % B
        if n == 0:
            labels.append("len/0")
        elif n >= 10000:
            labels.append("len/long")
        # scale classes: number of significant bytes of the encoded bit length (8 n)
        if n >= 1 << 13:
            labels.append("scale/bitlen>=2^16(8KiB)")
        if n >= 1 << 21:
            labels.append("scale/bitlen>=2^24(2MiB)")
            labels.append("scale/>=2MiB/" + a)
            labels.append("scale/>=2MiB/" + case["form"])
        if n >= 1 << 24:
            labels.append("scale/bitlen>=2^27(16MiB)")
        if n >= 1 << 28:
            labels.append("scale/bitlen>=2^31(256MiB)")
        if "gen" in case:
            labels.append("scale/generated-message")
        if "huge" in case:
            chl = [c[0] for c in case["chunks"]]
            labels += ["huge/" + a, "huge/" + huge_size_label(n), "huge/" + a + "/" + huge_size_label(n)]
            whole = lambda i: (chl[i] - (B - sum(chl[:i]) % B) % B) // B * B if chl[i] >= B else 0  # noqa: E731
            if not chl:
                labels.append("huge/one-call/helper")
            elif len(chl) == 1:
                labels.append("huge/one-call/" + ("process" if case["ctor"] == "default" else "ctor"))
            elif len(chl) == 2 and chl[0] < 256:
                labels.append("huge/small+rest")
            elif len(chl) == 2 and chl[1] < 256:
                labels.append("huge/rest+small")
            else:
                labels.append("huge/few-large-chunks")
            if (not chl and n >= 1 << 29) or any(whole(i) >= 1 << 29 for i in range(len(chl))):
                labels.append("huge/one-call-carries>=2^29-whole-block-bytes")
            if case["huge"]["mem"] == 1:
                labels.append("huge/zero-page-message")
        if n >= 1 << 21 and case["chunks"]:
            chl = [c[0] for c in case["chunks"]]
            if len(chl) == 1:
                labels.append("scale/>=2MiB/one-call")
            if any(chl[i] >= 1 << 20 and 0 < sum(chl[:i]) < 256 for i in range(1, min(len(chl), 4))):
                labels.append("scale/>=2MiB/huge-chunk-after-small")
            if len(chl) >= 2 and sum(chl[:-1]) >= 1 << 20 and 0 < chl[-1] < 256:
                labels.append("scale/>=2MiB/small-chunk-after-huge")
            if len(chl) >= 256:
                labels.append("scale/>=2MiB/many-chunks")
            if case["ctor"] != "default" and chl[0] >= 1 << 20:
                labels.append("scale/>=2MiB/ctor-huge")
        if rem >= B - LENFIELD[a]:
            labels.append("tail/extra-pad-block")
        elif rem == B - LENFIELD[a] - 1:
            labels.append("tail/exact-fit")
        elif rem == 0 and n:
            labels.append("tail/block-aligned")
        ch = case["chunks"]
        if not ch:
            labels.append("chunks/helper-one-shot")
            return labels, "huge" in case
        labels.append("ctor/" + case["ctor"])
        nonempty = sum(1 for c in ch if c[0])
        labels.append("chunks/1" if len(ch) == 1 else "chunks/2-3" if len(ch) <= 3 else "chunks/4+")
        cur = 0
        seen = set()
        for ln, style in ch:
            seen.add("style/" + style)
            if ln == 0:
                seen.add("chunk/empty")
            if cur == 0 and ln >= B:
                seen.add("path/direct-block")
            if cur and cur + ln >= B:
                seen.add("path/buffer-fill-flush")
                if ln - (B - cur) >= B:
                    seen.add("path/fill-then-direct")
            if cur and ln and cur + ln < B:
                seen.add("path/buffer-append")
            cur = (cur + ln) % B
        labels += sorted(seen)
        nt = (nonempty >= 2 and (rem >= B - 9 or rem <= 1)) or "huge" in case
        return labels, nt
    labels.append("sip/" + case["variant"])
    labels.append("sip/tail%d" % (n % 8))
    if case["msg_off"]:
        labels.append("sip/msg-unaligned")
    if case["key_off"]:
        labels.append("sip/key-unaligned")
    if n >= 256:
        labels.append("sip/len>=256")
    if n >= 1024:
        labels.append("scale/sip>=1KiB")
    if n >= 65536:
        labels.append("scale/sip>=64KiB")
    if n >= 8:
        labels.append("sip/multi-word")
    return labels, (n % 8 != 0 and case["msg_off"] != 0)


# ----------------------------------------------------------------------------------------------------------------------
# bookkeeping shared by sweep and Hypothesis shards (one instance per worker process / shard)

class Stats:
    def __init__(self):
        self.evaluations = 0
        self.labels = {}
        self.nt = set()          # 8-byte hashes of distinct non-trivial cases
        self.samples = []
        self.failure = None      # (case, label, msg)
        self.target_label = None
        self.failed_keys = set()
        self.shrink_deadline = None

    def account(self, case, payload):
        self.evaluations += 1
        labels, nt = classify(case)
        for k in labels:
            self.labels[k] = self.labels.get(k, 0) + 1
        if nt:
            self.labels["nontrivial"] = self.labels.get("nontrivial", 0) + 1
            self.nt.add(hashlib.blake2b(payload, digest_size=8).digest())
            if len(self.samples) < 3 and len(payload) < 600:
                self.samples.append(describe(case))

    def result(self):
        return {"evaluations": self.evaluations, "labels": self.labels, "nt": b"".join(sorted(self.nt)),
                "samples": self.samples,
                "failure": None if self.failure is None else
                {"case": self.failure[0], "label": self.failure[1], "msg": self.failure[2]}}


class CaseFailure(Exception):
    pass


# opt-in: also call tlx::siphash(std::string). On the pinned tree overload resolution picks the generic
# `template siphash(const Type&)`, which hashes the std::string OBJECT (pointer, size, SSO buffer) rather than the
# characters; whether that is within the property statement is a maintainer decision (see fixes/C14/*.txt).
STRING_OVERLOAD = os.environ.get("C14_STRING_OVERLOAD", "") not in ("", "0")
SHRINK_BUDGET_S = float(os.environ.get("C14_SHRINK_BUDGET_S", "60"))


def evaluate(runner, st, case, has_sse2, got=None):
    """run one case against the oracle; raises CaseFailure (single raise site = single Hypothesis 'origin')"""
    payload = encode(case)
    if st.shrink_deadline is not None and time.time() > st.shrink_deadline and payload not in st.failed_keys:
        return  # shrinking budget used up: only already-known failing cases are re-executed
    st.account(case, payload)
    r = check_case(runner, case, has_sse2, got)
    if r is None:
        return
    label, msg = r
    if st.target_label is None:
        st.target_label = label
        st.shrink_deadline = time.time() + SHRINK_BUDGET_S
    if label != st.target_label:
        return  # the shrinker only follows the label found first (like the engine's shrinker)
    st.failed_keys.add(payload)
    st.failure = (case, label, msg)
    raise CaseFailure(label + ": " + msg + "\n  case: " + describe(case))


# ----------------------------------------------------------------------------------------------------------------------
# deterministic sweep

SWEEP_MAX = 1100
SIP_SWEEP_MAX = 130


def sweep_chunkings(L, B):
    """the three chunkings of the sweep: one call; byte by byte; a fixed pattern around the block size"""
    yield [(L, 0)]
    yield [(1, 0)] * L if L else [(0, 0)]
    pat = [B - 1, 1, B + 1, 0, 2 * B, 7, B, B - 9, 9, 3 * B + 1, B - 1]
    out, left, i = [], L, 0
    while left > 0:
        n = min(pat[i % len(pat)], left)
        out.append((n, (i + L) % 4))
        left -= n
        i += 1
    if not out or L % 2:
        out.append((0, 1))
    yield out


def sweep_shard(args):
    exe, seed, shard, nshards = args
    st = Stats()
    runner = Runner(exe)
    try:
        has_sse2 = runner.call(b"I") == b"\1"
        for L in range(shard, SWEEP_MAX + 1, nshards):
            msg = random.Random("c14-sweep/%d/%d" % (seed, L)).randbytes(L)
            for a, algo in enumerate(ALGOS):
                for ci, chunks in enumerate(sweep_chunkings(L, BLOCK[algo])):
                    if ci == 0:
                        cases = [digest_case(a, f, (L + f) % 4, [(L, (L + f) % 4)], msg) for f in range(NFORMS)]
                    else:
                        cases = [digest_case(a, (L + ci + a) % 4, (L + ci) % 4, chunks, msg)]
                    for c in cases:
                        evaluate(runner, st, c, has_sse2)
                        st.labels["sweep/digest"] = st.labels.get("sweep/digest", 0) + 1
        for L in range(shard, SIP_SWEEP_MAX + 1, nshards):
            msg = bytes(range(L)) if L <= 63 else random.Random("c14-sip/%d/%d" % (seed, L)).randbytes(L)
            rkey = random.Random("c14-sipkey/%d/%d" % (seed, L)).randbytes(16)
            for off in range(16):
                for c in (sip_case(6, off, 0, DEFAULT_KEY, msg), sip_case(6, off, (off * 7 + L) % 16, rkey, msg),
                          sip_case(3 + (L + off) % 3, off, 0, DEFAULT_KEY, msg)):
                    evaluate(runner, st, c, has_sse2)
                    st.labels["sweep/siphash"] = st.labels.get("sweep/siphash", 0) + 1
            if L in POD_SIZES:
                for k in range(8):  # template siphash(const Type&): 8 object contents per sizeof
                    evaluate(runner, st, sip_case(8, 0, 0, DEFAULT_KEY, msg if k == 0 else random.Random(
                        "c14-sippod/%d/%d/%d" % (seed, L, k)).randbytes(L)), has_sse2)
                    st.labels["sweep/siphash-template"] = st.labels.get("sweep/siphash-template", 0) + 1
    except CaseFailure:
        pass
    finally:
        runner.close()
    r = st.result()
    r["shard"] = shard
    return r


# ---- scale classes of the sweep ---------------------------------------------------------------------------------------
# Total lengths just below / at / above the points where the encoded bit length 8n gains a byte: 2^16 bits = 8 KiB,
# 2^24 bits = 2 MiB (2^8 bits = 32 B is part of the 0..1100 sweep; 2^32 bits = 512 MiB is too big and not run), plus
# 64 KiB (16-bit byte counts), ~3 MiB and 16 MiB +- 1 (bit 27 of the bit length). The thorough tier goes on to
# 32 / 64 / 128 / 256 MiB (bits 28..31). Messages are gen_bytes(seed, n) on both sides.
LONG_SMALL = [8191, 8192, 8193, 65535, 65536, 65537]
LONG_2M = [(1 << 21) - 1, 1 << 21, (1 << 21) + 1, 3 * (1 << 20) + 17]
LONG_16M = [(1 << 24) - 1, 1 << 24, (1 << 24) + 1]
LONG_THOROUGH = [(1 << 21) + 55, (1 << 21) + 64, (1 << 22) - 1, (1 << 22) + 111, (1 << 23) + 1,
                 (1 << 25) - 1, (1 << 25) + 1, (1 << 26) + 1, (1 << 27) + 63, (1 << 28) + 5]
SIP_LONG = [255, 256, 257, 511, 512, 513, 1023, 1024, 1025, 2047, 2049, 4095, 4096, 4097, 8191, 8192, 8193, 16383,
            16384, 16385, 32767, 32768, 32769, 65535, 65536, 65537, 65543, 65536 + 255, 65536 + 256, 65536 + 257]


def long_lengths(tier):
    return LONG_SMALL + LONG_2M + LONG_16M + (LONG_THOROUGH if tier == "thorough" else [])


def pieces(L, size, style0=0):
    out = [(size, (style0 + i) % 3) for i in range(L // size)]
    if L % size:
        out.append((L % size, (style0 + len(out)) % 3))
    return out


def long_cases(L, a, seed, full):
    """the cases of one (length, algorithm) job; full = every result form and every chunking (lengths <= 4 MiB and the
    whole thorough tier up to 16 MiB), otherwise two result forms of the one-call case and two chunkings"""
    gen = ((seed * 1000003 + L * 4 + a) & M64, L)
    k = L + a
    forms = list(range(8)) if full else [k % 4, 4 + k % 4]
    for f in forms:                                        # fed in one call (forms 0..3) / helper functions (4..7)
        yield digest_case(a, f, (k + f) % 3, [(L, (k + f) % 3)], b"", gen)
    small = [1, 7, 63, 65][k % 4]
    # one huge chunk after a small one; the small one goes through the constructor in 2 of 3 cases
    yield digest_case(a, k % 4, k % 3, [(small, k % 3), (L - small, (k + 1) % 3)], b"", gen)
    # many 4096-byte chunks
    yield digest_case(a, (k + 1) % 4, 0, pieces(L, 4096, k), b"", gen)
    if full:
        # a huge chunk (through the constructor in 2 of 3 cases) followed by a small one
        yield digest_case(a, (k + 2) % 4, (k + 1) % 3, [(L - small, (k + 2) % 3), (small, k % 3)], b"", gen)
        # odd-sized pieces that are no multiple of the block size, and 64 KiB + 1 pieces
        yield digest_case(a, (k + 3) % 4, (k + 2) % 3, pieces(L, 1000003, k + 1), b"", gen)
        yield digest_case(a, k % 4, k % 3, pieces(L, 65537, k + 2), b"", gen)
        if L <= 70000:
            yield digest_case(a, (k + 1) % 4, 0, pieces(L, 1, 0), b"", gen)       # byte by byte
            yield digest_case(a, (k + 2) % 4, 0, pieces(L, BLOCK[ALGOS[a]] - 1, 1), b"", gen)


def sweep_long_job(args):
    exe, seed, what, L, a, tier = args
    st = Stats()
    runner = Runner(exe)
    try:
        has_sse2 = runner.call(b"I") == b"\1"
        if what == "digest":
            full = L <= (1 << 22) + 4096 or (tier == "thorough" and L <= (1 << 24) + 1)
            for c in long_cases(L, a, seed, full):
                evaluate(runner, st, c, has_sse2)
                st.labels["sweep/digest-long"] = st.labels.get("sweep/digest-long", 0) + 1
        else:
            msg = random.Random("c14-siplong/%d/%d" % (seed, L)).randbytes(L)
            rkey = random.Random("c14-siplongkey/%d/%d" % (seed, L)).randbytes(16)
            for off in (0, 1, 7, 8, 9, 15):
                for c in (sip_case(6, off, 0, DEFAULT_KEY, msg), sip_case(6, off, (off * 7 + L) % 16, rkey, msg),
                          sip_case(3 + (L + off) % 3, off, 0, DEFAULT_KEY, msg), sip_case((L + off) % 3, off, off, rkey, msg)):
                    evaluate(runner, st, c, has_sse2)
                    st.labels["sweep/siphash-long"] = st.labels.get("sweep/siphash-long", 0) + 1
    except CaseFailure:
        pass
    finally:
        runner.close()
    r = st.result()
    r["shard"] = "%s-%d-%d" % (what, L, a)
    return r


# ---- huge-single-call class (its own step `huge`, ONE process, ONE message buffer at a time) ---------------------------
# 2^29 bytes = 2^32 bits is the overflow boundary of every 32-bit step in a digest's length accounting, and one
# process() / constructor / helper call may carry up to 2^32 - 1 bytes. The step runs in a single runner process that
# holds ONE message (exact-size malloc block, tiled pattern; RSS about 1.13 n, at most ~1.2 GB for 2^30+64; the 2^32-1
# message is an untouched anonymous mapping without resident memory), cases are executed one after the other, and a
# machine-wide lock (work/c14-huge.lock) makes concurrent C14 checks take turns, so that there is never more than one
# such buffer on the machine. The Python side never materialises the message (reference hashed block by block in a
# thread while the runner works on the same case).
#   quick   : (a) n = 2^29 in ONE call for SHA-256, SHA-512 and the rotating digest (MD5 for odd VERIF_SEED, SHA-1 for even);
#             result form / constructor / argument style rotate with seed + algorithm; when (seed // 2) is odd the
#             rotating digest runs (b) n = 2^29+129+seed%3 as 1 byte + rest instead; plain / SSE2 / dispatching SipHash
#             compared with each other on the 2^29-byte message; (c) the other digest of the MD5 / SHA-1 pair gets
#             2^30 + 4096 + seed%3 bytes in ONE string_view call (process(view) / view constructor).  About 3 passes over
#             512 MiB + 3 SipHash passes + 1 pass over 1 GiB (RSS about 1.2 GB).
#   thorough: n in 2^29-1, 2^29, 2^29+1, 2^30+64, all four digests: one call through an object, small + rest,
#             rest + small, four quarters; one call through a helper and three uneven pieces for two digests per size
#             (rotating); SipHash agreement; then 2^32 - 1 zero bytes: one call and 1 + rest for every digest, helper
#             and two halves for the rotating one, SipHash agreement on 2^32 + 9 zero bytes
HUGE_THOROUGH = [(1 << 29) - 1, 1 << 29, (1 << 29) + 1, (1 << 30) + 64]
HUGE_MAX = (1 << 32) - 1
HUGE_THREADS = 4


def huge_cases(seed, tier):
    n = 1 << 29
    hs = (seed * 7919 + n) & M64
    key = random.Random("c14-hugekey/%d" % seed).randbytes(16)
    rot = 0 if seed % 2 else 1
    if tier != "thorough":
        for a in (2, 3):
            k = seed + a
            yield digest_case(a, k % 8, k % 3, [(n, k % 2)], b"", huge=(hs, n, 0))
        k = seed + rot
        if (seed // 2) % 2 == 0:
            yield digest_case(rot, k % 8, k % 3, [(n, k % 2)], b"", huge=(hs, n, 0))
        yield sip_huge_case(hs, n, 0, key)  # same message as the cases above: no refill
        if (seed // 2) % 2 == 1:
            n2 = n + 129 + seed % 3
            yield digest_case(rot, (k + 1) % 4, (k + 1) % 3, [(1, k % 2), (n2 - 1, (k + 1) % 2)], b"", huge=(hs, n2, 0))
        # (c) one string_view call carrying MORE than 2^30 bytes (the overloads taking a view narrow / re-split the size):
        # the other digest of the MD5 / SHA-1 pair, process(tlx::string_view) on odd seeds, the view constructor on even ones
        n3 = (1 << 30) + 4096 + seed % 3
        hs3 = (seed * 7919 + n3) & M64
        if seed % 2:
            yield digest_case(1 - rot, k % 4, 0, [(n3, 1)], b"", huge=(hs3, n3, 0))
        else:
            yield digest_case(1 - rot, k % 4, 2, [(n3, 1)], b"", huge=(hs3, n3, 0))
        return
    allp = ALGOS[:]
    for n in HUGE_THOROUGH:
        hs = (seed * 7919 + n) & M64
        first = True
        for a in range(4):
            k = seed + a + n
            small = [1, 7, 63, 65][k % 4]
            q = n // 4
            c = digest_case(a, k % 4, k % 3, [(n, k % 2)], b"", huge=(hs, n, 0))            # (a) one call, object
            if first:
                c["prefetch"], first = allp, False  # one Python pass over the message for all four digests
            yield c
            yield digest_case(a, (k + 1) % 4, (k + 1) % 3, [(small, k % 2), (n - small, (k + 1) % 2)], b"", huge=(hs, n, 0))
            yield digest_case(a, (k + 2) % 4, (k + 2) % 3, [(n - small, k % 2), (small, (k + 1) % 2)], b"", huge=(hs, n, 0))
            yield digest_case(a, (k + 3) % 4, k % 3, [(q + 1, 0), (q - 1, 1), (q, 0), (n - 3 * q, 1)], b"", huge=(hs, n, 0))
            if (a + seed + n) % 2 == 0:
                yield digest_case(a, 4 + k % 4, 0, [], b"", huge=(hs, n, 0))                  # (a) one call, helper
                yield digest_case(a, k % 4, (k + 1) % 3, [((1 << 28) + 3, 1), (n - (1 << 28) - 3 - 129, 0), (129, 1)], b"",
                                  huge=(hs, n, 0))
        yield sip_huge_case(hs, n, 0, key)
    n = HUGE_MAX  # zero bytes, no resident memory
    first = True
    for a in range(4):
        k = seed + a
        c = digest_case(a, k % 4, k % 3, [(n, k % 2)], b"", huge=(0, n, 1))
        if first:
            c["prefetch"], first = allp, False
        yield c
        yield digest_case(a, (k + 1) % 4, (k + 1) % 3, [(1, 0), (n - 1, 1)], b"", huge=(0, n, 1))
        if a == seed % 4:
            yield digest_case(a, 4 + k % 4, 0, [], b"", huge=(0, n, 1))
            yield digest_case(a, (k + 2) % 4, (k + 2) % 3, [(n // 2, 1), (n - n // 2, 0)], b"", huge=(0, n, 1))
    yield sip_huge_case(0, (1 << 32) + 9, 1, key)


def run_huge():
    """the `huge` step: one process, one runner, one message buffer at a time, machine-wide lock"""
    import fcntl
    seed = int(os.environ.get("VERIF_SEED", "1") or "1")
    tier = os.environ.get("VERIF_TIER", "quick")
    work = os.environ.get("VERIF_WORK") or tempfile.mkdtemp(prefix="c14-")
    out_path = os.environ.get("STEP_OUT") or os.path.join(work, "step-huge.json")
    validate_oracles()
    exe = build_runner(work)
    validate_generator(exe)
    t_built = time.time()
    st = Stats()
    lock = open(huge_lock_path(), "a")
    fcntl.flock(lock, fcntl.LOCK_EX)  # blocks while another C14 check holds a huge message
    t_lock = time.time()
    runner = Runner(exe)
    try:
        has_sse2 = runner.call(b"I") == b"\1"
        # consecutive cases on the same message form one 'M' request: up to HUGE_THREADS threads of the ONE runner process
        # work on the ONE buffer (wall time of the slowest digest, not the sum); the references are hashed meanwhile
        batch = []

        def flush():
            if not batch:
                return
            pre = sorted({c["algo"] for c in batch if c["kind"] == "digest"})
            for c in batch:
                if c["kind"] == "digest":
                    c["prefetch"] = pre
                    huge_prefetch(c)
                    break
            pls = [encode(c) for c in batch]
            try:
                resp = runner.call(b"M" + struct.pack("<IB", len(pls), HUGE_THREADS) +
                                   b"".join(struct.pack("<I", len(x)) + x for x in pls))
            except RunnerDied:
                resp = None  # find the culprit one by one (each in the restarted runner)
            pos = 0
            for c in batch:
                got = None
                if resp is not None:
                    (m,) = struct.unpack_from("<I", resp, pos)
                    got = resp[pos + 4:pos + 4 + m]
                    pos += 4 + m
                evaluate(runner, st, c, has_sse2, got)
                st.labels["huge/cases"] = st.labels.get("huge/cases", 0) + 1
            del batch[:]

        for c in huge_cases(seed, tier):
            if batch and (batch[0]["huge"] != c["huge"] or len(batch) >= 16):
                flush()
            batch.append(c)
        flush()
    except CaseFailure:
        pass
    finally:
        while _huge_thread:
            _huge_thread.pop().join()
        runner.close()  # the runner exits: the buffer is gone
    failure = None
    try:
        if st.failure is not None:
            case, label, msg = st.failure
            again = confirm(exe, case)
            if again is None:
                st.labels["unreproducible/" + label] = 1
            else:
                label, msg = again
                case = dict(case)
                case.pop("prefetch", None)
                case["label"] = label
                case["expected"] = show(expected(case), case)
                path = os.path.join(work, "c14-huge-failure.case")
                with open(path, "w") as fh:
                    json.dump(case, fh, indent=1)
                    fh.write("\n")
                failure = {"label": label, "msg": (describe(case) + "\n" + msg)[:4000], "file": path}
    finally:
        fcntl.flock(lock, fcntl.LOCK_UN)
        lock.close()
    r = st.result()
    out = {"evaluations": r["evaluations"], "distinct_nontrivial": count_distinct([r["nt"]]), "samples": r["samples"][:6],
           "labels": dict(sorted(r["labels"].items())), "wall_s": round(time.time() - T0, 2),
           "build_s": round(t_built - T0, 2), "lock_wait_s": round(t_lock - t_built, 2), "failure": failure}
    with open(out_path, "w") as fh:
        json.dump(out, fh, indent=1)
        fh.write("\n")
    sys.stdout.write("C14 huge: evaluations=%d wall=%.1fs (lock wait %.1fs)%s\n" % (
        out["evaluations"], out["wall_s"], out["lock_wait_s"], " FAILURE " + failure["label"] if failure else ""))
    return 0


def sweep_job(args):
    return sweep_long_job(args[1:]) if args[0] == "long" else sweep_shard(args[1:])


# ----------------------------------------------------------------------------------------------------------------------
# Hypothesis search

# residues mod 128 within [-9, +1] of a 64- or 128-byte block boundary (all padding cases of both block sizes)
BOUNDARY_RESIDUES = [0, 1] + list(range(55, 66)) + list(range(119, 128))
# scale class of the Hypothesis step: base lengths (2 MiB three times as likely; 4 and 16 MiB only in the thorough
# tier, the quick tier has them in the sweep) and offsets
HUGE_BASES = [1 << 21, 1 << 21, 1 << 21, 3 << 20, 1 << 13, 1 << 16]
HUGE_BASES_THOROUGH = HUGE_BASES + [1 << 22, 1 << 24]
HUGE_DELTAS = [0, 1, -1, 55, 56, 63, 64, 65, 111, 112, 119, 120, 127, 128, -9, -8]


def hyp_shard(args):
    exe, kind, shard, seed, nexamples, budget_end = args
    st = Stats()
    res = {"shard": shard, "kind": kind, "skipped": False}
    if time.time() > budget_end:
        res.update(st.result())
        res["skipped"] = True
        return res
    from hypothesis import given, settings, seed as hseed, strategies as S, Phase, HealthCheck
    from hypothesis.errors import Flaky
    try:
        from hypothesis.errors import FlakyFailure
    except ImportError:  # older Hypothesis
        FlakyFailure = Flaky

    runner = Runner(exe)
    has_sse2 = runner.call(b"I") == b"\1"
    br = BOUNDARY_RESIDUES
    huge_bases = HUGE_BASES_THOROUGH if os.environ.get("VERIF_TIER") == "thorough" else HUGE_BASES

    @S.composite
    def digest_inputs(draw):
        form = draw(S.sampled_from([0, 1, 2, 3, 0, 1, 2, 3, 0, 1, 2, 3, 4, 5, 6, 7, 8, 9]))
        ctor = draw(S.integers(0, 3))
        # length = 128*q + r so that shrinking q keeps the padding class (r mod 64, r mod 128) of a failing case
        lsel = draw(S.integers(0, 39))
        if lsel < 10:
            L = draw(S.integers(0, 300))
        else:
            q = draw(S.integers(0, 8)) if lsel < 39 else draw(S.integers(78, 781))
            r = draw(S.sampled_from(br)) if draw(S.integers(0, 2)) else draw(S.integers(0, 127))
            L = 128 * q + r
        # scale class (rare: about 1 example in 640, i.e. a few dozen per quick run): a generated message whose
        # length is next to a point where the encoded bit length gains a byte (8 KiB, 2 MiB), 64 KiB, ~3 MiB or 16 MiB
        gen = None
        if lsel == 39 and draw(S.integers(0, 15)) == 15:
            base = draw(S.sampled_from(huge_bases))
            L = base + draw(S.sampled_from(HUGE_DELTAS))
            gen = (draw(S.integers(0, 2 ** 64 - 1)), L)
            msg = b""
        elif L <= 1160 and draw(S.integers(0, 3)) != 3:
            msg = draw(S.binary(min_size=L, max_size=L))
        else:
            # long (or every fourth short) message: content expanded from a drawn 64-bit seed
            msg = random.Random(draw(S.integers(0, 2 ** 64 - 1))).randbytes(L)
        if form >= 4:
            return form, 0, [], msg, gen
        if gen is not None:
            shape = draw(S.integers(0, 4))
            st = draw(S.integers(0, 26))
            if shape == 1:      # one huge chunk after a small one
                k = draw(S.integers(0, 130))
                return form, ctor, [(k, st % 3), (L - k, st // 3 % 3)], msg, gen
            if shape == 2:      # a small chunk after one huge one
                k = draw(S.integers(0, 130))
                return form, ctor, [(L - k, st % 3), (k, st // 3 % 3)], msg, gen
            if shape == 3:      # many equal pieces
                return form, ctor, pieces(L, draw(S.sampled_from([4096, 4095, 4097, 65536, 1000003])), st), msg, gen
            if shape == 4:      # a few pieces of 1/2 .. 1/5 of the message
                return form, ctor, pieces(L, L // draw(S.integers(2, 5)) + draw(S.integers(0, 64)), st), msg, gen
        ncuts = draw(S.integers(0, 11))
        cuts = []
        for _ in range(ncuts):
            how = draw(S.integers(0, 2))
            if how < 2:
                cuts.append(draw(S.integers(0, L)))
            else:
                k = draw(S.integers(0, L // 64 + 1))
                d = draw(S.sampled_from([0, -1, 1]))
                cuts.append(min(max(64 * k + d, 0), L))
        cuts.sort()
        styles = draw(S.integers(0, 4 ** (ncuts + 1) - 1))
        chunks, prev = [], 0
        for c in cuts + [L]:
            chunks.append((c - prev, styles % 4))
            styles //= 4
            prev = c
        return form, ctor, chunks, msg, gen

    @S.composite
    def sip_inputs(draw):
        variant = draw(S.sampled_from([6, 0, 1, 2, 6, 3, 4, 5, 6, 8] + ([7] if STRING_OVERLOAD else [])))
        msg_off = draw(S.integers(0, 15))
        key_off = draw(S.integers(0, 15))
        lsel = draw(S.integers(0, 9))
        L = draw(S.integers(0, 130)) if lsel < 9 else draw(S.integers(131, 700))
        key = DEFAULT_KEY if 3 <= variant <= 5 or variant >= 7 else draw(S.binary(min_size=16, max_size=16))
        # scale classes (rare): a few KiB (about 1 example in 80) and around 16..64 KiB (about 1 in 160); the content
        # is expanded from a drawn seed (Hypothesis byte strings of that size would exceed its buffer)
        sub = draw(S.integers(0, 15)) if lsel == 9 else 0
        if sub >= 13:
            if sub < 15:
                L = draw(S.integers(701, 8200))
            else:
                L = draw(S.sampled_from([1 << 14, 1 << 15, 1 << 16, (1 << 16) + 256])) + draw(S.integers(-9, 9))
            msg = random.Random(draw(S.integers(0, 2 ** 64 - 1))).randbytes(L)
        else:
            msg = draw(S.binary(min_size=L, max_size=L))
        return variant, msg_off, key_off, key, msg

    # too_slow is wall-clock based: a shard shares its core with other checks (observed 4x slowdowns under load)
    HC = [] if os.environ.get("C14_NO_SUPPRESS") else [HealthCheck.too_slow]
    common = dict(max_examples=nexamples, database=None, deadline=None, report_multiple_bugs=False,
                  phases=[Phase.generate, Phase.shrink],
                  suppress_health_check=HC)

    if kind == "digest":
        @hseed(seed)
        @settings(**common)
        @given(digest_inputs())
        def prop(inp):
            form, ctor, chunks, msg, gen = inp
            for a in range(4):
                evaluate(runner, st, digest_case(a, form, ctor, chunks, msg, gen), has_sse2)
    else:
        @hseed(seed)
        @settings(**common)
        @given(sip_inputs())
        def prop(inp):
            evaluate(runner, st, sip_case(*inp), has_sse2)

    try:
        prop()
    except CaseFailure:
        pass
    except (Flaky, FlakyFailure) as e:
        res["flaky"] = str(e)[:500]
    finally:
        runner.close()
    res.update(st.result())
    return res


# ----------------------------------------------------------------------------------------------------------------------
# driver

def confirm(exe, case):
    """re-execute a failing case in a fresh runner; returns (label,msg) or None"""
    r = Runner(exe)
    try:
        has_sse2 = r.call(b"I") == b"\1"
        return check_case(r, case, has_sse2)
    finally:
        r.close()


def count_distinct(blobs):
    data = b"".join(blobs)
    try:
        import numpy as np
        return int(np.unique(np.frombuffer(data, dtype="<u8")).size)
    except ImportError:
        return len({data[i:i + 8] for i in range(0, len(data), 8)})


def run_steps(mode):
    seed = int(os.environ.get("VERIF_SEED", "1") or "1")
    tier = os.environ.get("VERIF_TIER", "quick")
    work = os.environ.get("VERIF_WORK") or tempfile.mkdtemp(prefix="c14-")
    out_path = os.environ.get("STEP_OUT") or os.path.join(work, "step-%s.json" % mode)
    nworkers = int(os.environ.get("VERIF_WORKERS", "0") or 0) or os.cpu_count() or 4
    validate_oracles()
    exe = build_runner(work)
    validate_generator(exe)
    t_built = time.time()
    ctx = multiprocessing.get_context("fork")
    if mode == "sweep":
        nshards = 32
        # the long (scale) jobs first, biggest first, so that they overlap with the many short shards
        jobs = [("long", exe, seed, "digest", L, a, tier) for L in sorted(long_lengths(tier), reverse=True)
                for a in range(4)]
        jobs += [("long", exe, seed, "siphash", L, 0, tier) for L in sorted(SIP_LONG, reverse=True)]
        jobs += [("short", exe, seed, s, nshards) for s in range(nshards)]
        fn = sweep_job
    else:
        nshards = int(os.environ.get("C14_SHARDS", "32"))
        nd = int(os.environ.get("C14_EXAMPLES", "20000"))
        ns = int(os.environ.get("C14_SIP_EXAMPLES", "20000"))
        budget_end = T0 + float(os.environ.get("C14_BUDGET_S", "1e9"))
        jobs = []
        for s in range(nshards):
            jobs.append((exe, "digest", s, seed * 100003 + 2 * s, max(1, nd // nshards), budget_end))
            if s % 2 == 0:
                jobs.append((exe, "siphash", s, seed * 100003 + 2 * s + 1, max(1, 2 * ns // nshards), budget_end))
        fn = hyp_shard
    with ctx.Pool(min(nworkers, len(jobs))) as pool:
        results = pool.map(fn, jobs, chunksize=1)
    labels = {}
    evaluations = 0
    samples = []
    skipped = 0
    for r in results:
        evaluations += r["evaluations"]
        for k, v in r["labels"].items():
            labels[k] = labels.get(k, 0) + v
        samples += r["samples"][:1]
        skipped += 1 if r.get("skipped") else 0
        if r.get("flaky"):
            labels["flaky-shards"] = labels.get("flaky-shards", 0) + 1
            sys.stderr.write("shard %s flaky: %s\n" % (r["shard"], r["flaky"]))
    if skipped:
        labels["shards-skipped-by-time-budget"] = skipped
    failure = None
    failing = [r["failure"] for r in results if r["failure"]]
    # deterministic choice: smallest case (serialized size, then message length), ties in job order
    failing.sort(key=lambda f: (len(encode(f["case"])), msg_len(f["case"])))
    for f in failing:
        again = confirm(exe, f["case"])
        if again is None:
            labels["unreproducible/" + f["label"]] = labels.get("unreproducible/" + f["label"], 0) + 1
            sys.stderr.write("unreproducible failure %s: %s\n" % (f["label"], describe(f["case"])))
            continue
        label, msg = again
        case = dict(f["case"])
        case["label"] = label
        case["expected"] = show(expected(case), case)
        path = os.path.join(work, "c14-%s-failure.case" % mode)
        with open(path, "w") as fh:
            json.dump(case, fh, indent=1)
            fh.write("\n")
        failure = {"label": label, "msg": (describe(f["case"]) + "\n" + msg)[:4000], "file": path}
        break
    out = {"evaluations": evaluations, "distinct_nontrivial": count_distinct([r["nt"] for r in results]),
           "samples": samples[:6], "labels": dict(sorted(labels.items())),
           "wall_s": round(time.time() - T0, 2), "build_s": round(t_built - T0, 2), "failure": failure}
    with open(out_path, "w") as fh:
        json.dump(out, fh, indent=1)
        fh.write("\n")
    sys.stdout.write("C14 %s: evaluations=%d distinct_nontrivial=%d wall=%.1fs%s\n" % (
        mode, evaluations, out["distinct_nontrivial"], out["wall_s"],
        " FAILURE " + failure["label"] if failure else ""))
    return 0


def replay():
    path = os.environ.get("REPLAY_FILE") or (sys.argv[2] if len(sys.argv) > 2 else None)
    if not path:
        raise Machinery("REPLAY_FILE not set")
    with open(path) as fh:
        case = json.load(fh)
    validate_oracles()
    work = tempfile.mkdtemp(prefix="c14-replay-")
    lock = None
    if "huge" in case:  # one huge message buffer on the machine at a time (see run_huge)
        import fcntl
        lock = open(huge_lock_path(), "a")
        fcntl.flock(lock, fcntl.LOCK_EX)
    try:
        exe = build_runner(work)
        print("case: " + describe(case))
        print("expected: " + show(expected(case), case))
        r = confirm(exe, case)
    finally:
        import shutil
        shutil.rmtree(work, ignore_errors=True)
    if r is None:
        print("RESULT PASS")
        return 0
    print(r[1])
    print("RESULT FAIL label=%s" % r[0])
    return 1


def main():
    mode = sys.argv[1] if len(sys.argv) > 1 else ""
    if mode in ("sweep", "hyp"):
        return run_steps(mode)
    if mode == "huge":
        return run_huge()
    if mode == "replay":
        return replay()
    sys.stderr.write(__doc__)
    return 2


if __name__ == "__main__":
    try:
        sys.exit(main())
    except Machinery as e:
        sys.stderr.write("C14 machinery error: %s\n" % e)
        sys.exit(2)
    except Exception:
        traceback.print_exc()
        sys.exit(2)
