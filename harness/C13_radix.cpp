// C13 (part 3) — tlx::RadixHeap: monotone histories vs. a sorted-multiset model, for 8 key types x 6 radices.
// The model works on key *ranks* (number of representable keys smaller than the key); the wrappers in
// C13_radix_impl.hpp translate rank <-> key with their own arithmetic (not tlx' IntegerRank).
// Domain (DESIGN §3 rule 1): a key is only inserted if it is >= the minimum most recently extracted by
// top()/pop()/swap_top_bucket() since construction or the last clear().
#include "../engine/pbt.hpp"

#include <algorithm>
#include <map>
#include <memory>
#include <set>

#include "C13_radix_impl.hpp"
#include "C13_radix_types_impl.hpp"

namespace {

using c13::IRadix;
using c13::RV;
typedef uint64_t UK;

//! ext (target radix_types): payload identities may repeat (copies of the top element are inserted), two more
//! operations are drawn; the existing target calls with ext = false and keeps its byte -> history mapping
void radix_history(pbt::Source& src, IRadix& h, unsigned BITS, unsigned RBITS, bool is_signed, bool ext = false) {
    const UK RMAX = BITS == 64 ? ~(UK)0 : (((UK)1 << BITS) - 1);
    const UK ZERO = is_signed ? (UK)1 << (BITS - 1) : 0; // rank of key 0
    const int IMIN = std::numeric_limits<int>::min(), IMAX = std::numeric_limits<int>::max();

    // model: live (rank, id) pairs; unknown[r] = number of pop()s of key r whose payload could not be observed
    std::multiset<RV> live;
    std::map<UK, size_t> unknown;
    size_t n_unknown = 0;
    UK limit = 0; // rank of the most recently extracted minimum (0 after construction / clear)
    int next_id = 1;
    bool cleared = false, nt = false;

    auto msize = [&]() { return live.size() - n_unknown; };
    auto count_key = [&](UK r) { return (size_t)std::distance(live.lower_bound(RV(r, IMIN)), live.upper_bound(RV(r, IMAX))); };
    auto unknown_of = [&](UK r) {
        auto u = unknown.find(r);
        return u == unknown.end() ? (size_t)0 : u->second;
    };
    auto model_min = [&]() -> UK { // smallest key that still has an un-popped element
        for (auto it = live.begin(); it != live.end();) {
            UK r = it->first;
            size_t c = count_key(r);
            if (c > unknown_of(r)) return r;
            std::advance(it, c);
        }
        return 0;
    };
    auto extreme = [&](UK r) { return r == 0 || r == RMAX; };
    auto gen_rank = [&]() -> UK {
        // keys >= limit, biased to the frontier, the type extremes, zero and digit boundaries
        UK room = RMAX - limit;
        switch (src.weighted({3, 3, 2, 3, 2, 3, 2})) {
        case 0: return limit;
        case 1: {
            UK d = (UK)src.range(0, 3);
            return d <= room ? limit + d : RMAX;
        }
        case 2: {
            UK d = (UK)src.range(0, 2);
            return d <= room ? RMAX - d : limit;
        }
        case 3: {
            // just below / at the next boundary of bit b above the limit (covers the digit boundaries of every radix)
            unsigned b = (unsigned)src.range(0, BITS - 1);
            UK x = limit | (((UK)1 << b) - 1);
            if (src.boolean() && x != RMAX) x += 1;
            return x;
        }
        case 4: {
            // around key 0 (the sign boundary for signed types)
            UK x = (ZERO + (UK)src.range(0, 2) - 1) & RMAX;
            return x >= limit ? x : limit;
        }
        case 5: {
            UK x = (UK)src.bits(BITS / 8);
            return room == ~(UK)0 ? x : limit + x % (room + 1);
        }
        default: {
            // repeat a key that is already stored
            if (live.empty()) return limit;
            auto it = live.begin();
            std::advance(it, src.index(std::min<size_t>(live.size(), 16)));
            return it->first >= limit ? it->first : limit;
        }
        }
    };
    auto check = [&](const char* after) {
        PBT_CHECK(h.size() == msize(), "C13/radix-size", "after " << after << ": size() " << h.size() << " but model has " << msize());
        PBT_CHECK(h.empty() == (msize() == 0), "C13/radix-empty", "after " << after << ": empty() " << h.empty() << ", model size " << msize());
        if (msize()) {
            UK want = model_min(), got = h.peak_top_rank();
            PBT_CHECK(got == want, "C13/radix-peak", "after " << after << ": peak_top_key() " << h.show(got) << " but the minimum key is " << h.show(want));
        }
    };
    auto observe_min = [&](UK m) {
        // a new minimum above the previous frontier: the top bucket was exhausted and the buckets are reorganised
        if (m != limit && (cleared || extreme(m))) nt = true;
        if (m != limit) pbt::label("frontier_advanced");
        if ((m ^ limit) >> RBITS) pbt::label("frontier_advanced_beyond_row0");
        if (m == 0) pbt::label("extracted_type_min");
        if (m == RMAX) pbt::label("extracted_type_max");
        limit = m;
    };
    //! remove everything stored under key m; `out` = what the heap handed back for it
    auto settle_key = [&](UK m, const std::vector<RV>& out, const char* what) {
        size_t c = count_key(m), u = unknown_of(m);
        PBT_CHECK(out.size() == c - u, "C13/radix-swap-bucket",
                  what << ": swap_top_bucket returned " << out.size() << " elements but " << (c - u) << " elements have the minimal key " << h.show(m));
        for (const RV& v : out) {
            PBT_CHECK(v.first == m, "C13/radix-swap-bucket", what << ": swap_top_bucket returned key " << h.show(v.first) << ", the minimal key is " << h.show(m));
            auto it = live.find(v);
            PBT_CHECK(it != live.end(), "C13/radix-payload", what << ": swap_top_bucket returned {" << h.show(v.first) << "," << v.second << "} which is not a stored element (or was returned twice)");
            live.erase(it);
        }
        // what is left under this key are exactly the elements removed by earlier pop()s
        PBT_CHECK(count_key(m) == u, "C13/radix-payload", what << ": key " << h.show(m) << " has " << count_key(m) << " payloads unaccounted for after " << u << " pops");
        live.erase(live.lower_bound(RV(m, IMIN)), live.upper_bound(RV(m, IMAX)));
        n_unknown -= u;
        unknown.erase(m);
    };

    unsigned nops = 0;
    check("construction");
    while (src.more() && nops < 200) {
        ++nops;
        unsigned op = ext ? (unsigned)src.weighted({7, 2, 2, 2, 4, 5, 2, 1, 1, 5, 2}) : (unsigned)src.weighted({7, 2, 2, 2, 4, 5, 2, 1, 1});
        switch (op) {
        case 0:
        case 1:
        case 2:
        case 3: {
            static const char* const HOW[] = {"push", "emplace", "emplace_keyfirst", "push_to_bucket", "emplace_in_bucket"};
            unsigned how = op == 3 ? 3 + (unsigned)src.boolean() : op;
            UK r = gen_rank();
            int id = next_id++;
            PBT_LOG(HOW[how] << "({" << h.show(r) << "," << id << "})\n");
            h.insert(how, r, id);
            live.insert(RV(r, id));
            pbt::label(HOW[how]);
            if (r == 0) pbt::label("pushed_type_min");
            if (r == RMAX) pbt::label("pushed_type_max");
            if (r == limit) pbt::label("pushed_at_frontier");
            break;
        }
        case 4: {
            if (!msize()) continue;
            UK m = model_min();
            RV t = h.top();
            PBT_LOG("top() -> {" << h.show(t.first) << "," << t.second << "}\n");
            PBT_CHECK(t.first == m, "C13/radix-top", "top() has key " << h.show(t.first) << " but the minimum key is " << h.show(m));
            PBT_CHECK(ext ? live.count(t) >= 1 : live.count(t) == 1, "C13/radix-payload", "top() returned {" << h.show(t.first) << "," << t.second << "} which is not a stored element");
            observe_min(m);
            pbt::label("top");
            break;
        }
        case 9: {
            // ext: h.push(h.top()) and its relatives: the argument is a reference to an element inside the heap
            if (!msize()) continue;
            static const char* const HOW[] = {"push(top())", "push_to_bucket(get_bucket(top()), top())", "emplace_in_bucket(get_bucket(top()), top())", "emplace(key, top())"};
            static const char* const HL[] = {"alias_push", "alias_push_to_bucket", "alias_emplace_in_bucket", "alias_emplace"};
            unsigned how = (unsigned)src.range(0, 3);
            UK m = model_min();
            RV t = h.insert_top(how);
            PBT_LOG(HOW[how] << " [top {" << h.show(t.first) << "," << t.second << "}]\n");
            PBT_CHECK(t.first == m, "C13/radix-top", "top() has key " << h.show(t.first) << " but the minimum key is " << h.show(m));
            PBT_CHECK(live.count(t) >= 1, "C13/radix-payload", "top() returned {" << h.show(t.first) << "," << t.second << "} which is not a stored element");
            observe_min(m);
            live.insert(t);
            pbt::label(HL[how]);
            break;
        }
        case 10: {
            static const char* const LL[] = {"life_independent_copy", "life_self_assign", "life_swap", "life_reuse_after_move"};
            unsigned how = (unsigned)src.range(0, 3);
            PBT_LOG(LL[how] << "\n");
            h.copy_move(3 + how);
            pbt::label(LL[how]);
            break;
        }
        case 5: {
            if (!msize()) continue;
            UK m = model_min();
            PBT_LOG("pop() [minimum key " << h.show(m) << "]\n");
            h.pop();
            ++unknown[m], ++n_unknown;
            observe_min(m);
            pbt::label("pop");
            break;
        }
        case 6: {
            if (!msize()) continue;
            UK m = model_min();
            std::vector<RV> out;
            h.swap_top_bucket(out);
            PBT_LOG("swap_top_bucket() -> " << out.size() << " elements, minimum key " << h.show(m) << "\n");
            settle_key(m, out, "swap_top_bucket");
            observe_min(m);
            if (out.size() >= 2) pbt::label("swap_bucket_multi");
            pbt::label("swap_top_bucket");
            break;
        }
        case 7: {
            PBT_LOG("clear()\n");
            h.clear();
            if (!live.empty()) pbt::label("clear_nonempty");
            live.clear(), unknown.clear(), n_unknown = 0;
            if (limit != 0) pbt::label("clear_after_advance");
            limit = 0; // clear() re-opens the full key range
            cleared = true;
            pbt::label("clear");
            break;
        }
        default: {
            unsigned how = (unsigned)src.range(0, 2);
            PBT_LOG("copy/move variant " << how << "\n");
            h.copy_move(how);
            pbt::label("copy_move");
            break;
        }
        }
        check("op");
        if (msize() >= 8) pbt::label("size>=8");
    }
    // drain; keys must come out in non-decreasing order, every payload exactly once
    bool by_bucket = src.boolean();
    PBT_LOG("drain" << (by_bucket ? " by swap_top_bucket" : " by top/pop") << "\n");
    while (msize()) {
        PBT_CHECK(!h.empty(), "C13/radix-size", "heap empty during drain but the model still has " << msize());
        UK m = model_min();
        if (by_bucket) {
            std::vector<RV> out;
            h.swap_top_bucket(out);
            settle_key(m, out, "drain");
        } else {
            RV t = h.top();
            PBT_CHECK(t.first == m, "C13/radix-drain", "drain: top() has key " << h.show(t.first) << " but the minimum key is " << h.show(m));
            PBT_CHECK(ext ? live.count(t) >= 1 : live.count(t) == 1, "C13/radix-payload", "drain: top() returned {" << h.show(t.first) << "," << t.second << "} which is not stored");
            h.pop();
            ++unknown[m], ++n_unknown;
        }
        observe_min(m);
        PBT_CHECK(h.size() == msize(), "C13/radix-size", "drain: size() " << h.size() << " but model has " << msize());
    }
    PBT_CHECK(h.empty(), "C13/radix-size", "heap not empty after draining the model: size " << h.size());
    for (auto& u : unknown) PBT_CHECK(count_key(u.first) == u.second, "C13/radix-payload", "payload bookkeeping at the end for key " << h.show(u.first));
    if (nt) pbt::nontrivial();
}

} // namespace

PBT_PROPERTY(radix) {
    unsigned ksel = (unsigned)src.range(0, 7); // width x signedness
    unsigned rsel = (unsigned)src.range(0, 5);
    // a listed (unrepaired) finding about keys narrower than int can be excluded by construction
    if (ksel < 4 && pbt::excluded("radix-narrow-keys")) ksel += 4;
    bool is_signed = (ksel & 1) == 0;
    static const char* const KL[] = {"key=int8", "key=uint8", "key=int16", "key=uint16", "key=int32", "key=uint32", "key=int64", "key=uint64"};
    static const char* const RL[] = {"radix=2", "radix=4", "radix=8", "radix=16", "radix=32", "radix=64"};
    static const unsigned RB[] = {1, 2, 3, 4, 5, 6};
    pbt::label(KL[ksel]);
    pbt::label(RL[rsel]);
    std::unique_ptr<IRadix> h;
    unsigned bits = 8u << (ksel >> 1);
    switch (ksel >> 1) {
    case 0: h.reset(c13::make_radix_w8(is_signed, rsel)); break;
    case 1: h.reset(c13::make_radix_w16(is_signed, rsel)); break;
    case 2: h.reset(c13::make_radix_w32(is_signed, rsel)); break;
    default: h.reset(c13::make_radix_w64(is_signed, rsel)); break;
    }
    PBT_LOG("RadixHeapPair<" << (KL[ksel] + 4) << "_t, int, " << (1u << RB[rsel]) << ">\n");
    radix_history(src, *h, bits, RB[rsel], is_signed);
}

// payload types that own memory (std::string / record with string + Tracked, key extractor owning a std::function),
// aliasing inserts of the heap's own top element, reuse of the exchange bucket, more copy/move/swap round trips
PBT_PROPERTY(radix_types) {
    verif::Ledger::get().reset();
    unsigned cfg = (unsigned)src.range(0, 7);
    static const unsigned BITS[8] = {16, 32, 64, 8, 16, 32, 64, 8};
    static const unsigned RBITS[8] = {1, 3, 6, 2, 4, 5, 3, 1};
    static const bool SIGNED[8] = {true, false, true, false, false, true, false, true};
    static const char* const CL[8] = {"cfg=int16/2/pair-string",  "cfg=uint32/8/pair-string", "cfg=int64/64/pair-string", "cfg=uint8/4/pair-string",
                                      "cfg=uint16/16/record",     "cfg=int32/32/record",      "cfg=uint64/8/record",      "cfg=int8/2/record"};
    // a listed (unrepaired) finding about keys narrower than int can be excluded by construction
    if (BITS[cfg] < 32 && pbt::excluded("radix-narrow-keys")) cfg = cfg < 4 ? 1 + cfg % 2 : 5 + cfg % 2;
    pbt::label(CL[cfg]);
    PBT_LOG("radix_types " << CL[cfg] << "\n");
    try {
        std::unique_ptr<IRadix> h(cfg < 4 ? c13::make_radix_types_a(cfg) : c13::make_radix_types_b(cfg));
        radix_history(src, *h, BITS[cfg], RBITS[cfg], SIGNED[cfg], true);
    } catch (const pbt::Failure&) {
        throw;
    } catch (const std::exception& e) {
        pbt::fail("C13/exception", std::string("the heap operation threw ") + e.what() + " (std::bad_function_call = an empty, i.e. moved-from, key extractor was called)");
    }
    PBT_CHECK(verif::Ledger::get().live_count() == 0, "C13/lifetime", "payloads still alive after the heap and all copies were destroyed: " << verif::Ledger::get().live_count());
}
