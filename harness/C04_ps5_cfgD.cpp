#include "C04_ps5_sched.hpp"
C04_CONFIG(P6, 8, 4, uint64_t, ClsTreeCalc, 1, false, false);
C04_CONFIG(P7, 4, 2, uint32_t, ClsTreeCalc, 3, true, true);
