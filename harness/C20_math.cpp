// C20 — generated-input target math64: structured + random values of every supported integer type (incl. the 64-bit
// ones that cannot be swept).  (Aggregate: C20_aggregate.cpp)
#include "C20_ref.hpp"

#include <algorithm>
#include <cmath>
#include <vector>


using namespace c20;

namespace {

//! W-bit pattern; byte 0 everywhere gives 0
uint64_t gen_pattern(pbt::Source& src, unsigned W) {
    const uint64_t mask = W == 64 ? ~0ull : ((1ull << W) - 1);
    switch (src.range(0, 8)) {
    case 0: return (uint64_t)src.range(0, 16);
    case 1: return 1ull << src.range(0, W - 1);
    case 2: return (1ull << src.range(0, W - 1)) | (1ull << src.range(0, W - 1));
    case 3: return ((1ull << src.range(0, W - 1)) + (uint64_t)(src.range(0, 4) - 2)) & mask;
    case 4: {
        uint64_t base[] = {mask, mask >> 1, (mask >> 1) + 1, mask >> 2};
        uint64_t b = base[src.range(0, 3)];
        return (b + (uint64_t)(src.range(0, 6) - 3)) & mask;
    }
    case 5: {
        uint64_t byte = src.u8(), r = 0;
        for (unsigned i = 0; i < W / 8; ++i) r |= byte << (8 * i);
        return r;
    }
    case 6: return src.bits(W / 8) & mask;
    case 7: return (src.bits(W / 8) & mask) >> src.range(0, W - 1);
    default: return (~(src.bits(W / 8) >> src.range(0, W - 1))) & mask; // leading ones
    }
}

template <class T>
T gen(pbt::Source& src) {
    typedef typename std::make_unsigned<T>::type U;
    return (T)(U)gen_pattern(src, width<T>());
}

template <class T>
void note_nt(T x) {
    if (pattern(x) >> (width<T>() - 2)) pbt::nontrivial(); // upper half of the unsigned / positive signed range, or negative
}

template <class T>
void one_type(pbt::Source& src, int op, const char* lv, const char* lp) {
    if (op == 0) {
        T x = gen<T>(src);
        PBT_LOG("value " << show(x) << "\n");
        pbt::label(lv);
        note_nt(x);
        check_value<T>(x);
    } else {
        T a = gen<T>(src), b = gen<T>(src);
        PBT_LOG("pair " << show(a) << " " << show(b) << "\n");
        pbt::label(lp);
        note_nt(a);
        check_pair<T>(a, b);
    }
}

template <class N, class K>
void one_mixed(pbt::Source& src) {
    N n = gen<N>(src);
    K k = gen<K>(src);
    PBT_LOG("mixed " << show(n) << " " << show(k) << "\n");
    note_nt(n);
    check_mixed<N, K>(n, k);
}

} // namespace

PBT_PROPERTY(math64) {
    int type = (int)src.range(0, 12);
    int op = (int)src.range(0, 1);
    switch (type) {
    case 0: one_type<unsigned long long>(src, op, "value:ull", "pair:ull"); break;
    case 1: one_type<long long>(src, op, "value:ll", "pair:ll"); break;
    case 2: one_type<unsigned long>(src, op, "value:ul", "pair:ul"); break;
    case 3: one_type<long>(src, op, "value:l", "pair:l"); break;
    case 4: one_type<unsigned>(src, op, "value:u", "pair:u"); break;
    case 5: one_type<int>(src, op, "value:i", "pair:i"); break;
    case 6: one_type<uint16_t>(src, op, "value:u16", "pair:u16"); break;
    case 7: one_type<int16_t>(src, op, "value:i16", "pair:i16"); break;
    case 8: one_type<uint8_t>(src, op, "value:u8", "pair:u8"); break;
    case 9: one_type<int8_t>(src, op, "value:i8", "pair:i8"); break;
    case 10: { // rotations and byte swaps
        int shift = src.boolean() ? (int)src.range(0, 63) : (int)src.range(-130, 130);
        if (op == 0) {
            uint64_t x = gen_pattern(src, 64);
            PBT_LOG("rot64 " << show(x) << " by " << shift << "\n");
            pbt::label(shift >= 0 && shift < 64 ? "rot64:in-range" : "rot64:out-of-range");
            check_rot64(x, shift);
            check_bits64(x);
            if (x >> 62) pbt::nontrivial();
        } else {
            uint32_t x = (uint32_t)gen_pattern(src, 32);
            PBT_LOG("rot32 " << show(x) << " by " << shift << "\n");
            pbt::label(shift >= 0 && shift < 32 ? "rot32:in-range" : "rot32:out-of-range");
            check_rot32(x, shift);
            check_bits32(x);
            if (x >> 30) pbt::nontrivial();
        }
        break;
    }
    case 11: { // mixed-type div_ceil / round_up
        pbt::label("mixed");
        switch (src.range(0, 5)) {
        case 0: one_mixed<unsigned, unsigned long>(src); break;
        case 1: one_mixed<unsigned long, unsigned>(src); break;
        case 2: one_mixed<int, long>(src); break;
        case 3: one_mixed<long long, int>(src); break;
        case 4: one_mixed<uint16_t, uint8_t>(src); break;
        default: one_mixed<unsigned long long, unsigned long>(src); break;
        }
        break;
    }
    default: { // sgn on floating point
        pbt::label("sgn:fp");
        int64_t m = src.range(-1000, 1000);
        int e = (int)src.range(-3, 3);
        double d = std::ldexp((double)m, e * 100);
        if (src.boolean()) d = m < 0 ? -0.0 : 0.0;
        PBT_LOG("sgn(" << d << ")\n");
        int want = d > 0 ? 1 : d < 0 ? -1 : 0;
        PBT_CHECK(tlx::sgn(d) == want, "C20/sgn", "sgn(" << d << ") = " << tlx::sgn(d));
        PBT_CHECK(tlx::sgn((float)d) == ((float)d > 0 ? 1 : (float)d < 0 ? -1 : 0), "C20/sgn", "sgn((float)" << d << ")");
        if (m < 0) pbt::nontrivial();
        break;
    }
    }
}

