// C13 (part 3) — RadixHeap instantiations for 16-bit keys (signed and unsigned) x radix {2,4,8,16,32,64}
#include "C13_radix_impl.hpp"

namespace c13 {
IRadix* make_radix_w16(bool is_signed, unsigned rsel) {
    if (is_signed) return make_radix_k<int16_t>(rsel);
    return make_radix_k<uint16_t>(rsel);
}
} // namespace c13
