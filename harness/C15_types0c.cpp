// C15 (types) — family 0, configurations 6..8 (see C15_types_impl.hpp)
#include "C15_types_impl.hpp"
void c15_types_fam0_c(int cfg, const c15t::Case& c) { c15t::types_family_c<0>(cfg, c); }
