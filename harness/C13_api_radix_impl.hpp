// C13 (api, part 3) — tlx::RadixHeap: the parts of the public interface the other radix targets do not reach.
//   * tlx::make_radix_heap<DataType[, Radix]>(key_extract) with an rvalue closure, an rvalue functor and an LVALUE
//     functor (KeyExtract is then a reference type: the heap uses the caller's functor object; such a heap is copy-
//     and move-CONSTRUCTIBLE only); the key type is deduced from the functor's return type; the DEFAULT radix of
//     RadixHeap / RadixHeapPair / make_radix_heap; a value type that IS the key (RadixHeap<uint32_t, closure, uint32_t>)
//   * key types char, long long, unsigned long long (distinct from the int8..64_t types of the other targets:
//     other tlx::clz overloads, other integer promotions)
//   * the bucket index RETURNED by push / emplace / emplace_keyfirst: equal to get_bucket(value) and
//     get_bucket_key(key) asked directly before, and usable as the hint of push_to_bucket / emplace_in_bucket for
//     another element with the same key (the documented idiom); get_bucket / get_bucket_key / size / empty /
//     peak_top_key are called through a const reference
//   * push() with const lvalue / NON-CONST lvalue (left intact) / temporary
//   * FORKS: copy-constructed / copy-assigned / move-constructed / move-assigned / std::swapped heaps used SIDE BY SIDE
//     with their source, each with its own multiset model and its own frontier (an assignment therefore meets a
//     destination whose frontier, current bucket and per-bucket minima differ from the source's)
// Oracle = the one of target radix (key multiset; payloads are a function of the key here, payload identity is the
// business of targets radix / radix_types). Domain: a key is inserted into a heap object only if it is >= the
// minimum most recently returned by that object's top/pop/swap_top_bucket since construction / clear() / the
// assignment that gave it its contents (then: the source's frontier).
#pragma once
#include "../engine/pbt.hpp"

#include <algorithm>
#include <cstdint>
#include <limits>
#include <set>
#include <string>
#include <type_traits>
#include <vector>

#include <tlx/container/radix_heap.hpp>

#include "C13_api_impl.hpp"

namespace {

typedef uint64_t UK64;

template <class K>
struct RankOf {
    typedef typename std::make_unsigned<K>::type UK;
    typedef std::numeric_limits<K> lim;
    static const unsigned BITS = 8 * sizeof(K);
    // rank = number of representable keys smaller than k (own arithmetic, not tlx' IntegerRank)
    static UK64 rank(K k) { return (UK)((UK)k - (UK)lim::min()); }
    static K unrank(UK64 r) { return (K)(UK)((UK)r + (UK)lim::min()); }
};

inline int pay_int(UK64 r) { return (int)(((r + 12345) * 2654435761ULL) >> 13 & 0xfffff); }
inline std::string pay_str(UK64 r) { return "p" + std::to_string(r) + std::string(24 + (size_t)(r % 7), '#'); }

//! RadixHeapPair<K, int>
template <class K>
struct PairIntP {
    typedef std::pair<K, int> Value;
    static Value make(K k) { return Value(k, pay_int(RankOf<K>::rank(k))); }
    static K key_of(const Value& v) { return v.first; }
    static bool intact(const Value& v) { return v.second == pay_int(RankOf<K>::rank(v.first)); }
    template <class H> static size_t emplace(H& h, K k) { return h.emplace(k, k, pay_int(RankOf<K>::rank(k))); }
    template <class H> static size_t emplace_keyfirst(H& h, K k) { return h.emplace_keyfirst(k, pay_int(RankOf<K>::rank(k))); }
    template <class H> static void emplace_in_bucket(H& h, size_t idx, K k) { h.emplace_in_bucket(idx, k, pay_int(RankOf<K>::rank(k))); }
};
//! RadixHeapPair<K, std::string> (heap-owning payload: a moved-from one is empty)
template <class K>
struct PairStrP {
    typedef std::pair<K, std::string> Value;
    static Value make(K k) { return Value(k, pay_str(RankOf<K>::rank(k))); }
    static K key_of(const Value& v) { return v.first; }
    static bool intact(const Value& v) { return v.second == pay_str(RankOf<K>::rank(v.first)); }
    template <class H> static size_t emplace(H& h, K k) { return h.emplace(k, k, pay_str(RankOf<K>::rank(k))); }
    template <class H> static size_t emplace_keyfirst(H& h, K k) { return h.emplace_keyfirst(k, pay_str(RankOf<K>::rank(k))); }
    template <class H> static void emplace_in_bucket(H& h, size_t idx, K k) { h.emplace_in_bucket(idx, k, pay_str(RankOf<K>::rank(k))); }
};
//! the value IS the key
template <class K>
struct SelfP {
    typedef K Value;
    static Value make(K k) { return k; }
    static K key_of(const Value& v) { return v; }
    static bool intact(const Value&) { return true; }
    template <class H> static size_t emplace(H& h, K k) { return h.emplace(k, k); }
    template <class H> static size_t emplace_keyfirst(H& h, K k) { return h.emplace_keyfirst(k); }
    template <class H> static void emplace_in_bucket(H& h, size_t idx, K k) { h.emplace_in_bucket(idx, k); }
};
//! default-constructible record (make_radix_heap needs DataType{}), key found by a functor WITH state
template <class K>
struct Rec {
    K key;
    std::string pay;
    Rec() : key(), pay() {}
    Rec(K k, std::string p) : key(k), pay(std::move(p)) {}
};
template <class K>
struct KeyOfRec {
    int tag; // 4711 in the functor handed to the heap; a value-initialised functor has 0
    K operator()(const Rec<K>& r) const {
        if (tag != 4711) pbt::fail("C13/key-extract-state", "the heap called a key extractor that is not (a copy of) the functor object it was constructed with");
        return r.key;
    }
};
template <class K>
struct RecP {
    typedef Rec<K> Value;
    static Value make(K k) { return Value(k, pay_str(RankOf<K>::rank(k))); }
    static K key_of(const Value& v) { return v.key; }
    static bool intact(const Value& v) { return v.pay == pay_str(RankOf<K>::rank(v.key)); }
    template <class H> static size_t emplace(H& h, K k) { return h.emplace(k, k, pay_str(RankOf<K>::rank(k))); }
    template <class H> static size_t emplace_keyfirst(H& h, K k) { return h.emplace_keyfirst(k, pay_str(RankOf<K>::rank(k))); }
    template <class H> static void emplace_in_bucket(H& h, size_t idx, K k) { h.emplace_in_bucket(idx, k, pay_str(RankOf<K>::rank(k))); }
};

struct RModel {
    std::multiset<UK64> keys; // ranks
    UK64 limit = 0;           // rank of the most recently extracted minimum
    bool cleared = false;
};

template <class Heap, class P, class Fresh>
void history(pbt::Source& src, Fresh fresh, unsigned radix, const char* name) {
    typedef typename Heap::key_type K;
    typedef typename Heap::value_type Value;
    typedef RankOf<K> RK;
    typedef c13api::Slot<Heap, RModel> S;
    static_assert(std::is_same<Value, typename P::Value>::value, "value_type");
    constexpr bool ASSIGNABLE = std::is_copy_assignable<Heap>::value;
    const unsigned BITS = RK::BITS;
    const UK64 RMAX = BITS == 64 ? ~(UK64)0 : (((UK64)1 << BITS) - 1);
    const UK64 ZERO = std::is_signed<K>::value ? (UK64)1 << (BITS - 1) : 0; // rank of key 0
    unsigned rbits = 0;
    while ((1u << rbits) < radix) ++rbits;
    PBT_LOG(name << "\n");
    PBT_CHECK(Heap::radix == radix, "C13/radix-config", name << ": static member radix is " << Heap::radix << ", expected " << radix);

    std::vector<std::unique_ptr<S>> slots;
    slots.emplace_back(new S{fresh(), RModel()});

    auto showk = [&](UK64 r) { return (long long)RK::unrank(r); };
    auto gen_rank = [&](UK64 limit, const RModel& m) -> UK64 {
        // keys >= limit, biased to the frontier, the type extremes, zero and digit boundaries (as target radix)
        UK64 room = RMAX - limit;
        switch (src.weighted({3, 3, 2, 3, 2, 3, 2})) {
        case 0: return limit;
        case 1: {
            UK64 d = (UK64)src.range(0, 3);
            return d <= room ? limit + d : RMAX;
        }
        case 2: {
            UK64 d = (UK64)src.range(0, 2);
            return d <= room ? RMAX - d : limit;
        }
        case 3: {
            unsigned b = (unsigned)src.range(0, BITS - 1);
            UK64 x = limit | (((UK64)1 << b) - 1);
            if (src.boolean() && x != RMAX) x += 1;
            return x;
        }
        case 4: {
            UK64 x = (ZERO + (UK64)src.range(0, 2) - 1) & RMAX;
            return x >= limit ? x : limit;
        }
        case 5: {
            UK64 x = (UK64)src.bits(BITS / 8);
            return room == ~(UK64)0 ? x : limit + x % (room + 1);
        }
        default: {
            if (m.keys.empty()) return limit;
            auto it = m.keys.begin();
            std::advance(it, src.index(std::min<size_t>(m.keys.size(), 16)));
            return *it >= limit ? *it : limit;
        }
        }
    };
    auto check = [&](S& s, size_t idx, const char* after) {
        const Heap& ch = s.h; // observers through a const reference
        PBT_CHECK(ch.size() == s.m.keys.size(), "C13/radix-size", "heap #" << idx << " after " << after << ": size() " << ch.size() << " but model has " << s.m.keys.size());
        PBT_CHECK(ch.empty() == s.m.keys.empty(), "C13/radix-empty", "heap #" << idx << " after " << after << ": empty() " << ch.empty() << ", model size " << s.m.keys.size());
        if (!s.m.keys.empty()) {
            UK64 want = *s.m.keys.begin(), got = RK::rank(ch.peak_top_key());
            PBT_CHECK(got == want, "C13/radix-peak", "heap #" << idx << " after " << after << ": peak_top_key() " << showk(got) << " but the minimum key is " << showk(want));
        }
    };
    auto check_all = [&](const char* after) {
        for (size_t i = 0; i < slots.size(); ++i) check(*slots[i], i, after);
    };
    bool nt = false;
    auto observe_min = [&](RModel& m, UK64 mn) {
        if (mn != m.limit && (m.cleared || mn == 0 || mn == RMAX || slots.size() >= 2)) nt = true;
        if (mn != m.limit) pbt::label("frontier_advanced");
        if ((mn ^ m.limit) >> rbits) pbt::label("frontier_advanced_beyond_row0");
        if (mn == 0) pbt::label("extracted_type_min");
        if (mn == RMAX) pbt::label("extracted_type_max");
        m.limit = mn;
    };
    auto do_top = [&](S& s, size_t idx, const char* what) {
        UK64 mn = *s.m.keys.begin();
        const Value& t = s.h.top();
        UK64 got = RK::rank(P::key_of(t));
        PBT_CHECK(got == mn, "C13/radix-top", "heap #" << idx << " " << what << ": top() has key " << showk(got) << " but the minimum key is " << showk(mn));
        PBT_CHECK(P::intact(t), "C13/radix-payload", "heap #" << idx << " " << what << ": top() with key " << showk(got) << " carries a payload that was never inserted with this key (moved-from?)");
        observe_min(s.m, mn);
    };
    auto do_swap = [&](S& s, size_t idx, const char* what) {
        UK64 mn = *s.m.keys.begin();
        size_t c = s.m.keys.count(mn);
        typename Heap::bucket_data_type ex; // the exchange bucket has to be empty
        s.h.swap_top_bucket(ex);
        PBT_CHECK(ex.size() == c, "C13/radix-swap-bucket", "heap #" << idx << " " << what << ": swap_top_bucket returned " << ex.size() << " elements but " << c << " elements have the minimal key " << showk(mn));
        for (const Value& v : ex) {
            PBT_CHECK(RK::rank(P::key_of(v)) == mn, "C13/radix-swap-bucket", "heap #" << idx << " " << what << ": swap_top_bucket returned key " << showk(RK::rank(P::key_of(v))) << ", the minimal key is " << showk(mn));
            PBT_CHECK(P::intact(v), "C13/radix-payload", "heap #" << idx << " " << what << ": swap_top_bucket returned a payload that was never inserted with its key");
        }
        s.m.keys.erase(mn);
        observe_min(s.m, mn);
        if (c >= 2) pbt::label("swap_bucket_multi");
    };
    auto drain = [&](S& s, size_t idx) {
        bool by_bucket = src.boolean();
        PBT_LOG("drain #" << idx << (by_bucket ? " by swap_top_bucket" : " by top/pop") << "\n");
        while (!s.m.keys.empty()) {
            PBT_CHECK(!s.h.empty(), "C13/radix-size", "heap #" << idx << " empty during drain but the model still has " << s.m.keys.size());
            if (by_bucket) {
                do_swap(s, idx, "drain");
            } else {
                do_top(s, idx, "drain");
                s.h.pop();
                s.m.keys.erase(s.m.keys.begin());
            }
            const Heap& ch = s.h;
            PBT_CHECK(ch.size() == s.m.keys.size(), "C13/radix-size", "heap #" << idx << " drain: size() " << ch.size() << " but model has " << s.m.keys.size());
        }
        PBT_CHECK(s.h.empty(), "C13/radix-size", "heap #" << idx << " not empty after draining the model: size " << s.h.size());
    };
    auto drop = [&](size_t j) {
        PBT_LOG("drop heap #" << j << "\n");
        check(*slots[j], j, "before drop");
        drain(*slots[j], j);
        slots.erase(slots.begin() + (std::ptrdiff_t)j);
    };
    //! one insertion of key rank r in the chosen spelling; the returned bucket index is compared with get_bucket*
    auto insert = [&](S& s, size_t idx, UK64 r, unsigned how) -> size_t {
        static const char* const HOW[7] = {"push_const_lvalue", "push_nonconst_lvalue", "push_temporary", "emplace", "emplace_keyfirst", "push_to_bucket", "emplace_in_bucket"};
        const K k = RK::unrank(r);
        const Heap& ch = s.h;
        const size_t want = ch.get_bucket_key(k);
        {
            const Value probe = P::make(k);
            size_t w2 = ch.get_bucket(probe);
            PBT_CHECK(w2 == want, "C13/radix-bucket-index", "heap #" << idx << ": get_bucket(value) = " << w2 << " but get_bucket_key(key) = " << want << " for key " << showk(r));
        }
        PBT_LOG(HOW[how] << "(" << showk(r) << ") [bucket " << want << "]\n");
        size_t got = want;
        switch (how) {
        case 0: {
            const Value v = P::make(k);
            got = s.h.push(v);
            PBT_CHECK(P::key_of(v) == k && P::intact(v), "C13/radix-push-arg", "push(const value_type&) changed its argument");
            break;
        }
        case 1: {
            Value v = P::make(k);
            got = s.h.push(v);
            PBT_CHECK(P::key_of(v) == k && P::intact(v), "C13/radix-push-arg", "push() of a non-const lvalue changed (moved from) the caller's object");
            break;
        }
        case 2: got = s.h.push(P::make(k)); break;
        case 3: got = P::emplace(s.h, k); break;
        case 4: got = P::emplace_keyfirst(s.h, k); break;
        case 5: {
            Value v = P::make(k);
            s.h.push_to_bucket(want, v);
            PBT_CHECK(P::key_of(v) == k && P::intact(v), "C13/radix-push-arg", "push_to_bucket() of a non-const lvalue changed (moved from) the caller's object");
            break;
        }
        default: P::emplace_in_bucket(s.h, want, k); break;
        }
        PBT_CHECK(got == want, "C13/radix-bucket-index",
                  "heap #" << idx << ": " << HOW[how] << " of key " << showk(r) << " returned bucket " << got << " but get_bucket_key() said " << want << " directly before");
        s.m.keys.insert(r);
        pbt::label(HOW[how]);
        if (r == 0) pbt::label("pushed_type_min");
        if (r == RMAX) pbt::label("pushed_type_max");
        if (r == s.m.limit) pbt::label("pushed_at_frontier");
        return got;
    };
    auto other = [&](size_t si) -> size_t {
        if (slots.size() == 1) {
            // a second heap with its own history: a few elements, possibly an advanced frontier
            slots.emplace_back(new S{fresh(), RModel()});
            S& o = *slots.back();
            size_t n = (size_t)src.range(0, 3);
            for (size_t i = 0; i < n; ++i) insert(o, 1, gen_rank(o.m.limit, o.m), (unsigned)src.range(0, 6));
            if (n && src.boolean()) {
                do_top(o, 1, "second heap");
                o.h.pop();
                o.m.keys.erase(o.m.keys.begin());
            }
            return 1;
        }
        size_t j = src.index(slots.size() - 1);
        return j >= si ? j + 1 : j;
    };
    auto make_room = [&](size_t si) -> size_t {
        if (slots.size() < c13api::MAX_SLOTS) return si;
        size_t j = (si + 1) % slots.size();
        drop(j);
        return j < si ? si - 1 : si;
    };
    auto reset_moved_from = [&](S& s) {
        s.h.clear(); // clear() resets everything a moved-from heap has (stateless / trivially copyable extractors here)
        s.m.keys.clear();
        s.m.limit = 0;
        s.m.cleared = true;
    };

    unsigned nops = 0;
    check_all("construction");
    while (src.more() && nops < 200) {
        ++nops;
        unsigned op = (unsigned)src.weighted({12, 4, 5, 2, 1, 5});
        size_t si = src.index(slots.size());
        S* s = slots[si].get();
        if (slots.size() > 1) PBT_LOG("#" << si << ": ");
        switch (op) {
        case 0: {
            if (s->m.keys.size() > 300) { PBT_LOG("(skipped)\n"); continue; }
            unsigned how = (unsigned)src.range(0, 6);
            UK64 r = gen_rank(s->m.limit, s->m);
            size_t idx = insert(*s, si, r, how);
            if (src.chance(64)) {
                // the documented idiom: the returned index is the hint for another element of the same bucket
                const K k = RK::unrank(r);
                if (src.boolean()) {
                    PBT_LOG("push_to_bucket(returned index " << idx << ", same key)\n");
                    const Value v = P::make(k);
                    s->h.push_to_bucket(idx, v);
                } else {
                    PBT_LOG("emplace_in_bucket(returned index " << idx << ", same key)\n");
                    P::emplace_in_bucket(s->h, idx, k);
                }
                s->m.keys.insert(r);
                pbt::label("hint_reuse");
            }
            break;
        }
        case 1: {
            if (s->m.keys.empty()) { PBT_LOG("(skipped)\n"); continue; }
            PBT_LOG("top()\n");
            do_top(*s, si, "top");
            pbt::label("top");
            break;
        }
        case 2: {
            if (s->m.keys.empty()) { PBT_LOG("(skipped)\n"); continue; }
            UK64 mn = *s->m.keys.begin();
            PBT_LOG("pop() [minimum key " << showk(mn) << "]\n");
            s->h.pop();
            s->m.keys.erase(s->m.keys.begin());
            observe_min(s->m, mn);
            pbt::label("pop");
            break;
        }
        case 3: {
            if (s->m.keys.empty()) { PBT_LOG("(skipped)\n"); continue; }
            PBT_LOG("swap_top_bucket()\n");
            do_swap(*s, si, "swap_top_bucket");
            pbt::label("swap_top_bucket");
            break;
        }
        case 4: {
            PBT_LOG("clear()\n");
            s->h.clear();
            if (!s->m.keys.empty()) pbt::label("clear_nonempty");
            if (s->m.limit != 0) pbt::label("clear_after_advance");
            s->m.keys.clear();
            s->m.limit = 0;
            s->m.cleared = true;
            pbt::label("clear");
            break;
        }
        default: {
            unsigned how = (unsigned)src.range(0, 5);
            if (!ASSIGNABLE) how = how == 1 ? 0 : how == 3 ? 2 : how == 4 ? 5 : how;
            switch (how) {
            case 0: {
                si = make_room(si), s = slots[si].get();
                PBT_LOG("fork: copy-construct heap #" << slots.size() << " from #" << si << "\n");
                const Heap& csrc = s->h;
                slots.emplace_back(new S{Heap(csrc), s->m});
                pbt::label("fork_copy_ctor");
                break;
            }
            case 1: {
                size_t j = other(si);
                PBT_LOG("fork: copy-assign #" << j << " = #" << si << " (destination holds " << slots[j]->m.keys.size() << ", source " << s->m.keys.size() << ")\n");
                if (slots[j]->m.limit != s->m.limit) pbt::label("fork_assign_other_frontier");
                if constexpr (ASSIGNABLE) {
                    const Heap& csrc = s->h;
                    slots[j]->h = csrc;
                }
                slots[j]->m = s->m;
                pbt::label("fork_copy_assign");
                break;
            }
            case 2: {
                si = make_room(si), s = slots[si].get();
                PBT_LOG("fork: move-construct heap #" << slots.size() << " from #" << si << "; #" << si << ".clear()\n");
                slots.emplace_back(new S{Heap(std::move(s->h)), s->m});
                reset_moved_from(*s);
                pbt::label("fork_move_ctor");
                break;
            }
            case 3: {
                size_t j = other(si);
                PBT_LOG("fork: move-assign #" << j << " = std::move(#" << si << "); #" << si << ".clear()\n");
                if (slots[j]->m.limit != s->m.limit) pbt::label("fork_assign_other_frontier");
                if constexpr (ASSIGNABLE) slots[j]->h = std::move(s->h);
                slots[j]->m = s->m;
                reset_moved_from(*s);
                pbt::label("fork_move_assign");
                break;
            }
            case 4: {
                size_t j = other(si);
                PBT_LOG("fork: std::swap(#" << si << ", #" << j << ")\n");
                if constexpr (ASSIGNABLE) std::swap(s->h, slots[j]->h);
                std::swap(s->m, slots[j]->m);
                pbt::label("fork_swap");
                break;
            }
            default: {
                if (slots.size() < 2) { PBT_LOG("(skipped)\n"); continue; }
                drop(other(si));
                pbt::label("fork_drop");
                break;
            }
            }
            if (slots.size() >= 2) pbt::label("heaps>=2");
            break;
        }
        }
        check_all("op");
        for (auto& p : slots)
            if (p->m.keys.size() >= 8) pbt::label("size>=8");
    }
    for (size_t i = 0; i < slots.size(); ++i) drain(*slots[i], i);
    if (nt) pbt::nontrivial();
}

} // namespace
