// C13 (api, part 1) — tlx::DAryHeap: the parts of the public interface the other d-ary targets do not reach.
//   * the DEFAULT template arguments (DAryHeap<T>: arity 2, std::less<T>), the default constructor argument and the
//     alias tlx::d_ary_heap; arities above 8 (9, 13, 16, 64); comparators that are a plain function pointer and a
//     closure type (not assignable: only copy/move CONSTRUCTION is used for those)
//   * push() with a const lvalue, a NON-CONST lvalue (must be left intact) and an rvalue
//   * build_heap(first, last) with a true single-pass InputIterator and with a pointer sub-range of a larger array,
//     build_heap(const vector&), build_heap(vector&&), all of them also on non-empty heaps
//   * every observer (size, empty, capacity, top) is called through a const reference; capacity() >= size() always
//   * FORKS: a heap that was copy-constructed / copy-assigned (also over a heap holding MORE elements) / move-
//     constructed / move-assigned / std::swapped is kept and used SIDE BY SIDE with its source; every heap object
//     has its own model and all of them are checked after every operation and drained at the end
// Oracle = the one of target dary: size, empty, top() is a stored element that is minimal under the MODEL order
// (any minimal element is accepted), sanity_check(), drain non-decreasing and a permutation of the model.
#pragma once
#include "../engine/pbt.hpp"

#include <algorithm>
#include <climits>
#include <cstdlib>
#include <functional>
#include <sstream>
#include <string>
#include <type_traits>
#include <vector>

#include <tlx/container/d_ary_heap.hpp>

#include "C13_api_impl.hpp"

namespace {

const int BAD = -777777;

struct IntC {
    typedef int T;
    static const size_t U = 16;
    static int key(size_t i) {
        static const int KEYS[U] = {0, 1, 2, 3, 4, 5, 6, 7, -1, -2, INT_MAX, INT_MIN, INT_MAX - 1, INT_MIN + 1, 100, -100};
        return KEYS[i];
    }
    static T make(int k) { return k; }
    static int dec(const T& v) { return v; }
};
//! strings of 26..34 characters (heap-owning: a moved-from one is empty and decodes to BAD)
struct StrC {
    typedef std::string T;
    static const size_t U = 16;
    static int key(size_t i) { return (int)i; }
    static size_t len(int k) { return 26 + (size_t)(k * 5 % 9); }
    static T make(int k) {
        std::string s(1, (char)('a' + k));
        s.append(len(k) - 2, '.');
        s += (char)('A' + k);
        return s;
    }
    static int dec(const T& s) {
        if (s.empty() || s[0] < 'a' || s[0] >= (char)('a' + U)) return BAD;
        int k = s[0] - 'a';
        return s == make(k) ? k : BAD;
    }
};

inline bool by_abs(const int& a, const int& b) { return std::llabs((long long)a) < std::llabs((long long)b); }

std::string show(const std::vector<int>& v) {
    std::ostringstream os;
    os << "{";
    for (size_t i = 0; i < v.size() && i < 40; ++i) os << (i ? "," : "") << v[i];
    if (v.size() > 40) os << ",... (" << v.size() << ")";
    os << "}";
    return os.str();
}

template <class Heap, class C, class MLess, class Fresh>
void history(pbt::Source& src, MLess mless, Fresh fresh, size_t arity, const char* name) {
    typedef typename C::T T;
    typedef c13api::Slot<Heap, std::vector<int>> S;
    constexpr bool ASSIGNABLE = std::is_copy_assignable<typename Heap::compare_type>::value;
    PBT_LOG(name << "\n");
    PBT_CHECK(Heap::arity == arity, "C13/dary-config", name << ": static member arity is " << Heap::arity << ", expected " << arity);

    std::vector<std::unique_ptr<S>> slots;
    slots.emplace_back(new S{fresh(), {}});

    auto is_min = [&](const std::vector<int>& model, int t) {
        for (int e : model)
            if (mless(e, t)) return false;
        return true;
    };
    auto model_erase = [&](std::vector<int>& model, int k) {
        auto it = std::find(model.begin(), model.end(), k);
        if (it == model.end()) return false;
        model.erase(it);
        return true;
    };
    auto check = [&](S& s, size_t idx, const char* after) {
        const Heap& ch = s.h; // all observers through a const reference
        PBT_CHECK(ch.size() == s.m.size(), "C13/dary-size", "heap #" << idx << " after " << after << ": size() " << ch.size() << " but model has " << s.m.size());
        PBT_CHECK(ch.empty() == s.m.empty(), "C13/dary-empty", "heap #" << idx << " after " << after << ": empty() " << ch.empty() << ", model size " << s.m.size());
        PBT_CHECK(ch.capacity() >= ch.size(), "C13/dary-capacity", "heap #" << idx << " after " << after << ": capacity() " << ch.capacity() << " < size() " << ch.size());
        if (!s.m.empty()) {
            const T& tr = ch.top();
            int t = C::dec(tr);
            PBT_CHECK(std::count(s.m.begin(), s.m.end(), t) > 0, "C13/dary-top-member",
                      "heap #" << idx << " after " << after << ": top() = " << t << " is not stored (" << BAD << " = not a value the history made, e.g. moved-from); model " << show(s.m));
            PBT_CHECK(is_min(s.m, t), "C13/dary-top-min", "heap #" << idx << " after " << after << ": top() = " << t << " is not minimal; model " << show(s.m));
        }
        PBT_CHECK(s.h.sanity_check(), "C13/dary-sanity", "heap #" << idx << " after " << after << ": sanity_check() false; model " << show(s.m));
    };
    auto check_all = [&](const char* after) {
        for (size_t i = 0; i < slots.size(); ++i) check(*slots[i], i, after);
    };
    auto drain = [&](S& s, size_t idx) {
        bool have_prev = false;
        int prev = 0;
        PBT_LOG("drain #" << idx << ":");
        while (!s.m.empty()) {
            PBT_CHECK(!s.h.empty(), "C13/dary-size", "heap #" << idx << " empty during drain but model still has " << show(s.m));
            int t = C::dec(s.h.extract_top());
            PBT_LOG(" " << t);
            PBT_CHECK(model_erase(s.m, t), "C13/dary-drain-perm", "heap #" << idx << ": drain produced " << t << " which is not (any more) in the model " << show(s.m));
            PBT_CHECK(!have_prev || !mless(t, prev), "C13/dary-drain-order", "heap #" << idx << ": drain produced " << t << " after " << prev);
            prev = t;
            have_prev = true;
        }
        PBT_LOG("\n");
        PBT_CHECK(s.h.empty() && s.h.size() == 0, "C13/dary-size", "heap #" << idx << " not empty after draining the model: size " << s.h.size());
    };
    auto drop = [&](size_t j) {
        PBT_LOG("drop heap #" << j << "\n");
        check(*slots[j], j, "before drop");
        drain(*slots[j], j);
        slots.erase(slots.begin() + (std::ptrdiff_t)j);
    };
    auto gen_key = [&]() -> int { return C::key(src.index(C::U)); };
    auto gen_keys = [&]() {
        std::vector<int> v;
        if (src.chance(64)) {
            // bulk: enough elements for a second (arity 64) / third (arity 9..16) level
            size_t n = (size_t)src.range(0, 150), a = src.index(C::U), step = 1 + src.index(C::U - 1);
            for (size_t i : c13api::bulk_indices(n, a, step, C::U)) v.push_back(C::key(i));
            pbt::label("keys_bulk");
        } else {
            size_t n = (size_t)src.range(0, 12);
            for (size_t i = 0; i < n; ++i) v.push_back(gen_key());
        }
        return v;
    };
    //! index of a heap other than si; created (fresh, 0..3 elements) if si is the only one
    auto other = [&](size_t si) -> size_t {
        if (slots.size() == 1) {
            slots.emplace_back(new S{fresh(), {}});
            size_t n = (size_t)src.range(0, 3);
            for (size_t i = 0; i < n; ++i) {
                int k = gen_key();
                slots.back()->h.push(C::make(k));
                slots.back()->m.push_back(k);
            }
            return 1;
        }
        size_t j = src.index(slots.size() - 1);
        return j >= si ? j + 1 : j;
    };
    //! make room for one more heap object (never drops si); returns the possibly shifted index of si
    auto make_room = [&](size_t si) -> size_t {
        if (slots.size() < c13api::MAX_SLOTS) return si;
        size_t j = (si + 1) % slots.size();
        drop(j);
        return j < si ? si - 1 : si;
    };

    bool nt = false;
    unsigned nops = 0;
    check_all("construction");
    while (src.more() && nops < 200) {
        ++nops;
        unsigned op = (unsigned)src.weighted({8, 4, 3, 1, 4, 1, 2, 5, 2});
        size_t si = src.index(slots.size());
        S* s = slots[si].get();
        if (slots.size() > 1) PBT_LOG("#" << si << ": ");
        switch (op) {
        case 0: {
            if (s->m.size() > 400) { PBT_LOG("(skipped)\n"); continue; }
            int k = gen_key();
            unsigned cat = (unsigned)src.range(0, 3);
            if (cat == 0) {
                PBT_LOG("push(const lvalue " << k << ")\n");
                const T v = C::make(k);
                s->h.push(v);
                PBT_CHECK(C::dec(v) == k, "C13/dary-push-arg", "push(const key_type&) changed its argument");
                pbt::label("push_const_lvalue");
            } else if (cat == 1) {
                PBT_LOG("push(non-const lvalue " << k << ")\n");
                T v = C::make(k);
                s->h.push(v);
                PBT_CHECK(C::dec(v) == k, "C13/dary-push-arg", "push() of a non-const lvalue changed (moved from) the caller's object");
                pbt::label("push_nonconst_lvalue");
            } else if (cat == 2) {
                PBT_LOG("push(temporary " << k << ")\n");
                s->h.push(C::make(k));
                pbt::label("push_rvalue");
            } else {
                PBT_LOG("push(std::move(named) " << k << ")\n");
                T v = C::make(k);
                s->h.push(std::move(v));
                v = C::make(gen_key()); // a moved-from object may be assigned to and goes on living
                pbt::label("push_rvalue");
            }
            s->m.push_back(k);
            break;
        }
        case 1: {
            if (s->m.empty()) { PBT_LOG("(skipped)\n"); continue; }
            const Heap& ch = s->h;
            int t = C::dec(ch.top());
            PBT_LOG("pop() [top " << t << "]\n");
            s->h.pop();
            PBT_CHECK(model_erase(s->m, t), "C13/dary-top-member", "top() " << t << " not in model " << show(s->m));
            if (s->m.size() >= 3) nt = true;
            pbt::label("pop");
            break;
        }
        case 2: {
            if (s->m.empty()) { PBT_LOG("(skipped)\n"); continue; }
            int t = C::dec(s->h.extract_top());
            PBT_LOG("extract_top() -> " << t << "\n");
            PBT_CHECK(std::count(s->m.begin(), s->m.end(), t) > 0, "C13/dary-extract-member", "extract_top() returned " << t << " which is not stored; model " << show(s->m));
            PBT_CHECK(is_min(s->m, t), "C13/dary-extract-min", "extract_top() returned " << t << " which is not minimal; model " << show(s->m));
            model_erase(s->m, t);
            if (s->m.size() >= 3) nt = true;
            pbt::label("extract_top");
            break;
        }
        case 3:
            PBT_LOG("clear()\n");
            s->h.clear();
            s->m.clear();
            pbt::label("clear");
            break;
        case 4: {
            unsigned how = (unsigned)src.range(0, 3);
            std::vector<int> ks = gen_keys();
            static const char* const BL[4] = {"build_input_iter", "build_ptr_subrange", "build_const_vector", "build_move_vector"};
            PBT_LOG(BL[how] << " " << show(ks) << (s->m.empty() ? "" : " on non-empty") << "\n");
            if (!s->m.empty()) pbt::label("build_nonempty"), nt = true;
            std::vector<T> v;
            for (int k : ks) v.push_back(C::make(k));
            if (how == 0) {
                c13api::InStream<T> st(v);
                s->h.build_heap(c13api::InIt<T>(&st), c13api::InIt<T>());
                PBT_CHECK(st.pos == v.size(), "C13/dary-build-source", "build_heap(first, last) consumed " << st.pos << " of " << v.size() << " elements of its input range");
            } else if (how == 1) {
                // a sub-range of a larger array, given by pointers
                std::vector<T> w;
                w.push_back(C::make(C::key(0)));
                w.push_back(C::make(C::key(1)));
                w.insert(w.end(), v.begin(), v.end());
                w.push_back(C::make(C::key(2)));
                const T* first = w.data() + 2;
                s->h.build_heap(first, first + v.size());
                PBT_CHECK(C::dec(w[0]) == C::key(0) && C::dec(w[1]) == C::key(1) && C::dec(w.back()) == C::key(2), "C13/dary-build-source", "build_heap(first, last) touched elements outside [first, last)");
                for (size_t i = 0; i < ks.size(); ++i) PBT_CHECK(C::dec(w[i + 2]) == ks[i], "C13/dary-build-source", "build_heap(first, last) changed element " << i << " of its source");
            } else if (how == 2) {
                const std::vector<T>& cv = v;
                s->h.build_heap(cv);
                PBT_CHECK(v.size() == ks.size(), "C13/dary-build-source", "build_heap(const vector&) changed the size of its source");
                for (size_t i = 0; i < ks.size(); ++i) PBT_CHECK(C::dec(v[i]) == ks[i], "C13/dary-build-source", "build_heap(const vector&) changed element " << i << " of its source");
            } else {
                s->h.build_heap(std::move(v));
                v.clear(); // a moved-from vector may be cleared and reused
                v.push_back(C::make(C::key(0)));
            }
            s->m = ks;
            pbt::label(BL[how]);
            break;
        }
        case 5:
            PBT_LOG("update_all()\n");
            s->h.update_all();
            pbt::label("update_all");
            break;
        case 6: {
            size_t n = (size_t)src.range(0, 200);
            PBT_LOG("reserve(" << n << ")" << (s->m.empty() ? "" : " mid-history") << "\n");
            s->h.reserve(n);
            const Heap& ch = s->h;
            PBT_CHECK(ch.capacity() >= n, "C13/dary-reserve", "capacity() " << ch.capacity() << " after reserve(" << n << ")");
            pbt::label(s->m.empty() ? "reserve_empty" : "reserve_nonempty");
            break;
        }
        case 7: {
            unsigned how = (unsigned)src.range(0, 6);
            if (!ASSIGNABLE) how = how == 1 ? 0 : how == 3 ? 2 : how == 4 ? 5 : how;
            switch (how) {
            case 0: {
                si = make_room(si), s = slots[si].get();
                PBT_LOG("fork: copy-construct heap #" << slots.size() << " from #" << si << "\n");
                const Heap& csrc = s->h;
                slots.emplace_back(new S{Heap(csrc), s->m});
                pbt::label("fork_copy_ctor");
                break;
            }
            case 1: {
                size_t j = other(si);
                PBT_LOG("fork: copy-assign #" << j << " = #" << si << " (destination holds " << slots[j]->m.size() << ", source " << s->m.size() << ")\n");
                if (slots[j]->m.size() > s->m.size() && !s->m.empty()) pbt::label("fork_copy_assign_over_larger");
                if constexpr (ASSIGNABLE) {
                    const Heap& csrc = s->h;
                    slots[j]->h = csrc;
                }
                slots[j]->m = s->m;
                pbt::label("fork_copy_assign");
                break;
            }
            case 2: {
                si = make_room(si), s = slots[si].get();
                PBT_LOG("fork: move-construct heap #" << slots.size() << " from #" << si << "; #" << si << ".clear()\n");
                slots.emplace_back(new S{Heap(std::move(s->h)), s->m});
                s->h.clear(); // gives the moved-from heap a defined state again
                s->m.clear();
                pbt::label("fork_move_ctor");
                break;
            }
            case 3: {
                size_t j = other(si);
                PBT_LOG("fork: move-assign #" << j << " = std::move(#" << si << "); #" << si << ".clear()\n");
                if constexpr (ASSIGNABLE) slots[j]->h = std::move(s->h);
                slots[j]->m = s->m;
                s->h.clear();
                s->m.clear();
                pbt::label("fork_move_assign");
                break;
            }
            case 4: {
                size_t j = other(si);
                PBT_LOG("fork: std::swap(#" << si << ", #" << j << ")\n");
                if constexpr (ASSIGNABLE) std::swap(s->h, slots[j]->h);
                std::swap(s->m, slots[j]->m);
                pbt::label("fork_swap");
                break;
            }
            case 5: {
                if (slots.size() < 2) { PBT_LOG("(skipped)\n"); continue; }
                size_t j = other(si);
                drop(j);
                pbt::label("fork_drop");
                break;
            }
            default: {
                si = make_room(si);
                size_t n = (size_t)src.range(0, 100);
                PBT_LOG("new heap #" << slots.size() << " with reserve(" << n << ")\n");
                slots.emplace_back(new S{fresh(), {}});
                slots.back()->h.reserve(n);
                const Heap& ch = slots.back()->h;
                PBT_CHECK(ch.capacity() >= n && ch.empty(), "C13/dary-reserve", "fresh heap: capacity() " << ch.capacity() << " after reserve(" << n << "), size " << ch.size());
                pbt::label("fork_fresh_reserve");
                break;
            }
            }
            if (slots.size() >= 2) pbt::label("heaps>=2");
            break;
        }
        default: {
            if (s->m.size() > 400) { PBT_LOG("(skipped)\n"); continue; }
            size_t n = (size_t)src.range(1, 80), a = src.index(C::U), step = 1 + src.index(C::U - 1);
            PBT_LOG("bulk push of " << n << " elements\n");
            for (size_t i : c13api::bulk_indices(n, a, step, C::U)) {
                int k = C::key(i);
                if (i & 1) {
                    T v = C::make(k);
                    s->h.push(v);
                    PBT_CHECK(C::dec(v) == k, "C13/dary-push-arg", "push() of a non-const lvalue changed (moved from) the caller's object");
                } else {
                    s->h.push(C::make(k));
                }
                s->m.push_back(k);
            }
            pbt::label("bulk_push");
            break;
        }
        }
        check_all("op");
        for (auto& p : slots) {
            if (p->m.size() > arity + 1) pbt::label("size>arity+1");
            if (p->m.size() > arity * arity + arity + 1) pbt::label("size>arity^2+arity+1");
        }
    }
    for (size_t i = 0; i < slots.size(); ++i) drain(*slots[i], i);
    if (nt) pbt::nontrivial();
}

} // namespace
