// C08 oracle instantiation: Rec / KGreater
#include "C08_common.hpp"
namespace c08 {
void run_cfg4(int rsel, bool ptr, const std::vector<std::vector<int>>& keys, bool dp, bool ds, Stats& st) {
    disp_rank<Rec, KGreater, false>(rsel, ptr, keys, dp, ds, st);
}
} // namespace c08
