// C05 — sequential multiway_merge emits the smallest elements in order, stably,
// advancing inputs. Dispatcher: draws the configuration selectors first, then
// hands over to the per-(element type, stability) TU; generator + oracle are in
// C05_merge.hpp.
#include "C05_merge.hpp"

PBT_PROPERTY(merge) {
    c05::Cfg cfg;
    int type = (int)src.weighted({2, 3, 3}); // int, rec8 (copy trees), rec40 (pointer trees)
    cfg.entry = (int)src.range(0, 7);
    cfg.alg = (int)src.range(0, 4);
    cfg.desc = src.boolean();
    const bool st = c05::entry_stable(cfg.entry);
    switch (type) {
    case 0: st ? c05::run_int_s(src, cfg) : c05::run_int_u(src, cfg); break;
    case 1: st ? c05::run_rec8_s(src, cfg) : c05::run_rec8_u(src, cfg); break;
    default: st ? c05::run_rec40_s(src, cfg) : c05::run_rec40_u(src, cfg); break;
    }
}

// SCALE classes (see gen_scale in C05_merge.hpp): up to ~1100 sequences (sizes next to powers of two), sequences of
// several thousand elements, totals up to 1e5, merge lengths at the unguarded-phase boundary -1/+0/+1 of long inputs.
// Same configuration selectors, same oracle.
PBT_PROPERTY(merge_scale) {
    c05::Cfg cfg;
    int type = (int)src.weighted({2, 3, 3}); // int, rec8 (copy trees), rec40 (pointer trees)
    cfg.entry = (int)src.range(0, 7);
    cfg.alg = (int)src.range(0, 4);
    cfg.desc = src.boolean();
    cfg.scale = true;
    const bool st = c05::entry_stable(cfg.entry);
    switch (type) {
    case 0: st ? c05::run_int_s(src, cfg) : c05::run_int_u(src, cfg); break;
    case 1: st ? c05::run_rec8_s(src, cfg) : c05::run_rec8_u(src, cfg); break;
    default: st ? c05::run_rec40_s(src, cfg) : c05::run_rec40_u(src, cfg); break;
    }
}
