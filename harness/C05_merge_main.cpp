// C05 — sequential multiway_merge emits the smallest elements in order, stably,
// advancing inputs. Dispatcher: draws the configuration selectors first, then
// hands over to the per-(element type, stability) TU; generator + oracle are in
// C05_merge.hpp.
#include "C05_merge.hpp"

PBT_PROPERTY(merge) {
    c05::Cfg cfg;
    int type = (int)src.weighted({2, 3, 3}); // int, rec8 (copy trees), rec40 (pointer trees)
    cfg.entry = (int)src.range(0, 7);
    cfg.alg = (int)src.range(0, 4);
    cfg.desc = src.boolean();
    const bool st = c05::entry_stable(cfg.entry);
    switch (type) {
    case 0: st ? c05::run_int_s(src, cfg) : c05::run_int_u(src, cfg); break;
    case 1: st ? c05::run_rec8_s(src, cfg) : c05::run_rec8_u(src, cfg); break;
    default: st ? c05::run_rec40_s(src, cfg) : c05::run_rec40_u(src, cfg); break;
    }
}

// SCALE classes (see gen_scale in C05_merge.hpp): up to ~1100 sequences (sizes next to powers of two), sequences of
// several thousand elements, totals up to 1e5, merge lengths at the unguarded-phase boundary -1/+0/+1 of long inputs.
// Same configuration selectors, same oracle.
PBT_PROPERTY(merge_scale) {
    c05::Cfg cfg;
    int type = (int)src.weighted({2, 3, 3}); // int, rec8 (copy trees), rec40 (pointer trees)
    cfg.entry = (int)src.range(0, 7);
    cfg.alg = (int)src.range(0, 4);
    cfg.desc = src.boolean();
    cfg.scale = true;
    const bool st = c05::entry_stable(cfg.entry);
    switch (type) {
    case 0: st ? c05::run_int_s(src, cfg) : c05::run_int_u(src, cfg); break;
    case 1: st ? c05::run_rec8_s(src, cfg) : c05::run_rec8_u(src, cfg); break;
    default: st ? c05::run_rec40_s(src, cfg) : c05::run_rec40_u(src, cfg); break;
    }
}

// ITERATOR / TYPE classes (see "storage / iterator kinds", gen_iters and run_iters in C05_merge.hpp): the statement
// quantifies over sequences given by ANY random-access iterators and any element type. Inputs held in std::deque
// (several 512-byte blocks, begin not at a block start), read through std::reverse_iterator over a vector / deque
// stored back to front, or through an own strided iterator; output to deque / reverse / strided iterators; the
// sequence of iterator pairs itself in a std::deque; element types that own memory (16-byte record with a heap cell
// -> copy-based loser trees, record with a std::string -> pointer-based trees) besides the plain 8-byte record; a
// comparator that owns a std::string, a std::vector and a std::function. Same entry points / algorithms, same oracle.
PBT_PROPERTY(merge_iters) {
    c05::Cfg cfg;
    int type = (int)src.weighted({3, 2, 3}); // rec8 (trivial, copy trees), rech (owning, copy trees), recs (owning string, pointer trees)
    cfg.entry = (int)src.range(0, 7);
    cfg.alg = (int)src.range(0, 4);
    cfg.desc = src.boolean();
    cfg.pair = (int)src.weighted({5, 4, 3, 3, 2, 3, 3, 3});
    cfg.iters = true;
    cfg.pair = c05::IT_PAIR_OF_TYPE[type][cfg.pair]; // the owning types are instantiated with four of the eight pairs each
    const bool st = c05::entry_stable(cfg.entry);
    switch (type) {
    case 0:
        if (cfg.pair < 4) st ? c05::run_it_rec8_s(src, cfg) : c05::run_it_rec8_u(src, cfg);
        else st ? c05::run_it_rec8_s_b(src, cfg) : c05::run_it_rec8_u_b(src, cfg);
        break;
    case 1: st ? c05::run_it_rech_s(src, cfg) : c05::run_it_rech_u(src, cfg); break;
    default: st ? c05::run_it_recs_s(src, cfg) : c05::run_it_recs_u(src, cfg); break;
    }
}
