// C14 runner: executes digest / SipHash cases sent by harness/C14_check.py.
//
// Protocol (all integers little-endian), repeated until EOF on stdin:
//   request : u32 n, n payload bytes          response: u32 m, m bytes
//
//   payload[0] == 'I'  -> response = 1 byte: 1 if siphash_sse2 is compiled in (__SSE2__), else 0
//
//   payload[0] == 'D'  (digest case)
//     [1] algo  0 md5, 1 sha1, 2 sha256, 3 sha512
//     [2] form  0 digest()  1 digest_hex()  2 digest_hex_uc()  3 finalize(void*) into an exact-size heap buffer
//               4 xxx_hex(const void*, u32)  5 xxx_hex(std::string -> string_view)
//               6 xxx_hex_uc(const void*, u32)  7 xxx_hex_uc(std::string -> string_view)
//               8 xxx_hex(tlx::string_view(ptr,len))  9 xxx_hex_uc(tlx::string_view(ptr,len)) on an exact-size block
//     [3] ctor  3 ctor(std::string) (explicit constructor through the implicit StringView conversion), see below
//     [3] ctor  0 default ctor, 1 ctor(const void*, u32) fed with chunk 0, 2 ctor(tlx::string_view) fed with chunk 0
//     [4..7] nchunks, then nchunks x { u32 len, u8 style }  style 0 process(const void*, u32),
//               1 process(tlx::string_view(ptr,len)), 2 process(std::string) (implicit StringView conversion),
//               3 process(std::string_view(ptr,len)) (implicit StringView conversion)
//     rest: message bytes (sum of chunk lengths for forms 0..3; the whole message for forms 4..7)
//     Every chunk is copied into its own exact-size malloc block, so that any read outside the chunk hits an
//     ASan red zone. A fresh digest object is used per case.
//     response = the returned std::string bytes (raw digest or ASCII hex).
//
//   payload[0] == 'G'  (digest case on a GENERATED message: megabytes do not travel through the pipe)
//     [1] algo, [2] form, [3] ctor, [4..7] nchunks, chunk table -- exactly as for 'D' -- then u64 seed, u32 length.
//     The message is gen_bytes(seed, length) := Python's random.Random(seed).randbytes(length) (MT19937 seeded with
//     init_by_array over the 32-bit words of the seed; implemented below, checked by the Python side at start-up
//     through the 'P' request). Chunks are cut from it and fed exactly like in a 'D' case.
//
//   payload[0] == 'H'  (digest case on a HUGE message, 2^29 bytes and more: nothing is copied, every chunk is fed straight
//                       from ONE shared buffer that is kept between requests)
//     [1] algo, [2] form, [3] ctor, [4..7] nchunks, chunk table -- as for 'D', but style 0 process(const void*, u32) or
//     1 process(tlx::string_view(ptr,len)) only (style 2 would copy), forms 5 / 7 call the helper with a
//     tlx::string_view(ptr,len) -- then u64 seed, u64 length (<= 2^32 - 1), u8 mem.
//     mem 0: message = tile_bytes(seed, length): byte i is gen_bytes(seed, 1048573)[i mod 1048573] (the period is a prime,
//            so no block boundary of any digest ever repeats at the same tile offset); exact-size malloc block (ASan red
//            zone right behind the message).
//     mem 1: message = `length` zero bytes in a never-written anonymous read-only mapping (all pages are the kernel's
//            shared zero page: 4 GiB of address space, no resident memory).
//   payload[0] == 'T'  (probe) u64 seed, u64 length (<= 8 MiB), u8 mem -> response = the huge-message bytes
//   payload[0] == 'U'  (SipHash on the huge message) u64 seed, u64 length, u8 mem, 16 key bytes -> 24 bytes: plain, sse2
//                       (plain again without SSE2) and dispatch on the shared buffer
//
//   payload[0] == 'M'  (several 'H' / 'U' requests on the SAME huge message, executed by up to `threads` threads of this
//                       one process: one buffer, wall time of the slowest digest instead of the sum)
//     [1..4] u32 count, [5] u8 threads, then count x { u32 len, len payload bytes }; response = count x { u32 len, bytes }
//
//   payload[0] == 'P'  (generator probe) u64 seed, u32 length -> response = gen_bytes(seed, length)
//
//   payload[0] == 'S'  (SipHash case)
//     [1] variant 0 siphash_plain(key,m,len)  1 siphash_sse2(key,m,len)  2 siphash(key,m,len)
//                 3 siphash(const uint8_t*, len)  4 siphash(const char*, len)  5 siphash(tlx::string_view)
//                 6 plain, sse2 and dispatch on the same buffers (response 24 bytes)
//                 7 siphash(std::string) (opt-in, see C14_STRING_OVERLOAD in C14_check.py)
//                 8 template siphash(const Type&) on trivially copyable objects whose sizeof is the message length:
//                   integers (1, 2, 4, 8 bytes), a struct holding a byte array, a raw byte array (1 .. 64 bytes, see
//                   POD_SIZES in C14_check.py); response = 8 bytes per object type tried (2 or 3 values)
//     [2] message offset 0..15   [3] key offset 0..15   [4..19] key   rest: message
//     key and message are placed at the END of exact-size malloc blocks, `offset` bytes after a 16-aligned start.
//     response = 8 bytes (u64 LE) per computed value; empty when the variant is not compiled in (no SSE2).
//
// A malformed request makes the runner exit(3) (machinery error on the Python side, never a violation).

#include <tlx/container/string_view.hpp>
#include <tlx/digest/md5.hpp>
#include <tlx/digest/sha1.hpp>
#include <tlx/digest/sha256.hpp>
#include <tlx/digest/sha512.hpp>
#include <tlx/siphash.hpp>

#include <sys/mman.h>

#include <algorithm>
#include <atomic>
#include <cstdint>
#include <cstdio>
#include <cstdlib>
#include <cstring>
#include <string>
#include <string_view>
#include <thread>
#include <utility>
#include <vector>

namespace {

[[noreturn]] void bad(const char* what) {
    std::fprintf(stderr, "C14_runner: malformed request: %s\n", what);
    std::exit(3);
}

std::uint32_t rd32(const std::uint8_t* p) {
    return std::uint32_t(p[0]) | (std::uint32_t(p[1]) << 8) | (std::uint32_t(p[2]) << 16) | (std::uint32_t(p[3]) << 24);
}

//! exact-size heap copy of [p, p+n): reads past the end hit the ASan red zone
struct Exact {
    std::uint8_t* p;
    std::uint32_t n;
    Exact(const std::uint8_t* src, std::uint32_t len) : p(static_cast<std::uint8_t*>(std::malloc(len))), n(len) {
        if (len) std::memcpy(p, src, len);
    }
    Exact(const Exact&) = delete;
    ~Exact() { std::free(p); }
};

std::uint64_t rd64(const std::uint8_t* p) { return std::uint64_t(rd32(p)) | (std::uint64_t(rd32(p + 4)) << 32); }

//! MT19937 with CPython's seeding (random.seed(int) = init_by_array over the little-endian 32-bit words of |seed|) and
//! CPython's randbytes(n) = getrandbits(8n).to_bytes(n, 'little'): full 32-bit outputs little-endian, the last partial
//! word is the TOP 8*(n%4) bits of one more output.
struct PyMT {
    std::uint32_t mt[624];
    int idx;
    void init_genrand(std::uint32_t s) {
        mt[0] = s;
        for (int i = 1; i < 624; ++i) mt[i] = 1812433253U * (mt[i - 1] ^ (mt[i - 1] >> 30)) + std::uint32_t(i);
        idx = 624;
    }
    explicit PyMT(std::uint64_t seed) {
        std::uint32_t key[2] = {std::uint32_t(seed), std::uint32_t(seed >> 32)};
        std::size_t len = key[1] ? 2 : 1;
        init_genrand(19650218U);
        std::size_t i = 1, j = 0;
        for (std::size_t k = 624; k; --k) {
            mt[i] = (mt[i] ^ ((mt[i - 1] ^ (mt[i - 1] >> 30)) * 1664525U)) + key[j] + std::uint32_t(j);
            ++i, ++j;
            if (i >= 624) mt[0] = mt[623], i = 1;
            if (j >= len) j = 0;
        }
        for (std::size_t k = 623; k; --k) {
            mt[i] = (mt[i] ^ ((mt[i - 1] ^ (mt[i - 1] >> 30)) * 1566083941U)) - std::uint32_t(i);
            ++i;
            if (i >= 624) mt[0] = mt[623], i = 1;
        }
        mt[0] = 0x80000000U;
    }
    std::uint32_t next() {
        if (idx >= 624) {
            for (int k = 0; k < 624; ++k) {
                std::uint32_t y = (mt[k] & 0x80000000U) | (mt[(k + 1) % 624] & 0x7fffffffU);
                mt[k] = mt[(k + 397) % 624] ^ (y >> 1) ^ ((y & 1U) ? 0x9908b0dfU : 0U);
            }
            idx = 0;
        }
        std::uint32_t y = mt[idx++];
        y ^= y >> 11;
        y ^= (y << 7) & 0x9d2c5680U;
        y ^= (y << 15) & 0xefc60000U;
        y ^= y >> 18;
        return y;
    }
};

//! gen_bytes(seed, len); the last message is kept (consecutive requests hash the same message in different ways)
const std::vector<std::uint8_t>& gen_bytes(std::uint64_t seed, std::uint32_t len) {
    static std::vector<std::uint8_t> buf;
    static std::uint64_t have_seed = 0;
    static bool have = false;
    if (have && have_seed == seed && buf.size() == len) return buf;
    buf.assign(len, 0);
    PyMT g(seed);
    std::size_t full = len / 4, rest = len % 4;
    for (std::size_t w = 0; w < full; ++w) {
        std::uint32_t r = g.next();
        for (int b = 0; b < 4; ++b) buf[4 * w + std::size_t(b)] = std::uint8_t(r >> (8 * b));
    }
    if (rest) {
        std::uint32_t r = g.next() >> (32 - 8 * rest);
        for (std::size_t b = 0; b < rest; ++b) buf[4 * full + b] = std::uint8_t(r >> (8 * b));
    }
    have = true, have_seed = seed;
    return buf;
}

struct Chunk {
    std::uint32_t len;
    std::uint8_t style;
    const std::uint8_t* src;
};

template <typename Digest>
void feed(Digest& d, const Chunk& c) {
    if (c.style == 0) {
        Exact e(c.src, c.len);
        d.process(static_cast<const void*>(e.p), c.len);
    }
    else if (c.style == 1) {
        Exact e(c.src, c.len);
        d.process(tlx::string_view(reinterpret_cast<const char*>(e.p), c.len));
    }
    else if (c.style == 3) {
        Exact e(c.src, c.len);
        d.process(std::string_view(reinterpret_cast<const char*>(e.p), c.len));
    }
    else {
        std::string s(reinterpret_cast<const char*>(c.src), c.len);
        d.process(s);
    }
}

template <typename Digest>
std::string finish(Digest& d, int form) {
    switch (form) {
    case 0: return d.digest();
    case 1: return d.digest_hex();
    case 2: return d.digest_hex_uc();
    default: {
        std::uint8_t* out = static_cast<std::uint8_t*>(std::malloc(Digest::kDigestLength));
        std::memset(out, 0xAA, Digest::kDigestLength);
        d.finalize(out);
        std::string r(reinterpret_cast<const char*>(out), Digest::kDigestLength);
        std::free(out);
        return r;
    }
    }
}

template <typename Digest>
std::string run_object(int form, int ctor, const std::vector<Chunk>& chunks) {
    if (ctor == 0 || chunks.empty()) {
        Digest d;
        for (const Chunk& c : chunks) feed(d, c);
        return finish(d, form);
    }
    const Chunk& c0 = chunks[0];
    Exact e(c0.src, c0.len);
    if (ctor == 1) {
        Digest d(static_cast<const void*>(e.p), c0.len);
        for (size_t i = 1; i < chunks.size(); ++i) feed(d, chunks[i]);
        return finish(d, form);
    }
    if (ctor == 3) {
        const std::string s0(reinterpret_cast<const char*>(c0.src), c0.len);
        Digest d(s0);
        for (size_t i = 1; i < chunks.size(); ++i) feed(d, chunks[i]);
        return finish(d, form);
    }
    Digest d(tlx::string_view(reinterpret_cast<const char*>(e.p), c0.len));
    for (size_t i = 1; i < chunks.size(); ++i) feed(d, chunks[i]);
    return finish(d, form);
}

typedef std::string (*HelperPtr)(const void*, std::uint32_t);

std::string run_helper(int algo, int form, const std::uint8_t* msg, std::uint32_t len) {
    static const HelperPtr lc_p[4] = {
        static_cast<HelperPtr>(&tlx::md5_hex), static_cast<HelperPtr>(&tlx::sha1_hex),
        static_cast<HelperPtr>(&tlx::sha256_hex), static_cast<HelperPtr>(&tlx::sha512_hex)};
    static const HelperPtr uc_p[4] = {
        static_cast<HelperPtr>(&tlx::md5_hex_uc), static_cast<HelperPtr>(&tlx::sha1_hex_uc),
        static_cast<HelperPtr>(&tlx::sha256_hex_uc), static_cast<HelperPtr>(&tlx::sha512_hex_uc)};
    if (form == 4 || form == 6) {
        Exact e(msg, len);
        return (form == 4 ? lc_p : uc_p)[algo](static_cast<const void*>(e.p), len);
    }
    if (form >= 8) { // a string_view that is NOT followed by a NUL (or anything else that is readable)
        Exact e(msg, len);
        tlx::string_view sv(reinterpret_cast<const char*>(e.p), len);
        switch (algo * 2 + (form == 9)) {
        case 0: return tlx::md5_hex(sv);
        case 1: return tlx::md5_hex_uc(sv);
        case 2: return tlx::sha1_hex(sv);
        case 3: return tlx::sha1_hex_uc(sv);
        case 4: return tlx::sha256_hex(sv);
        case 5: return tlx::sha256_hex_uc(sv);
        case 6: return tlx::sha512_hex(sv);
        default: return tlx::sha512_hex_uc(sv);
        }
    }
    std::string s(reinterpret_cast<const char*>(msg), len);
    // std::string -> tlx::string_view implicit conversion, as a user would call sha256_hex(str)
    switch (algo * 2 + (form == 7)) {
    case 0: return tlx::md5_hex(s);
    case 1: return tlx::md5_hex_uc(s);
    case 2: return tlx::sha1_hex(s);
    case 3: return tlx::sha1_hex_uc(s);
    case 4: return tlx::sha256_hex(s);
    case 5: return tlx::sha256_hex_uc(s);
    case 6: return tlx::sha512_hex(s);
    default: return tlx::sha512_hex_uc(s);
    }
}

std::string do_digest(const std::uint8_t* p, std::uint32_t n, bool generated) {
    if (n < 8) bad("short digest header");
    int algo = p[1], form = p[2], ctor = p[3];
    if (algo > 3 || form > 9 || ctor > 3) bad("digest selector");
    std::uint32_t nch = rd32(p + 4);
    if (std::uint64_t(nch) * 5 + 8 > n) bad("chunk table");
    const std::uint8_t* tab = p + 8;
    const std::uint8_t* msg = tab + std::size_t(nch) * 5;
    std::uint32_t mlen = n - 8 - nch * 5;
    if (generated) {
        if (mlen != 12) bad("generated-message trailer");
        const std::vector<std::uint8_t>& g = gen_bytes(rd64(msg), rd32(msg + 8));
        static const std::uint8_t none = 0;
        mlen = static_cast<std::uint32_t>(g.size());
        msg = g.empty() ? &none : g.data();
    }
    if (form >= 4) return run_helper(algo, form, msg, mlen);
    std::vector<Chunk> chunks;
    chunks.reserve(nch);
    std::uint64_t pos = 0;
    for (std::uint32_t i = 0; i < nch; ++i) {
        std::uint32_t len = rd32(tab + 5 * std::size_t(i));
        std::uint8_t style = tab[5 * std::size_t(i) + 4];
        if (style > 3) bad("chunk style");
        if (pos + len > mlen) bad("chunk lengths exceed message");
        chunks.push_back(Chunk{len, style, msg + pos});
        pos += len;
    }
    if (pos != mlen) bad("chunk lengths do not cover message");
    switch (algo) {
    case 0: return run_object<tlx::MD5>(form, ctor, chunks);
    case 1: return run_object<tlx::SHA1>(form, ctor, chunks);
    case 2: return run_object<tlx::SHA256>(form, ctor, chunks);
    default: return run_object<tlx::SHA512>(form, ctor, chunks);
    }
}

//! block of `off + len` bytes (16-aligned start from malloc); payload occupies the last `len` bytes
struct Placed {
    std::uint8_t* base;
    std::uint8_t* p;
    Placed(const std::uint8_t* src, std::size_t len, std::size_t off)
        : base(static_cast<std::uint8_t*>(std::malloc(off + len))), p(base + off) {
        if (off) std::memset(base, 0xEE, off);
        if (len) std::memcpy(p, src, len);
    }
    Placed(const Placed&) = delete;
    ~Placed() { std::free(base); }
};

template <std::size_t N>
struct PodBytes {
    std::uint8_t b[N];
};
template <typename T>
std::uint64_t sip_object(const std::uint8_t* m) {
    T v;
    std::memcpy(&v, m, sizeof(v));
    return tlx::siphash(v); // template <typename Type> siphash(const Type&)
}
template <std::size_t N>
std::uint64_t sip_array(const std::uint8_t* m) {
    std::uint8_t a[N];
    std::memcpy(a, m, N);
    return tlx::siphash(a); // Type = std::uint8_t[N]
}

void put64(std::string& out, std::uint64_t v) {
    for (int i = 0; i < 8; ++i) out.push_back(static_cast<char>((v >> (8 * i)) & 0xff));
}

std::string do_siphash(const std::uint8_t* p, std::uint32_t n) {
    if (n < 20) bad("short siphash header");
    int variant = p[1];
    std::size_t moff = p[2], koff = p[3];
    if (variant > 8 || moff > 15 || koff > 15) bad("siphash selector");
    std::size_t len = n - 20;
    Placed key(p + 4, 16, koff);
    Placed msg(p + 20, len, moff);
    std::string out;
    switch (variant) {
    case 0: put64(out, tlx::siphash_plain(key.p, msg.p, len)); break;
    case 1:
#if defined(__SSE2__)
        put64(out, tlx::siphash_sse2(key.p, msg.p, len));
#endif
        break;
    case 2: put64(out, tlx::siphash(key.p, msg.p, len)); break;
    case 3: put64(out, tlx::siphash(static_cast<const std::uint8_t*>(msg.p), len)); break;
    case 4: put64(out, tlx::siphash(reinterpret_cast<const char*>(msg.p), len)); break;
    case 5: put64(out, tlx::siphash(tlx::string_view(reinterpret_cast<const char*>(msg.p), len))); break;
    case 7: {
        std::string str(reinterpret_cast<const char*>(msg.p), len);
        put64(out, tlx::siphash(str));
        break;
    }
    case 8:
        switch (len) {
#define POD(N) case N: put64(out, sip_object<PodBytes<N>>(msg.p)), put64(out, sip_array<N>(msg.p)); break;
        case 1: put64(out, sip_object<std::uint8_t>(msg.p)), put64(out, sip_object<char>(msg.p)), put64(out, sip_object<PodBytes<1>>(msg.p)); break;
        case 2: put64(out, sip_object<std::uint16_t>(msg.p)), put64(out, sip_object<std::int16_t>(msg.p)), put64(out, sip_array<2>(msg.p)); break;
        case 4: put64(out, sip_object<std::uint32_t>(msg.p)), put64(out, sip_object<int>(msg.p)), put64(out, sip_object<PodBytes<4>>(msg.p)); break;
        case 8: put64(out, sip_object<std::uint64_t>(msg.p)), put64(out, sip_object<std::int64_t>(msg.p)), put64(out, sip_array<8>(msg.p)); break;
        POD(3) POD(5) POD(7) POD(9) POD(12) POD(15) POD(16) POD(17) POD(24) POD(31) POD(32) POD(33) POD(64)
#undef POD
        default: bad("template siphash size");
        }
        break;
    default:
        put64(out, tlx::siphash_plain(key.p, msg.p, len));
#if defined(__SSE2__)
        put64(out, tlx::siphash_sse2(key.p, msg.p, len));
#else
        put64(out, tlx::siphash_plain(key.p, msg.p, len));
#endif
        put64(out, tlx::siphash(key.p, msg.p, len));
        break;
    }
    return out;
}

// ---- huge messages -----------------------------------------------------------------------------------------------------

const std::size_t kTile = 1048573; // prime

struct Huge {
    std::uint8_t* p = nullptr;
    std::uint64_t seed = 0, len = 0;
    int mem = -1;
    void release() {
        if (!p) return;
        if (mem == 1) munmap(p, len ? len : 1);
        else std::free(p);
        p = nullptr, mem = -1;
    }
    const std::uint8_t* get(std::uint64_t s, std::uint64_t n, int m) {
        if (p && seed == s && len == n && mem == m) return p;
        release();
        if (m == 1) {
            void* a = mmap(nullptr, n ? n : 1, PROT_READ, MAP_PRIVATE | MAP_ANONYMOUS | MAP_NORESERVE, -1, 0);
            if (a == MAP_FAILED) { std::fprintf(stderr, "C14_runner: cannot map %llu bytes\n", (unsigned long long)n); std::exit(4); }
            p = static_cast<std::uint8_t*>(a);
        } else {
            p = static_cast<std::uint8_t*>(std::malloc(n ? n : 1));
            if (!p) { std::fprintf(stderr, "C14_runner: cannot allocate %llu bytes\n", (unsigned long long)n); std::exit(4); }
            std::vector<std::uint8_t> tile = gen_bytes(s, std::uint32_t(kTile)); // copy: gen_bytes keeps one message
            for (std::uint64_t off = 0; off < n; off += kTile) std::memcpy(p + off, tile.data(), std::size_t(std::min<std::uint64_t>(kTile, n - off)));
        }
        seed = s, len = n, mem = m;
        return p;
    }
};
Huge g_huge;

template <typename Digest>
std::string run_object_nocopy(int form, int ctor, const std::vector<Chunk>& chunks) {
    auto feed_nc = [](Digest& d, const Chunk& c) {
        if (c.style == 0) d.process(static_cast<const void*>(c.src), c.len);
        else d.process(tlx::string_view(reinterpret_cast<const char*>(c.src), c.len));
    };
    if (ctor == 0 || chunks.empty()) {
        Digest d;
        for (const Chunk& c : chunks) feed_nc(d, c);
        return finish(d, form);
    }
    const Chunk& c0 = chunks[0];
    if (ctor == 1) {
        Digest d(static_cast<const void*>(c0.src), c0.len);
        for (size_t i = 1; i < chunks.size(); ++i) feed_nc(d, chunks[i]);
        return finish(d, form);
    }
    Digest d(tlx::string_view(reinterpret_cast<const char*>(c0.src), c0.len));
    for (size_t i = 1; i < chunks.size(); ++i) feed_nc(d, chunks[i]);
    return finish(d, form);
}

std::string run_helper_nocopy(int algo, int form, const std::uint8_t* msg, std::uint32_t len) {
    const void* vp = msg;
    tlx::string_view sv(reinterpret_cast<const char*>(msg), len);
    switch (algo * 4 + (form - 4)) {
    case 0: return tlx::md5_hex(vp, len);
    case 1: return tlx::md5_hex(sv);
    case 2: return tlx::md5_hex_uc(vp, len);
    case 3: return tlx::md5_hex_uc(sv);
    case 4: return tlx::sha1_hex(vp, len);
    case 5: return tlx::sha1_hex(sv);
    case 6: return tlx::sha1_hex_uc(vp, len);
    case 7: return tlx::sha1_hex_uc(sv);
    case 8: return tlx::sha256_hex(vp, len);
    case 9: return tlx::sha256_hex(sv);
    case 10: return tlx::sha256_hex_uc(vp, len);
    case 11: return tlx::sha256_hex_uc(sv);
    case 12: return tlx::sha512_hex(vp, len);
    case 13: return tlx::sha512_hex(sv);
    case 14: return tlx::sha512_hex_uc(vp, len);
    default: return tlx::sha512_hex_uc(sv);
    }
}

std::string do_huge(const std::uint8_t* p, std::uint32_t n) {
    if (n < 8) bad("short huge header");
    int algo = p[1], form = p[2], ctor = p[3];
    if (algo > 3 || form > 7 || ctor > 2) bad("huge selector");
    std::uint32_t nch = rd32(p + 4);
    if (std::uint64_t(nch) * 5 + 8 + 17 != n) bad("huge chunk table / trailer");
    const std::uint8_t* tab = p + 8;
    const std::uint8_t* tr = tab + std::size_t(nch) * 5;
    std::uint64_t seed = rd64(tr), len = rd64(tr + 8);
    int mem = tr[16];
    if (len > 0xFFFFFFFFull || mem > 1) bad("huge length / mem");
    const std::uint8_t* msg = g_huge.get(seed, len, mem);
    if (form >= 4) return run_helper_nocopy(algo, form, msg, std::uint32_t(len));
    std::vector<Chunk> chunks;
    std::uint64_t pos = 0;
    for (std::uint32_t i = 0; i < nch; ++i) {
        std::uint32_t cl = rd32(tab + 5 * std::size_t(i));
        std::uint8_t style = tab[5 * std::size_t(i) + 4];
        if (style > 1) bad("huge chunk style");
        if (pos + cl > len) bad("huge chunk lengths exceed message");
        chunks.push_back(Chunk{cl, style, msg + pos});
        pos += cl;
    }
    if (pos != len) bad("huge chunk lengths do not cover message");
    switch (algo) {
    case 0: return run_object_nocopy<tlx::MD5>(form, ctor, chunks);
    case 1: return run_object_nocopy<tlx::SHA1>(form, ctor, chunks);
    case 2: return run_object_nocopy<tlx::SHA256>(form, ctor, chunks);
    default: return run_object_nocopy<tlx::SHA512>(form, ctor, chunks);
    }
}

std::string do_huge_probe(const std::uint8_t* p, std::uint32_t n) {
    if (n != 18) bad("huge probe");
    std::uint64_t seed = rd64(p + 1), len = rd64(p + 9);
    if (len > (8u << 20) || p[17] > 1) bad("huge probe length");
    const std::uint8_t* msg = g_huge.get(seed, len, p[17]);
    return std::string(reinterpret_cast<const char*>(msg), std::size_t(len));
}

std::string do_huge_sip(const std::uint8_t* p, std::uint32_t n) {
    if (n != 34) bad("huge siphash");
    std::uint64_t seed = rd64(p + 1), len = rd64(p + 9);
    if (p[17] > 1 || len > (std::uint64_t(1) << 34)) bad("huge siphash mem / length");
    const std::uint8_t* msg = g_huge.get(seed, len, p[17]);
    Placed key(p + 18, 16, 0);
    std::string out;
    put64(out, tlx::siphash_plain(key.p, msg, std::size_t(len)));
#if defined(__SSE2__)
    put64(out, tlx::siphash_sse2(key.p, msg, std::size_t(len)));
#else
    put64(out, tlx::siphash_plain(key.p, msg, std::size_t(len)));
#endif
    put64(out, tlx::siphash(key.p, msg, std::size_t(len)));
    return out;
}

//! (seed, len, mem) of an 'H' or 'U' payload
void huge_key(const std::uint8_t* p, std::uint32_t n, std::uint64_t& seed, std::uint64_t& len, int& mem) {
    if (n >= 25 && p[0] == 'H') {
        const std::uint8_t* tr = p + n - 17;
        seed = rd64(tr), len = rd64(tr + 8), mem = tr[16];
    } else if (n == 34 && p[0] == 'U') {
        seed = rd64(p + 1), len = rd64(p + 9), mem = p[17];
    } else bad("multi: sub-request kind");
}

std::string do_multi(const std::uint8_t* p, std::uint32_t n) {
    if (n < 6) bad("short multi header");
    std::uint32_t count = rd32(p + 1);
    unsigned threads = p[5];
    if (count == 0 || count > 64 || threads == 0 || threads > 8) bad("multi count / threads");
    std::vector<std::pair<const std::uint8_t*, std::uint32_t>> subs;
    std::size_t pos = 6;
    for (std::uint32_t i = 0; i < count; ++i) {
        if (pos + 4 > n) bad("multi table");
        std::uint32_t l = rd32(p + pos);
        pos += 4;
        if (l == 0 || pos + l > n) bad("multi sub-request length");
        subs.emplace_back(p + pos, l);
        pos += l;
    }
    if (pos != n) bad("multi trailing bytes");
    std::uint64_t seed = 0, len = 0;
    int mem = 0;
    huge_key(subs[0].first, subs[0].second, seed, len, mem);
    for (auto& sr : subs) {
        std::uint64_t s2, l2;
        int m2;
        huge_key(sr.first, sr.second, s2, l2, m2);
        if (s2 != seed || l2 != len || m2 != mem) bad("multi: sub-requests on different messages");
    }
    if (mem > 1) bad("multi mem");
    g_huge.get(seed, len, mem); // built once, before the threads start; they only read it
    std::vector<std::string> outs(count);
    std::atomic<std::uint32_t> next(0);
    auto work = [&]() {
        for (;;) {
            std::uint32_t i = next.fetch_add(1);
            if (i >= count) return;
            outs[i] = subs[i].first[0] == 'H' ? do_huge(subs[i].first, subs[i].second) : do_huge_sip(subs[i].first, subs[i].second);
        }
    };
    std::vector<std::thread> pool;
    for (unsigned t = 1; t < std::min<unsigned>(threads, count); ++t) pool.emplace_back(work);
    work();
    for (auto& t : pool) t.join();
    std::string out;
    for (auto& o : outs) {
        std::uint32_t m = static_cast<std::uint32_t>(o.size());
        for (int b = 0; b < 4; ++b) out.push_back(static_cast<char>((m >> (8 * b)) & 0xff));
        out += o;
    }
    return out;
}

bool read_all(void* dst, std::size_t n) { return n == 0 || std::fread(dst, 1, n, stdin) == n; }

} // namespace

int main() {
    std::vector<std::uint8_t> buf;
    for (;;) {
        std::uint8_t hdr[4];
        if (std::fread(hdr, 1, 4, stdin) != 4) return 0; // EOF
        std::uint32_t n = rd32(hdr);
        if (n == 0 || n > (64u << 20)) bad("request size");
        buf.resize(n);
        if (!read_all(buf.data(), n)) bad("truncated request");
        std::string out;
        switch (buf[0]) {
        case 'I':
#if defined(__SSE2__)
            out.assign(1, '\1');
#else
            out.assign(1, '\0');
#endif
            break;
        case 'D': out = do_digest(buf.data(), n, false); break;
        case 'G': out = do_digest(buf.data(), n, true); break;
        case 'P': {
            if (n != 13) bad("probe");
            const std::vector<std::uint8_t>& g = gen_bytes(rd64(buf.data() + 1), rd32(buf.data() + 9));
            out.assign(reinterpret_cast<const char*>(g.data()), g.size());
            break;
        }
        case 'S': out = do_siphash(buf.data(), n); break;
        case 'H': out = do_huge(buf.data(), n); break;
        case 'T': out = do_huge_probe(buf.data(), n); break;
        case 'U': out = do_huge_sip(buf.data(), n); break;
        case 'M': out = do_multi(buf.data(), n); break;
        default: bad("kind");
        }
        std::uint32_t m = static_cast<std::uint32_t>(out.size());
        std::uint8_t oh[4] = {std::uint8_t(m), std::uint8_t(m >> 8), std::uint8_t(m >> 16), std::uint8_t(m >> 24)};
        std::fwrite(oh, 1, 4, stdout);
        if (m) std::fwrite(out.data(), 1, m, stdout);
        std::fflush(stdout);
    }
}
