// C14 runner: executes digest / SipHash cases sent by harness/C14_check.py.
//
// Protocol (all integers little-endian), repeated until EOF on stdin:
//   request : u32 n, n payload bytes          response: u32 m, m bytes
//
//   payload[0] == 'I'  -> response = 1 byte: 1 if siphash_sse2 is compiled in (__SSE2__), else 0
//
//   payload[0] == 'D'  (digest case)
//     [1] algo  0 md5, 1 sha1, 2 sha256, 3 sha512
//     [2] form  0 digest()  1 digest_hex()  2 digest_hex_uc()  3 finalize(void*) into an exact-size heap buffer
//               4 xxx_hex(const void*, u32)  5 xxx_hex(std::string -> string_view)
//               6 xxx_hex_uc(const void*, u32)  7 xxx_hex_uc(std::string -> string_view)
//     [3] ctor  0 default ctor, 1 ctor(const void*, u32) fed with chunk 0, 2 ctor(tlx::string_view) fed with chunk 0
//     [4..7] nchunks, then nchunks x { u32 len, u8 style }  style 0 process(const void*, u32),
//               1 process(tlx::string_view(ptr,len)), 2 process(std::string) (implicit StringView conversion)
//     rest: message bytes (sum of chunk lengths for forms 0..3; the whole message for forms 4..7)
//     Every chunk is copied into its own exact-size malloc block, so that any read outside the chunk hits an
//     ASan red zone. A fresh digest object is used per case.
//     response = the returned std::string bytes (raw digest or ASCII hex).
//
//   payload[0] == 'G'  (digest case on a GENERATED message: megabytes do not travel through the pipe)
//     [1] algo, [2] form, [3] ctor, [4..7] nchunks, chunk table -- exactly as for 'D' -- then u64 seed, u32 length.
//     The message is gen_bytes(seed, length) := Python's random.Random(seed).randbytes(length) (MT19937 seeded with
//     init_by_array over the 32-bit words of the seed; implemented below, checked by the Python side at start-up
//     through the 'P' request). Chunks are cut from it and fed exactly like in a 'D' case.
//
//   payload[0] == 'P'  (generator probe) u64 seed, u32 length -> response = gen_bytes(seed, length)
//
//   payload[0] == 'S'  (SipHash case)
//     [1] variant 0 siphash_plain(key,m,len)  1 siphash_sse2(key,m,len)  2 siphash(key,m,len)
//                 3 siphash(const uint8_t*, len)  4 siphash(const char*, len)  5 siphash(tlx::string_view)
//                 6 plain, sse2 and dispatch on the same buffers (response 24 bytes)
//                 7 siphash(std::string) (opt-in, see C14_STRING_OVERLOAD in C14_check.py)
//     [2] message offset 0..15   [3] key offset 0..15   [4..19] key   rest: message
//     key and message are placed at the END of exact-size malloc blocks, `offset` bytes after a 16-aligned start.
//     response = 8 bytes (u64 LE) per computed value; empty when the variant is not compiled in (no SSE2).
//
// A malformed request makes the runner exit(3) (machinery error on the Python side, never a violation).

#include <tlx/container/string_view.hpp>
#include <tlx/digest/md5.hpp>
#include <tlx/digest/sha1.hpp>
#include <tlx/digest/sha256.hpp>
#include <tlx/digest/sha512.hpp>
#include <tlx/siphash.hpp>

#include <cstdint>
#include <cstdio>
#include <cstdlib>
#include <cstring>
#include <string>
#include <vector>

namespace {

[[noreturn]] void bad(const char* what) {
    std::fprintf(stderr, "C14_runner: malformed request: %s\n", what);
    std::exit(3);
}

std::uint32_t rd32(const std::uint8_t* p) {
    return std::uint32_t(p[0]) | (std::uint32_t(p[1]) << 8) | (std::uint32_t(p[2]) << 16) | (std::uint32_t(p[3]) << 24);
}

//! exact-size heap copy of [p, p+n): reads past the end hit the ASan red zone
struct Exact {
    std::uint8_t* p;
    std::uint32_t n;
    Exact(const std::uint8_t* src, std::uint32_t len) : p(static_cast<std::uint8_t*>(std::malloc(len))), n(len) {
        if (len) std::memcpy(p, src, len);
    }
    Exact(const Exact&) = delete;
    ~Exact() { std::free(p); }
};

std::uint64_t rd64(const std::uint8_t* p) { return std::uint64_t(rd32(p)) | (std::uint64_t(rd32(p + 4)) << 32); }

//! MT19937 with CPython's seeding (random.seed(int) = init_by_array over the little-endian 32-bit words of |seed|) and
//! CPython's randbytes(n) = getrandbits(8n).to_bytes(n, 'little'): full 32-bit outputs little-endian, the last partial
//! word is the TOP 8*(n%4) bits of one more output.
struct PyMT {
    std::uint32_t mt[624];
    int idx;
    void init_genrand(std::uint32_t s) {
        mt[0] = s;
        for (int i = 1; i < 624; ++i) mt[i] = 1812433253U * (mt[i - 1] ^ (mt[i - 1] >> 30)) + std::uint32_t(i);
        idx = 624;
    }
    explicit PyMT(std::uint64_t seed) {
        std::uint32_t key[2] = {std::uint32_t(seed), std::uint32_t(seed >> 32)};
        std::size_t len = key[1] ? 2 : 1;
        init_genrand(19650218U);
        std::size_t i = 1, j = 0;
        for (std::size_t k = 624; k; --k) {
            mt[i] = (mt[i] ^ ((mt[i - 1] ^ (mt[i - 1] >> 30)) * 1664525U)) + key[j] + std::uint32_t(j);
            ++i, ++j;
            if (i >= 624) mt[0] = mt[623], i = 1;
            if (j >= len) j = 0;
        }
        for (std::size_t k = 623; k; --k) {
            mt[i] = (mt[i] ^ ((mt[i - 1] ^ (mt[i - 1] >> 30)) * 1566083941U)) - std::uint32_t(i);
            ++i;
            if (i >= 624) mt[0] = mt[623], i = 1;
        }
        mt[0] = 0x80000000U;
    }
    std::uint32_t next() {
        if (idx >= 624) {
            for (int k = 0; k < 624; ++k) {
                std::uint32_t y = (mt[k] & 0x80000000U) | (mt[(k + 1) % 624] & 0x7fffffffU);
                mt[k] = mt[(k + 397) % 624] ^ (y >> 1) ^ ((y & 1U) ? 0x9908b0dfU : 0U);
            }
            idx = 0;
        }
        std::uint32_t y = mt[idx++];
        y ^= y >> 11;
        y ^= (y << 7) & 0x9d2c5680U;
        y ^= (y << 15) & 0xefc60000U;
        y ^= y >> 18;
        return y;
    }
};

//! gen_bytes(seed, len); the last message is kept (consecutive requests hash the same message in different ways)
const std::vector<std::uint8_t>& gen_bytes(std::uint64_t seed, std::uint32_t len) {
    static std::vector<std::uint8_t> buf;
    static std::uint64_t have_seed = 0;
    static bool have = false;
    if (have && have_seed == seed && buf.size() == len) return buf;
    buf.assign(len, 0);
    PyMT g(seed);
    std::size_t full = len / 4, rest = len % 4;
    for (std::size_t w = 0; w < full; ++w) {
        std::uint32_t r = g.next();
        for (int b = 0; b < 4; ++b) buf[4 * w + std::size_t(b)] = std::uint8_t(r >> (8 * b));
    }
    if (rest) {
        std::uint32_t r = g.next() >> (32 - 8 * rest);
        for (std::size_t b = 0; b < rest; ++b) buf[4 * full + b] = std::uint8_t(r >> (8 * b));
    }
    have = true, have_seed = seed;
    return buf;
}

struct Chunk {
    std::uint32_t len;
    std::uint8_t style;
    const std::uint8_t* src;
};

template <typename Digest>
void feed(Digest& d, const Chunk& c) {
    if (c.style == 0) {
        Exact e(c.src, c.len);
        d.process(static_cast<const void*>(e.p), c.len);
    }
    else if (c.style == 1) {
        Exact e(c.src, c.len);
        d.process(tlx::string_view(reinterpret_cast<const char*>(e.p), c.len));
    }
    else {
        std::string s(reinterpret_cast<const char*>(c.src), c.len);
        d.process(s);
    }
}

template <typename Digest>
std::string finish(Digest& d, int form) {
    switch (form) {
    case 0: return d.digest();
    case 1: return d.digest_hex();
    case 2: return d.digest_hex_uc();
    default: {
        std::uint8_t* out = static_cast<std::uint8_t*>(std::malloc(Digest::kDigestLength));
        std::memset(out, 0xAA, Digest::kDigestLength);
        d.finalize(out);
        std::string r(reinterpret_cast<const char*>(out), Digest::kDigestLength);
        std::free(out);
        return r;
    }
    }
}

template <typename Digest>
std::string run_object(int form, int ctor, const std::vector<Chunk>& chunks) {
    if (ctor == 0 || chunks.empty()) {
        Digest d;
        for (const Chunk& c : chunks) feed(d, c);
        return finish(d, form);
    }
    const Chunk& c0 = chunks[0];
    Exact e(c0.src, c0.len);
    if (ctor == 1) {
        Digest d(static_cast<const void*>(e.p), c0.len);
        for (size_t i = 1; i < chunks.size(); ++i) feed(d, chunks[i]);
        return finish(d, form);
    }
    Digest d(tlx::string_view(reinterpret_cast<const char*>(e.p), c0.len));
    for (size_t i = 1; i < chunks.size(); ++i) feed(d, chunks[i]);
    return finish(d, form);
}

typedef std::string (*HelperPtr)(const void*, std::uint32_t);

std::string run_helper(int algo, int form, const std::uint8_t* msg, std::uint32_t len) {
    static const HelperPtr lc_p[4] = {
        static_cast<HelperPtr>(&tlx::md5_hex), static_cast<HelperPtr>(&tlx::sha1_hex),
        static_cast<HelperPtr>(&tlx::sha256_hex), static_cast<HelperPtr>(&tlx::sha512_hex)};
    static const HelperPtr uc_p[4] = {
        static_cast<HelperPtr>(&tlx::md5_hex_uc), static_cast<HelperPtr>(&tlx::sha1_hex_uc),
        static_cast<HelperPtr>(&tlx::sha256_hex_uc), static_cast<HelperPtr>(&tlx::sha512_hex_uc)};
    if (form == 4 || form == 6) {
        Exact e(msg, len);
        return (form == 4 ? lc_p : uc_p)[algo](static_cast<const void*>(e.p), len);
    }
    std::string s(reinterpret_cast<const char*>(msg), len);
    // std::string -> tlx::string_view implicit conversion, as a user would call sha256_hex(str)
    switch (algo * 2 + (form == 7)) {
    case 0: return tlx::md5_hex(s);
    case 1: return tlx::md5_hex_uc(s);
    case 2: return tlx::sha1_hex(s);
    case 3: return tlx::sha1_hex_uc(s);
    case 4: return tlx::sha256_hex(s);
    case 5: return tlx::sha256_hex_uc(s);
    case 6: return tlx::sha512_hex(s);
    default: return tlx::sha512_hex_uc(s);
    }
}

std::string do_digest(const std::uint8_t* p, std::uint32_t n, bool generated) {
    if (n < 8) bad("short digest header");
    int algo = p[1], form = p[2], ctor = p[3];
    if (algo > 3 || form > 7 || ctor > 2) bad("digest selector");
    std::uint32_t nch = rd32(p + 4);
    if (std::uint64_t(nch) * 5 + 8 > n) bad("chunk table");
    const std::uint8_t* tab = p + 8;
    const std::uint8_t* msg = tab + std::size_t(nch) * 5;
    std::uint32_t mlen = n - 8 - nch * 5;
    if (generated) {
        if (mlen != 12) bad("generated-message trailer");
        const std::vector<std::uint8_t>& g = gen_bytes(rd64(msg), rd32(msg + 8));
        static const std::uint8_t none = 0;
        mlen = static_cast<std::uint32_t>(g.size());
        msg = g.empty() ? &none : g.data();
    }
    if (form >= 4) return run_helper(algo, form, msg, mlen);
    std::vector<Chunk> chunks;
    chunks.reserve(nch);
    std::uint64_t pos = 0;
    for (std::uint32_t i = 0; i < nch; ++i) {
        std::uint32_t len = rd32(tab + 5 * std::size_t(i));
        std::uint8_t style = tab[5 * std::size_t(i) + 4];
        if (style > 2) bad("chunk style");
        if (pos + len > mlen) bad("chunk lengths exceed message");
        chunks.push_back(Chunk{len, style, msg + pos});
        pos += len;
    }
    if (pos != mlen) bad("chunk lengths do not cover message");
    switch (algo) {
    case 0: return run_object<tlx::MD5>(form, ctor, chunks);
    case 1: return run_object<tlx::SHA1>(form, ctor, chunks);
    case 2: return run_object<tlx::SHA256>(form, ctor, chunks);
    default: return run_object<tlx::SHA512>(form, ctor, chunks);
    }
}

//! block of `off + len` bytes (16-aligned start from malloc); payload occupies the last `len` bytes
struct Placed {
    std::uint8_t* base;
    std::uint8_t* p;
    Placed(const std::uint8_t* src, std::size_t len, std::size_t off)
        : base(static_cast<std::uint8_t*>(std::malloc(off + len))), p(base + off) {
        if (off) std::memset(base, 0xEE, off);
        if (len) std::memcpy(p, src, len);
    }
    Placed(const Placed&) = delete;
    ~Placed() { std::free(base); }
};

void put64(std::string& out, std::uint64_t v) {
    for (int i = 0; i < 8; ++i) out.push_back(static_cast<char>((v >> (8 * i)) & 0xff));
}

std::string do_siphash(const std::uint8_t* p, std::uint32_t n) {
    if (n < 20) bad("short siphash header");
    int variant = p[1];
    std::size_t moff = p[2], koff = p[3];
    if (variant > 7 || moff > 15 || koff > 15) bad("siphash selector");
    std::size_t len = n - 20;
    Placed key(p + 4, 16, koff);
    Placed msg(p + 20, len, moff);
    std::string out;
    switch (variant) {
    case 0: put64(out, tlx::siphash_plain(key.p, msg.p, len)); break;
    case 1:
#if defined(__SSE2__)
        put64(out, tlx::siphash_sse2(key.p, msg.p, len));
#endif
        break;
    case 2: put64(out, tlx::siphash(key.p, msg.p, len)); break;
    case 3: put64(out, tlx::siphash(static_cast<const std::uint8_t*>(msg.p), len)); break;
    case 4: put64(out, tlx::siphash(reinterpret_cast<const char*>(msg.p), len)); break;
    case 5: put64(out, tlx::siphash(tlx::string_view(reinterpret_cast<const char*>(msg.p), len))); break;
    case 7: {
        std::string str(reinterpret_cast<const char*>(msg.p), len);
        put64(out, tlx::siphash(str));
        break;
    }
    default:
        put64(out, tlx::siphash_plain(key.p, msg.p, len));
#if defined(__SSE2__)
        put64(out, tlx::siphash_sse2(key.p, msg.p, len));
#else
        put64(out, tlx::siphash_plain(key.p, msg.p, len));
#endif
        put64(out, tlx::siphash(key.p, msg.p, len));
        break;
    }
    return out;
}

bool read_all(void* dst, std::size_t n) { return n == 0 || std::fread(dst, 1, n, stdin) == n; }

} // namespace

int main() {
    std::vector<std::uint8_t> buf;
    for (;;) {
        std::uint8_t hdr[4];
        if (std::fread(hdr, 1, 4, stdin) != 4) return 0; // EOF
        std::uint32_t n = rd32(hdr);
        if (n == 0 || n > (64u << 20)) bad("request size");
        buf.resize(n);
        if (!read_all(buf.data(), n)) bad("truncated request");
        std::string out;
        switch (buf[0]) {
        case 'I':
#if defined(__SSE2__)
            out.assign(1, '\1');
#else
            out.assign(1, '\0');
#endif
            break;
        case 'D': out = do_digest(buf.data(), n, false); break;
        case 'G': out = do_digest(buf.data(), n, true); break;
        case 'P': {
            if (n != 13) bad("probe");
            const std::vector<std::uint8_t>& g = gen_bytes(rd64(buf.data() + 1), rd32(buf.data() + 9));
            out.assign(reinterpret_cast<const char*>(g.data()), g.size());
            break;
        }
        case 'S': out = do_siphash(buf.data(), n); break;
        default: bad("kind");
        }
        std::uint32_t m = static_cast<std::uint32_t>(out.size());
        std::uint8_t oh[4] = {std::uint8_t(m), std::uint8_t(m >> 8), std::uint8_t(m >> 16), std::uint8_t(m >> 24)};
        std::fwrite(oh, 1, 4, stdout);
        if (m) std::fwrite(out.data(), 1, m, stdout);
        std::fflush(stdout);
    }
}
