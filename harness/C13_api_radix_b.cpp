// C13 (api, part 3) — target radix_api, configurations 3..5 (records with a stateful key functor; key types long long,
// char, unsigned long long; make_radix_heap with an lvalue and an rvalue functor)
#include "C13_api_radix_impl.hpp"

void c13_radix_api_hi(pbt::Source& src, unsigned cfg, const char* name) {
    switch (cfg) {
    case 3: {
        KeyOfRec<long long> fn{4711}; // outlives every heap of the history: the heaps hold a REFERENCE to it
        typedef decltype(tlx::make_radix_heap<Rec<long long>, 16>(fn)) H;
        static_assert(std::is_same<H::key_type, long long>::value, "key type deduced from the functor's return type");
        history<H, RecP<long long>>(src, [&fn] { return tlx::make_radix_heap<Rec<long long>, 16>(fn); }, 16, name);
        break;
    }
    case 4: {
        typedef decltype(tlx::make_radix_heap<Rec<char>, 2>(KeyOfRec<char>{4711})) H;
        static_assert(std::is_same<H::key_type, char>::value, "key type deduced from the functor's return type");
        history<H, RecP<char>>(src, [] { return tlx::make_radix_heap<Rec<char>, 2>(KeyOfRec<char>{4711}); }, 2, name);
        break;
    }
    default: {
        typedef tlx::RadixHeap<Rec<unsigned long long>, KeyOfRec<unsigned long long>, unsigned long long, 32> H;
        history<H, RecP<unsigned long long>>(src, [] { return H(KeyOfRec<unsigned long long>{4711}); }, 32, name);
        break;
    }
    }
}
