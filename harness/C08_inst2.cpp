// C08 oracle instantiation: int / KProj
#include "C08_common.hpp"
namespace c08 {
void run_cfg2(int rsel, bool ptr, const std::vector<std::vector<int>>& keys, bool dp, bool ds, Stats& st) {
    disp_rank<int, KProj, false>(rsel, ptr, keys, dp, ds, st);
}
} // namespace c08
