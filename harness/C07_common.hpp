// C07 — parallel multiway merge equals the sequential merge for every thread
// count: shared generator + oracle (templated on element type and Stable).
// One TU per (element type, stable) instantiates run_case<> so that the
// template matrix compiles in parallel.  Real std::threads are used; the same
// sources are built as flavour R (ASan/UBSan: results) and T (TSan: races).
//
// Elements of the record type are (key, seq, pos, tag) compared BY KEY ONLY so
// that stability and "which element went where" are observable.  The output of
// the record type goes through a counting iterator: one atomic counter per
// output index records every assignment, so "each of [0,length) written exactly
// once, nothing outside" is observed directly (DESIGN §4 C07).  The int type
// uses raw pointers into a guard-celled buffer (the memmove paths of std::copy).
#pragma once
#include "../engine/pbt.hpp"

#include <algorithm>
#include <atomic>
#include <cstdint>
#include <cstring>
#include <deque>
#include <functional>
#include <iterator>
#include <memory>
#include <string>
#include <utility>
#include <vector>

#include <tlx/algorithm/parallel_multiway_merge.hpp>

namespace c07 {

//! selectors drawn first by the dispatcher in C07_main.cpp
struct Cfg {
    int entry;        // 0 (stable_)parallel_multiway_merge, 1 ..._sentinels, 2 parallel_multiway_merge_base<Stable>
    int alg;          // index into ALG
    bool sampling;    // MWMSA_SAMPLING instead of MWMSA_EXACT
    int threads;      // 1..32 (scale target: 1..64)
    int oversampling; // parallel_multiway_merge_oversampling (scale target: 1..1200)
    int gate;         // 0 force_parallel, 1 default gating (big input), 2 force_sequential, 3 custom minimal_k / minimal_n
    int mink, minn;   // for gate == 3
    bool desc;        // comparator direction
    // ---- only used by the scale target (pmerge_scale); 0 = the classic generator, byte mapping unchanged
    int scale = 0;    // 1 many sequences, 2 big chunks, 3 very many very short sequences, 4 sparse (threads > total)
    int mink_rel = 0; // scale && gate == 3: minimal_k relative to the number of sequences: 0 k, 1 k+1, 2 k-1, 3 -> 1
    int minn_rel = 0; // scale && gate == 3: minimal_n relative to the requested length: 0 length, 1 length+1, 2 length-1, 3 -> 0
};

//! scale target: upper bound on num_seqs(non-empty) * threads * oversampling (cost bound for the sampling splitter's
//! sample array; the generator lowers the oversampling factor, then the thread count, until the product fits)
static const long SAMPLE_BUDGET[3] = {40000, 300000, 1300000};
static const int OS_LIST[7] = {1, 2, 10, 33, 100, 300, 1000};

void run_rec_s(pbt::Source& src, const Cfg& cfg);
void run_rec_u(pbt::Source& src, const Cfg& cfg);
void run_int_s(pbt::Source& src, const Cfg& cfg);
void run_int_u(pbt::Source& src, const Cfg& cfg);
// target pmerge_iters (C07_it_*.cpp): `kind` selects the (input iterator kind, output iterator kind), see ITK_LABEL
void run_it_rec_s(pbt::Source& src, const Cfg& cfg, int kind);
void run_it_rec_u(pbt::Source& src, const Cfg& cfg, int kind);
void run_it_recs_s(pbt::Source& src, const Cfg& cfg, int kind);
void run_it_recs_u(pbt::Source& src, const Cfg& cfg, int kind);
// ... kinds 2, 3 (second half of the template matrix, own TUs: C07_it_*_b.cpp)
void run_it_rec_s_b(pbt::Source& src, const Cfg& cfg, int kind);
void run_it_rec_u_b(pbt::Source& src, const Cfg& cfg, int kind);
void run_it_recs_s_b(pbt::Source& src, const Cfg& cfg, int kind);
void run_it_recs_u_b(pbt::Source& src, const Cfg& cfg, int kind);

static const tlx::MultiwayMergeAlgorithm ALG[4] = {tlx::MWMA_LOSER_TREE_COMBINED, tlx::MWMA_LOSER_TREE, tlx::MWMA_LOSER_TREE_SENTINEL,
                                                   tlx::MWMA_BUBBLE};
static const char* const ALG_NAME[4] = {"MWMA_LOSER_TREE_COMBINED", "MWMA_LOSER_TREE", "MWMA_LOSER_TREE_SENTINEL", "MWMA_BUBBLE"};
static const char* const ALG_LABEL[4] = {"alg=combined", "alg=loser_tree", "alg=sentinel", "alg=bubble"};

inline void reset_globals() {
    tlx::parallel_multiway_merge_force_sequential = false;
    tlx::parallel_multiway_merge_force_parallel = false;
    tlx::parallel_multiway_merge_minimal_k = 2;
    tlx::parallel_multiway_merge_minimal_n = 1000;
    tlx::parallel_multiway_merge_oversampling = 10;
}

// ---------------------------------------------------------------- element types

struct Rec {
    int32_t key;
    int32_t seq;
    int32_t pos;
    int32_t tag;
};
static_assert(sizeof(Rec) == 16, "Rec is 16 bytes");

//! record owning a std::string longer than the small-string buffer (non-trivial copy, destructive move): a merge that
//! moves from the inputs, or keeps using a moved-from temporary, shows up as wrong contents (target pmerge_iters)
struct RecS {
    int32_t key = 0;
    int32_t seq = 0;
    int32_t pos = 0;
    std::string tag;
};

static const int POISON_KEY = -2000000007;

template <class E>
struct Tr;
template <>
struct Tr<int> {
    static constexpr bool ident = false;
    static constexpr const char* name = "int";
    static int make(int key, int, int) { return key; }
    static int key(const int& e) { return e; }
    static int seq(const int&) { return -1; }
    static int pos(const int&) { return -1; }
    static bool same(const int& a, const int& b) { return a == b; }
};
template <>
struct Tr<Rec> {
    static constexpr bool ident = true;
    static constexpr const char* name = "rec";
    static Rec make(int key, int seq, int pos) { return Rec{key, seq, pos, seq * 31 + pos * 7 + 1}; }
    static int key(const Rec& e) { return e.key; }
    static int seq(const Rec& e) { return e.seq; }
    static int pos(const Rec& e) { return e.pos; }
    static bool same(const Rec& a, const Rec& b) { return a.key == b.key && a.pos == b.pos && a.seq == b.seq && a.tag == b.tag; }
};

template <>
struct Tr<RecS> {
    static constexpr bool ident = true;
    static constexpr const char* name = "recs(owning std::string)";
    static RecS make(int key, int seq, int pos) {
        RecS r;
        r.key = key, r.seq = seq, r.pos = pos;
        r.tag = "key=" + std::to_string(key) + ";seq=" + std::to_string(seq) + ";pos=" + std::to_string(pos) + ";pad-beyond-the-sso-buffer";
        return r;
    }
    static int key(const RecS& e) { return e.key; }
    static int seq(const RecS& e) { return e.seq; }
    static int pos(const RecS& e) { return e.pos; }
    static bool same(const RecS& a, const RecS& b) { return a.key == b.key && a.pos == b.pos && a.seq == b.seq && a.tag == b.tag; }
};

//! stateful comparator by key only; used concurrently by the merge threads (read-only state)
template <class E>
struct DirCmp {
    bool desc;
    int salt; // must stay != 0 in every copy the library makes
    explicit DirCmp(bool d) : desc(d), salt(0x5a17) {}
    DirCmp() : desc(false), salt(0) {}
    bool operator()(const E& a, const E& b) const {
        if (salt != 0x5a17) pbt::fatal("C07/comparator-lost", "merge used a comparator that is not a copy of the one passed");
        return desc ? Tr<E>::key(b) < Tr<E>::key(a) : Tr<E>::key(a) < Tr<E>::key(b);
    }
};

//! comparator OWNING state with a non-trivial copy / move (target pmerge_iters): direction in a heap vector, key
//! projection in a std::function, a std::string longer than the small-string buffer as canary. Read-only use from the
//! merge threads; a moved-from or default-constructed copy being called is C07/comparator-lost.
template <class E>
struct OwnCmp {
    std::string canary;
    std::vector<signed char> dir;
    std::function<int(const E&)> proj;
    static const char* expected() { return "C07-owning-comparator-canary-longer-than-sso"; }
    explicit OwnCmp(bool d) : canary(expected()), dir(1, (signed char)d), proj([](const E& e) { return Tr<E>::key(e); }) {}
    OwnCmp() = default;
    bool operator()(const E& a, const E& b) const {
        if (canary != expected() || dir.size() != 1 || !proj)
            pbt::fatal("C07/comparator-lost", "merge used a comparator that is not a (live) copy of the one passed: moved-from or default-constructed");
        return dir[0] ? proj(b) < proj(a) : proj(a) < proj(b);
    }
};

// ---------------------------------------------------------------- counting output iterator

template <class E>
struct OutBuf {
    std::vector<E> data;                         // G guard cells, length cells, G guard cells
    std::unique_ptr<std::atomic<unsigned>[]> cnt; // assignments per cell
    std::ptrdiff_t G = 0;
    std::atomic<long> outside{0}; // assignments outside [ -G, length+G )
    std::atomic<long> first_outside{0};
    OutBuf(std::ptrdiff_t length, std::ptrdiff_t guard, const E& poison) : data((size_t)(length + 2 * guard), poison), G(guard) {
        cnt.reset(new std::atomic<unsigned>[data.size()]);
        for (size_t i = 0; i < data.size(); ++i) cnt[i].store(0, std::memory_order_relaxed);
    }
    void store(std::ptrdiff_t i, const E& v) {
        std::ptrdiff_t idx = i + G;
        if (idx < 0 || idx >= (std::ptrdiff_t)data.size()) {
            if (outside.fetch_add(1, std::memory_order_relaxed) == 0) first_outside.store((long)i, std::memory_order_relaxed);
            return;
        }
        cnt[(size_t)idx].fetch_add(1, std::memory_order_relaxed);
        data[(size_t)idx] = v; // plain store: two threads writing one cell is a data race TSan sees
    }
    void layout(uint64_t) {}
    const E& cell(size_t idx) const { return data[idx]; } // idx counts from the first guard cell
};

//! plain (non-counting) output buffer in an arbitrary container, written through the container's own iterators or
//! reverse iterators (target pmerge_iters): guard cells on both sides, deque begin moved off the block start
template <class E, class Cont, bool Rev>
struct OutBufC {
    Cont data; // G guard cells, length cells, G guard cells (Rev: stored back to front)
    std::unique_ptr<std::atomic<unsigned>[]> cnt; // unused (null): keeps the oracle code uniform
    std::ptrdiff_t G = 0;
    std::atomic<long> outside{0};
    std::atomic<long> first_outside{0};
    E poison;
    OutBufC(std::ptrdiff_t length, std::ptrdiff_t guard, const E& p) : data((size_t)(length + 2 * guard), p), G(guard), poison(p) {}
    void layout(uint64_t salt) {
        if constexpr (std::is_same<Cont, std::deque<E>>::value) {
            const size_t blk = std::max<size_t>(1, 512 / sizeof(E)), off = (size_t)(salt % (blk + 3)), n = data.size();
            Cont d(n + off, poison);
            for (size_t j = 0; j < off; ++j) Rev ? d.pop_back() : d.pop_front();
            data.swap(d);
        }
    }
    const E& cell(size_t idx) const { return Rev ? data[data.size() - 1 - idx] : data[idx]; }
};

template <class E>
class CountIt {
public:
    struct Proxy {
        OutBuf<E>* b;
        std::ptrdiff_t i;
        const Proxy& operator=(const E& v) const {
            b->store(i, v);
            return *this;
        }
        const Proxy& operator=(const Proxy& o) const { // never used by the merges; keeps the type assignable
            b->store(i, o.b->data[(size_t)(o.i + o.b->G)]);
            return *this;
        }
    };
    typedef std::random_access_iterator_tag iterator_category;
    typedef E value_type;
    typedef std::ptrdiff_t difference_type;
    typedef void pointer;
    typedef Proxy reference;

    CountIt() : b_(nullptr), i_(0) {}
    CountIt(OutBuf<E>* b, std::ptrdiff_t i) : b_(b), i_(i) {}
    Proxy operator*() const { return Proxy{b_, i_}; }
    Proxy operator[](std::ptrdiff_t n) const { return Proxy{b_, i_ + n}; }
    CountIt& operator++() { ++i_; return *this; }
    CountIt operator++(int) { CountIt t = *this; ++i_; return t; }
    CountIt& operator--() { --i_; return *this; }
    CountIt operator--(int) { CountIt t = *this; --i_; return t; }
    CountIt& operator+=(std::ptrdiff_t n) { i_ += n; return *this; }
    CountIt& operator-=(std::ptrdiff_t n) { i_ -= n; return *this; }
    friend CountIt operator+(CountIt a, std::ptrdiff_t n) { return CountIt(a.b_, a.i_ + n); }
    friend CountIt operator+(std::ptrdiff_t n, CountIt a) { return CountIt(a.b_, a.i_ + n); }
    friend CountIt operator-(CountIt a, std::ptrdiff_t n) { return CountIt(a.b_, a.i_ - n); }
    friend std::ptrdiff_t operator-(const CountIt& a, const CountIt& b) { return a.i_ - b.i_; }
    friend bool operator==(const CountIt& a, const CountIt& b) { return a.i_ == b.i_; }
    friend bool operator!=(const CountIt& a, const CountIt& b) { return a.i_ != b.i_; }
    friend bool operator<(const CountIt& a, const CountIt& b) { return a.i_ < b.i_; }
    friend bool operator>(const CountIt& a, const CountIt& b) { return a.i_ > b.i_; }
    friend bool operator<=(const CountIt& a, const CountIt& b) { return a.i_ <= b.i_; }
    friend bool operator>=(const CountIt& a, const CountIt& b) { return a.i_ >= b.i_; }
    std::ptrdiff_t index() const { return i_; }

private:
    OutBuf<E>* b_;
    std::ptrdiff_t i_;
};

//! per element type: input iterator kind and output iterator kind
template <class E>
struct IO;
template <>
struct IO<Rec> {
    typedef std::vector<Rec>::iterator In;
    typedef CountIt<Rec> Out;
    typedef std::vector<Rec> Store;
    typedef OutBuf<Rec> OB;
    typedef DirCmp<Rec> Cmp;
    static constexpr bool counting = true;
    static constexpr const char* label = nullptr;
    static void fill(Store& s, const std::vector<Rec>& logical, uint64_t) { s = logical; }
    static const Rec& at(const Store& s, size_t j) { return s[j]; }
    static In begin(std::vector<Rec>& v) { return v.begin(); }
    static Out target(OutBuf<Rec>& b) { return Out(&b, 0); }
    static std::ptrdiff_t ret_index(const Out& r, OutBuf<Rec>&) { return r.index(); }
};
template <>
struct IO<int> {
    typedef int* In;
    typedef int* Out;
    typedef std::vector<int> Store;
    typedef OutBuf<int> OB;
    typedef DirCmp<int> Cmp;
    static constexpr bool counting = false;
    static constexpr const char* label = nullptr;
    static void fill(Store& s, const std::vector<int>& logical, uint64_t) { s = logical; }
    static const int& at(const Store& s, size_t j) { return s[j]; }
    static In begin(std::vector<int>& v) { return v.data(); }
    static Out target(OutBuf<int>& b) { return b.data.data() + b.G; }
    static std::ptrdiff_t ret_index(const Out& r, OutBuf<int>& b) { return r - (b.data.data() + b.G); }
};

// ---- iterator kinds of target pmerge_iters (any element type E); the comparator is the owning one
static constexpr const char* const ITK_LABEL[4] = {"in=deque,out=counting", "in=reverse_vector,out=counting", "in=vector,out=deque", "in=deque,out=reverse_vector"};

//! std::deque storage whose begin is (usually) not at a block start
template <class E>
struct DequeStore {
    std::deque<E> d;
    size_t off = 0;
    void fill(const std::vector<E>& logical, uint64_t salt) {
        const size_t blk = std::max<size_t>(1, 512 / sizeof(E));
        off = (size_t)(salt % (blk + 3));
        if ((salt >> 20) & 1) {
            for (size_t j = logical.size(); j-- > 0;) d.push_front(logical[j]);
            for (size_t j = 0; j < off; ++j) d.push_front(logical.empty() ? E() : logical[0]);
        } else {
            for (size_t j = 0; j < off; ++j) d.push_back(logical.empty() ? E() : logical[0]);
            for (const E& e : logical) d.push_back(e);
        }
        for (size_t j = 0; j < off; ++j) d.pop_front();
    }
};
//! inputs in std::deque, output through the counting iterator
template <class E>
struct IODequeIn {
    typedef typename std::deque<E>::iterator In;
    typedef CountIt<E> Out;
    typedef DequeStore<E> Store;
    typedef OutBuf<E> OB;
    typedef OwnCmp<E> Cmp;
    static constexpr bool counting = true;
    static constexpr const char* label = ITK_LABEL[0];
    static void fill(Store& s, const std::vector<E>& logical, uint64_t salt) { s.fill(logical, salt); }
    static const E& at(const Store& s, size_t j) { return s.d[j]; }
    static In begin(Store& s) { return s.d.begin(); }
    static Out target(OB& b) { return Out(&b, 0); }
    static std::ptrdiff_t ret_index(const Out& r, OB&) { return r.index(); }
};
//! inputs read through std::reverse_iterator over a vector holding the sequence back to front (the vector is sorted
//! descending w.r.t. the comparator; a sentinel is physical element 0); output through the counting iterator
template <class E>
struct IORevIn {
    typedef std::reverse_iterator<typename std::vector<E>::iterator> In;
    typedef CountIt<E> Out;
    typedef std::vector<E> Store;
    typedef OutBuf<E> OB;
    typedef OwnCmp<E> Cmp;
    static constexpr bool counting = true;
    static constexpr const char* label = ITK_LABEL[1];
    static void fill(Store& s, const std::vector<E>& logical, uint64_t) { s.assign(logical.rbegin(), logical.rend()); }
    static const E& at(const Store& s, size_t j) { return s[s.size() - 1 - j]; }
    static In begin(Store& s) { return In(s.end()); }
    static Out target(OB& b) { return Out(&b, 0); }
    static std::ptrdiff_t ret_index(const Out& r, OB&) { return r.index(); }
};
//! inputs in vectors, output written through std::deque iterators (guard cells, begin off the block start)
template <class E>
struct IODequeOut {
    typedef typename std::vector<E>::iterator In;
    typedef typename std::deque<E>::iterator Out;
    typedef std::vector<E> Store;
    typedef OutBufC<E, std::deque<E>, false> OB;
    typedef OwnCmp<E> Cmp;
    static constexpr bool counting = false;
    static constexpr const char* label = ITK_LABEL[2];
    static void fill(Store& s, const std::vector<E>& logical, uint64_t) { s = logical; }
    static const E& at(const Store& s, size_t j) { return s[j]; }
    static In begin(Store& s) { return s.begin(); }
    static Out target(OB& b) { return b.data.begin() + b.G; }
    static std::ptrdiff_t ret_index(const Out& r, OB& b) { return r - (b.data.begin() + b.G); }
};
//! inputs in std::deque, output written through std::reverse_iterator over a vector
template <class E>
struct IORevOut {
    typedef typename std::deque<E>::iterator In;
    typedef std::reverse_iterator<typename std::vector<E>::iterator> Out;
    typedef DequeStore<E> Store;
    typedef OutBufC<E, std::vector<E>, true> OB;
    typedef OwnCmp<E> Cmp;
    static constexpr bool counting = false;
    static constexpr const char* label = ITK_LABEL[3];
    static void fill(Store& s, const std::vector<E>& logical, uint64_t salt) { s.fill(logical, salt); }
    static const E& at(const Store& s, size_t j) { return s.d[j]; }
    static In begin(Store& s) { return s.d.begin(); }
    static Out target(OB& b) { return Out(b.data.end()) + b.G; }
    static std::ptrdiff_t ret_index(const Out& r, OB& b) { return r - (Out(b.data.end()) + b.G); }
};

// ---------------------------------------------------------------- the call

template <bool Stable, class SeqIt, class OutIt, class Cmp>
OutIt call_merge(const Cfg& cfg, SeqIt sb, SeqIt se, OutIt t, std::ptrdiff_t len, Cmp cmp) {
    using namespace tlx;
    const MultiwayMergeAlgorithm a = ALG[cfg.alg];
    const MultiwayMergeSplittingAlgorithm sp = cfg.sampling ? MWMSA_SAMPLING : MWMSA_EXACT;
    const size_t nt = (size_t)cfg.threads;
    if constexpr (Stable) {
        switch (cfg.entry) {
        case 0: return stable_parallel_multiway_merge(sb, se, t, len, cmp, a, sp, nt);
        case 1: return stable_parallel_multiway_merge_sentinels(sb, se, t, len, cmp, a, sp, nt);
        default: return parallel_multiway_merge_base<true>(sb, se, t, len, cmp, a, sp, nt);
        }
    } else {
        switch (cfg.entry) {
        case 0: return parallel_multiway_merge(sb, se, t, len, cmp, a, sp, nt);
        case 1: return parallel_multiway_merge_sentinels(sb, se, t, len, cmp, a, sp, nt);
        default: return parallel_multiway_merge_base<false>(sb, se, t, len, cmp, a, sp, nt);
        }
    }
}

inline uint64_t splitmix(uint64_t& s) {
    uint64_t z = (s += 0x9E3779B97F4A7C15ull);
    z = (z ^ (z >> 30)) * 0xBF58476D1CE4E5B9ull;
    z = (z ^ (z >> 27)) * 0x94D049BB133111EBull;
    return z ^ (z >> 31);
}

inline int draw_k(pbt::Source& src) {
    static const int K[11] = {3, 2, 4, 5, 1, 6, 7, 8, 9, 10, 0};
    // class 11: 17..40 sequences — more than the insertion-sort threshold (16) of std::sort, where the
    // order in which a library sort leaves equal keys starts to matter (seeded change seeded/C07)
    size_t c = src.weighted({16, 14, 10, 8, 5, 6, 5, 4, 4, 4, 2, 6});
    return c < 11 ? K[c] : (int)src.range(17, 40);
}

static const char* const ENTRY_NAME[2][3] = {
    {"parallel_multiway_merge", "parallel_multiway_merge_sentinels", "parallel_multiway_merge_base<false>"},
    {"stable_parallel_multiway_merge", "stable_parallel_multiway_merge_sentinels", "parallel_multiway_merge_base<true>"}};

// ---------------------------------------------------------------- one case

template <class E, bool Stable, class IOK = IO<E>>
void run_case(pbt::Source& src, const Cfg& cfg_in) {
    Cfg cfg = cfg_in; // the scale classes adjust threads / oversampling (cost bound) and minimal_k / minimal_n below
    using T = Tr<E>;
    using In = typename IOK::In;
    using Out = typename IOK::Out;
    const bool stable = Stable, sent = cfg.entry == 1, desc = cfg.desc;
    auto kless = [desc](int a, int b) { return desc ? b < a : a < b; };
    typename IOK::Cmp cmp(desc);

    // ---- shape
    const bool scale = cfg.scale != 0;
    const bool big = !scale && cfg.gate == 1; // default gating needs >= 1000 elements to reach the parallel code
    int k = scale ? 0 : big ? 2 + (int)src.range(0, 4) : draw_k(src);
    int scale_lencls = 0, scale_budget = 0;
    unsigned scale_emptyp = 0; // of 256
    long scale_target = 0;
    if (scale) {
        // scale classes: the shape is (class, a few parameters, 64-bit seed) expanded with a local PRNG
        switch (cfg.scale) {
        case 1: // many sequences: 41..400, short to medium
            k = (int)src.range(41, 400);
            scale_lencls = (int)src.weighted({5, 4, 3, 2}); // 1..3 | 0..8 | 0..40 | 0..150
            scale_emptyp = (unsigned)src.weighted({4, 2, 2}) * 38;    // 0, 15 %, 30 % empty
            break;
        case 2: // big chunks: 2..40 sequences, 20000..60000 elements in total
            k = (int)src.range(2, 40);
            scale_target = (long)src.range(20000, 60000);
            scale_lencls = (int)src.weighted({4, 2}); // 0 equal shares +-50 % | 1 one sequence holds about half
            scale_emptyp = src.chance(48) ? 40 : 0;
            break;
        case 3: // very many very short sequences
            k = (int)src.range(1000, 3000);
            scale_lencls = (int)src.weighted({3, 3, 2}); // 1 | 1..2 | 0..3
            scale_emptyp = (unsigned)src.weighted({4, 2, 2}) * 38;
            break;
        default: // sparse: 41..400 sequences most of which are empty, total around the thread count or below
            k = (int)src.range(41, 400);
            scale_target = (long)src.range(1, 2 * cfg.threads);
            break;
        }
        scale_budget = (int)src.weighted({3, 4, 1});
    }
    // classic: 0..7 -> 1..8 distinct values (heavy ties); 8,9 -> 1001 values. scale: 1001 | 2^20 | 1..8 values
    const int vsel = scale ? (int)src.weighted({5, 5, 2, 1, 1, 1, 1, 1, 1, 1}) : (int)src.range(0, 9);
    const int nvals = scale ? (vsel == 0 ? 1001 : vsel == 1 ? (1 << 20) : vsel - 1) : vsel < 8 ? vsel + 1 : 1001;
    size_t lenmode = scale ? src.weighted({8, 8, 1, 1, 2, 2}) : src.weighted({8, 6, 1, 2, 2, 3}); // total, uniform, 0, 1, total-1, around the thread count
    const int sentvary = (int)src.range(0, 2);
    const bool dominant = !scale && !big && src.chance(32);
    const bool prng_fill = scale || big || src.chance(48);
    const size_t emptymode = scale ? 0 : src.weighted({5, 3, 2});
    const unsigned emptyp = emptymode == 0 ? 0 : emptymode == 1 ? 12 : 72;
    uint64_t seed = scale ? src.bits(8) : (prng_fill || dominant) ? src.bits(4) : 0;
    const int scale_dom = scale ? (int)((seed >> 24) % (uint64_t)k) : -1;
    std::vector<int> n(k, 0);
    for (int i = 0; i < k; ++i) {
        if (scale) {
            uint64_t r = splitmix(seed);
            const unsigned e = (unsigned)(r & 255);
            r >>= 8;
            if (cfg.scale == 4) { // expected total = scale_target
                n[i] = (long)(r % (uint64_t)k) < scale_target ? 1 + (int)((r >> 32) % 8 == 0) : 0;
                continue;
            }
            if (e < scale_emptyp) continue;
            switch (cfg.scale) {
            case 1: n[i] = scale_lencls == 0 ? 1 + (int)(r % 3) : (int)(r % (scale_lencls == 1 ? 9 : scale_lencls == 2 ? 41 : 151)); break;
            case 2: {
                long share = std::max<long>(1, scale_target / k);
                n[i] = (int)(share / 2 + (long)(r % (uint64_t)(share + 1)));
                if (scale_lencls == 1) n[i] = i == scale_dom ? (int)(scale_target / 2) : n[i] / 2;
                break;
            }
            default: n[i] = scale_lencls == 0 ? 1 : scale_lencls == 1 ? 1 + (int)(r % 2) : (int)(r % 4); break;
            }
            continue;
        }
        if (big) {
            n[i] = 1000 / k + (int)(splitmix(seed) % 300);
            continue;
        }
        unsigned t = src.u8();
        if (t < emptyp) n[i] = 0;
        else {
            n[i] = t < 120 ? 1 + (int)(t % 4) : (int)((t - 120) % 31);
            if (emptymode == 0 && n[i] == 0) n[i] = 1;
        }
    }
    int dom = -1;
    if (dominant && k > 0) {
        dom = (int)src.index((size_t)k);
        n[dom] = (int)src.range(0, 300);
    }
    std::ptrdiff_t total = 0;
    for (int i = 0; i < k; ++i) total += n[i];
    int nonempty = 0;
    for (int i = 0; i < k; ++i) nonempty += n[i] > 0;
    bool os_lowered = false, threads_lowered = false;
    if (scale && cfg.sampling && nonempty > 0) {
        // cost bound: the sampling splitter allocates and sorts nonempty * threads(after clamping) * oversampling
        // elements; keep that below the drawn budget by lowering the (arbitrary, legal) oversampling factor first
        const long budget = SAMPLE_BUDGET[scale_budget];
        long te = std::max<long>(1, std::min<long>(cfg.threads, (long)total));
        if ((long)nonempty * te * cfg.oversampling > budget) {
            cfg.oversampling = (int)std::max<long>(1, budget / ((long)nonempty * te));
            os_lowered = true;
        }
        if ((long)nonempty * te * cfg.oversampling > budget) {
            cfg.threads = (int)std::max<long>(2, budget / nonempty);
            threads_lowered = true;
        }
    }

    // ---- keys: drawn, then sorted by the comparator
    std::vector<std::vector<int>> keys(k);
    int kmax = 0, kmin = 0;
    bool any = false;
    for (int i = 0; i < k; ++i) {
        keys[i].resize(n[i]);
        for (int j = 0; j < n[i]; ++j) {
            if (prng_fill || i == dom) keys[i][j] = (int)(splitmix(seed) % (uint64_t)nvals);
            else keys[i][j] = nvals <= 8 ? (int)(src.u8() % nvals) : (int)(src.bits(2) % 1001);
        }
        std::sort(keys[i].begin(), keys[i].end(), kless);
        for (int x : keys[i]) {
            if (!any || x > kmax) kmax = x;
            if (!any || x < kmin) kmin = x;
            any = true;
        }
    }

    // ---- length
    std::ptrdiff_t length = total;
    switch (lenmode) {
    case 0: length = total; break;
    case 1: length = (std::ptrdiff_t)src.range(0, total); break;
    case 2: length = 0; break;
    case 3: length = std::min<std::ptrdiff_t>(1, total); break;
    case 4: length = std::max<std::ptrdiff_t>(0, total - 1); break;
    default: length = std::max<std::ptrdiff_t>(0, std::min<std::ptrdiff_t>(total, cfg.threads + (std::ptrdiff_t)src.range(0, 2) - 1)); break;
    }
    if (big && lenmode != 0) { // both sides of the minimal_n gate
        static const std::ptrdiff_t L[4] = {1000, 999, 1001, 1500};
        length = std::min(total, L[src.range(0, 3)]);
    }

    if (scale && cfg.gate == 3) { // custom gating thresholds right at / next to the actual number of sequences and length
        cfg.mink = cfg.mink_rel == 0 ? k : cfg.mink_rel == 1 ? k + 1 : cfg.mink_rel == 2 ? std::max(0, k - 1) : 1;
        cfg.minn = (int)(cfg.minn_rel == 0 ? length : cfg.minn_rel == 1 ? length + 1 : cfg.minn_rel == 2 ? std::max<std::ptrdiff_t>(0, length - 1) : 0);
    }

    // ---- which path the front-ends take (replica of the documented gating), for labels / exclusion keys
    auto gate_parallel = [&]() {
        if (k == 0) return false;
        if (cfg.entry == 2) return true;
        if (cfg.gate == 2) return false;
        if (cfg.gate == 0) return true;
        size_t mk = cfg.gate == 3 ? (size_t)cfg.mink : 2, mn = cfg.gate == 3 ? (size_t)cfg.minn : 1000;
        return cfg.threads > 1 && (size_t)k >= mk && (size_t)length >= mn;
    };
    bool par = gate_parallel() && total > 0;

    // known-finding exclusion keys: the generator avoids exactly the listed shape
    if (par && cfg.sampling && length < total && pbt::excluded("C07/sampling-partial")) length = total;
    if (par && length == 0 && pbt::excluded("C07/length-zero")) length = std::min<std::ptrdiff_t>(1, total);
    if (par && !cfg.sampling && length < total && std::min<std::ptrdiff_t>(cfg.threads, total) == 1 &&
        pbt::excluded("C07/exact-one-thread-partial"))
        length = total;
    par = gate_parallel() && total > 0;
    const std::ptrdiff_t teff = par ? std::min<std::ptrdiff_t>(cfg.threads, total) : 1; // threads after clamping

    // ---- build the inputs: the logical cells, then one store per sequence (vector kinds: one exact-size heap block
    // per sequence, ASan red zone right behind it; pmerge_iters: deque / reversed vector, see the IO kinds)
    std::vector<std::vector<E>> orig(k);
    for (int i = 0; i < k; ++i) {
        orig[i].resize((size_t)n[i] + (sent ? 1 : 0));
        for (int j = 0; j < n[i]; ++j) orig[i][j] = T::make(keys[i][j], i, j);
        if (sent) {
            // documented precondition of the *_sentinels entry points: one more element behind each
            // sequence that is strictly greater (w.r.t. the comparator) than every real element
            int off = (i * sentvary) % 3;
            int sk = desc ? kmin - 1 - off : kmax + 1 + off;
            orig[i][n[i]] = T::make(sk, i, n[i]);
        }
    }
    uint64_t layout = seed ^ ((uint64_t)total << 20) ^ ((uint64_t)k << 8) ^ (uint64_t)cfg.threads; // lay-out only (deque offsets)
    std::vector<typename IOK::Store> bufs(k);
    for (int i = 0; i < k; ++i) IOK::fill(bufs[i], orig[i], splitmix(layout) >> 8);
    std::vector<std::pair<In, In>> seqs(k);
    std::vector<In> base(k);
    for (int i = 0; i < k; ++i) {
        base[i] = IOK::begin(bufs[i]);
        seqs[i] = std::make_pair(base[i], base[i] + n[i]);
    }

    // ---- output
    const std::ptrdiff_t G = 3;
    const E poison = T::make(POISON_KEY, 250, 60000);
    typename IOK::OB ob(length, G, poison);
    ob.layout(splitmix(layout) >> 8);
    Out target = IOK::target(ob);

    // reference: stable merge by (key, seq, pos)
    struct RefE {
        int key, seq, pos;
    };
    std::vector<RefE> ref;
    ref.reserve((size_t)total);
    for (int i = 0; i < k; ++i)
        for (int j = 0; j < n[i]; ++j) ref.push_back(RefE{keys[i][j], i, j});
    std::stable_sort(ref.begin(), ref.end(), [&](const RefE& a, const RefE& b) { return kless(a.key, b.key); });

    // ---- labels / non-triviality
    bool shared_key = false;
    {
        std::vector<std::pair<int, int>> ks; // (key, seq)
        for (int i = 0; i < k; ++i)
            for (int x : keys[i])
                if (ks.empty() || ks.back() != std::make_pair(x, i)) ks.emplace_back(x, i);
        std::sort(ks.begin(), ks.end());
        for (size_t i = 1; i < ks.size(); ++i) shared_key = shared_key || ks[i].first == ks[i - 1].first;
    }
    // exact splitting: ranks requested from multisequence_partition (replica of equally_split) and whether one of
    // them cuts a run of equal keys that spans >= 2 sequences
    bool cut_dup = false, cut_dup_multi = false;
    if (par && teff >= 2 && length > 0) {
        std::ptrdiff_t chunk = length / teff, split = length % teff, start = 0;
        for (std::ptrdiff_t i = 0; i < teff; ++i) {
            if (i > 0 && start > 0 && start < total && ref[(size_t)start - 1].key == ref[(size_t)start].key) {
                cut_dup = true;
                int key = ref[(size_t)start].key, first_seq = -1;
                for (const RefE& r : ref)
                    if (r.key == key) {
                        if (first_seq < 0) first_seq = r.seq;
                        else if (r.seq != first_seq) cut_dup_multi = true;
                    }
            }
            start += i < split ? chunk + 1 : chunk;
            if (start >= length) start = length - 1;
        }
    }
    if (!scale) pbt::label(k == 0 ? "k=0" : k == 1 ? "k=1" : k == 2 ? "k=2" : k <= 4 ? "k=3..4" : "k=5..10");
    else pbt::label(k <= 40 ? "k=2..40" : k <= 99 ? "k=41..99" : k <= 400 ? "k=100..400" : "k=1000..3000");
    pbt::label(ALG_LABEL[cfg.alg]);
    pbt::label(stable ? "stable" : "unstable");
    pbt::label(cfg.entry == 0 ? "entry=frontend" : cfg.entry == 1 ? "entry=frontend_sentinels" : "entry=base");
    pbt::label(cfg.sampling ? "split=sampling" : "split=exact");
    pbt::label(desc ? "cmp=greater" : "cmp=less");
    if (IOK::label == nullptr) pbt::label(T::ident ? "type=rec/counting_out" : "type=int/raw_out");
    else {
        pbt::label(IOK::label);
        pbt::label(std::is_same<E, Rec>::value ? "type=rec16" : "type=recs_owning_string");
        pbt::label("cmp_owning_state");
        const int blk = (int)std::max<size_t>(1, 512 / sizeof(E));
        int longseqs = 0;
        for (int i = 0; i < k; ++i) longseqs += n[i] > blk;
        if (longseqs >= 1) pbt::label("seq_longer_than_512B_block");
        if (longseqs >= 2) pbt::label("2+_seqs_longer_than_block");
        if (length > blk) pbt::label("output_longer_than_512B_block");
    }
    pbt::label(cfg.gate == 0 ? "gate=force_parallel" : cfg.gate == 1 ? "gate=default(big)" : cfg.gate == 2 ? "gate=force_sequential" : "gate=custom_min_k_n");
    pbt::label(par ? "path=parallel" : "path=sequential");
    pbt::label(cfg.threads == 1 ? "threads=1" : cfg.threads == 2 ? "threads=2" : cfg.threads <= 4 ? "threads=3..4" : cfg.threads <= 8 ? "threads=5..8" : cfg.threads <= 16 ? "threads=9..16" : cfg.threads <= 32 ? "threads=17..32" : cfg.threads <= 48 ? "threads=33..48" : "threads=49..64");
    if (par) {
        if (cfg.threads > total) pbt::label("threads>total");
        if (cfg.threads > length && length > 0) pbt::label("threads>length");
        if (teff == 1) pbt::label("one_thread_after_clamping");
        if (length < total) pbt::label(cfg.sampling ? "parallel_partial_sampling" : "parallel_partial_exact");
        if (length == 0) pbt::label("parallel_length=0");
        if (cfg.sampling && !scale) pbt::label(cfg.oversampling == 1 ? "oversampling=1" : cfg.oversampling == 2 ? "oversampling=2" : cfg.oversampling == 3 ? "oversampling=3" : "oversampling=10");
        if (cfg.sampling && scale) {
            const int o = cfg.oversampling;
            pbt::label(o == 1 ? "oversampling=1" : o == 2 ? "oversampling=2" : o < 10 ? "oversampling=3..9" : o == 10 ? "oversampling=10" : o < 100 ? "oversampling=11..99" : o < 300 ? "oversampling=100..299" : o < 1000 ? "oversampling=300..999" : "oversampling>=1000");
            const long S = (long)nonempty * (long)teff * o; // size of the splitter's sample array
            pbt::label(S <= (1 << 15) ? "samples<=2^15" : S <= (1 << 17) ? "samples=2^15..2^17" : S <= (1 << 20) ? "samples=2^17..2^20" : "samples>2^20");
            if (os_lowered) pbt::label("oversampling_lowered_to_budget");
            if (threads_lowered) pbt::label("threads_lowered_to_budget");
        }
        if (scale && length / teff >= 1000) pbt::label("chunk>=1000_per_thread");
        if (cut_dup) pbt::label("exact_rank_cuts_equal_run");
        if (cut_dup_multi) pbt::label("exact_rank_cuts_equal_run_in>=2_seqs");
    }
    if (length < total) pbt::label("partial");
    if (length == total && total > 0) pbt::label("length=total");
    if (nonempty < k) pbt::label("has_empty_seq");
    if (k >= 1 && nonempty == 0) pbt::label("all_seqs_empty");
    if (dominant && k > 0) pbt::label("dominant_seq");
    if (k >= 17 && !scale) pbt::label("k>=17");
    if (scale) {
        pbt::label(cfg.scale == 1 ? "scale=many_seqs" : cfg.scale == 2 ? "scale=big_chunks" : cfg.scale == 3 ? "scale=very_many_very_short_seqs" : "scale=sparse(total~threads)");
        pbt::label(total < 2000 ? "total<2000" : total < 20000 ? "total=2000..19999" : "total>=20000");
        if (cfg.gate == 3 && cfg.entry != 2) {
            pbt::label(cfg.mink <= k ? "minimal_k<=k" : "minimal_k>k");
            pbt::label(cfg.minn <= length ? "minimal_n<=length" : "minimal_n>length");
        }
    }
    if (nvals > 8) pbt::label("keys_wide");
    else if (nvals == 1) pbt::label("keys_all_equal");
    else pbt::label("keys_2..8_values");
    if (shared_key) pbt::label("key_in_2+_seqs");
    if (par && teff >= 2 && nonempty >= 2 && length > 0 && (cfg.sampling ? shared_key : cut_dup_multi)) pbt::nontrivial();

    if (pbt::verbose()) {
        PBT_LOG("tlx::" << ENTRY_NAME[stable][cfg.entry] << " alg=" << ALG_NAME[cfg.alg] << " splitting=" << (cfg.sampling ? "MWMSA_SAMPLING" : "MWMSA_EXACT")
                        << " num_threads=" << cfg.threads << " elem=" << T::name << " cmp=" << (desc ? "greater" : "less") << " k=" << k
                        << " length=" << length << " of total=" << total << "\n  settings: ");
        if (cfg.gate == 0) PBT_LOG("force_parallel=true");
        else if (cfg.gate == 1) PBT_LOG("defaults (minimal_k=2, minimal_n=1000)");
        else if (cfg.gate == 2) PBT_LOG("force_sequential=true");
        else PBT_LOG("minimal_k=" << cfg.mink << " minimal_n=" << cfg.minn);
        PBT_LOG(" oversampling=" << cfg.oversampling << " -> " << (par ? "parallel" : "sequential") << " path, " << teff << " thread(s) after clamping\n");
        if (scale) PBT_LOG("  scale class " << cfg.scale << ": " << nonempty << " non-empty sequences, keys = splitmix64 % " << nvals << " (first 12 sequences shown)\n");
        for (int i = 0; i < k && (!scale || i < 12); ++i) {
            PBT_LOG("  seq[" << i << "] n=" << n[i] << " keys:");
            for (int j = 0; j < n[i] && j < 48; ++j) PBT_LOG(" " << keys[i][j]);
            if (n[i] > 48) PBT_LOG(" ...");
            if (sent) PBT_LOG(" | sentinel " << T::key(orig[i][n[i]]));
            PBT_LOG("\n");
        }
    }

    // ---- settings (public globals), then the call under test
    reset_globals();
    tlx::parallel_multiway_merge_oversampling = (size_t)cfg.oversampling;
    if (cfg.gate == 0) tlx::parallel_multiway_merge_force_parallel = true;
    else if (cfg.gate == 2) tlx::parallel_multiway_merge_force_sequential = true;
    else if (cfg.gate == 3) {
        tlx::parallel_multiway_merge_minimal_k = (size_t)cfg.mink;
        tlx::parallel_multiway_merge_minimal_n = (size_t)cfg.minn;
    }

    Out ret = call_merge<Stable>(cfg, seqs.begin(), seqs.end(), target, length, cmp);
    reset_globals();

    // ---- oracle
    const std::ptrdiff_t retidx = IOK::ret_index(ret, ob);
    if (pbt::verbose()) {
        PBT_LOG("  returned target+" << retidx << "\n  output:");
        for (std::ptrdiff_t j = 0; j < length && j < 96; ++j) {
            const E& e = ob.cell((size_t)(G + j));
            if (T::ident) PBT_LOG(" " << T::key(e) << "@" << T::seq(e) << "." << T::pos(e) << (!IOK::counting || ob.cnt[(size_t)(G + j)] == 1 ? "" : "(!)"));
            else PBT_LOG(" " << T::key(e));
        }
        PBT_LOG("\n  advanced by:");
        for (int i = 0; i < k && (!scale || i < 12); ++i) PBT_LOG(" " << (seqs[i].first - base[i]));
        PBT_LOG("\n");
    }
    // every position of [0,length) written exactly once, nothing outside
    PBT_CHECK(ob.outside.load() == 0, "C07/write-outside",
              ob.outside.load() << " assignment(s) outside the output window, first at target+" << ob.first_outside.load() << " (length " << length << ")");
    for (std::ptrdiff_t g = 0; g < G; ++g) {
        bool wb = IOK::counting ? ob.cnt[(size_t)g] != 0 : !T::same(ob.cell((size_t)g), poison);
        bool wa = IOK::counting ? ob.cnt[(size_t)(G + length + g)] != 0 : !T::same(ob.cell((size_t)(G + length + g)), poison);
        PBT_CHECK(!wb, "C07/write-outside", "cell target-" << (G - g) << " (before the output range) was written");
        PBT_CHECK(!wa, "C07/write-outside", "cell target+" << (length + g) << " (past the requested length " << length << ") was written");
    }
    for (std::ptrdiff_t j = 0; j < length; ++j) {
        if (IOK::counting) {
            unsigned c = ob.cnt[(size_t)(G + j)];
            PBT_CHECK(c != 0, "C07/unwritten", "output slot " << j << " of " << length << " was never written");
            PBT_CHECK(c == 1, "C07/written-twice", "output slot " << j << " of " << length << " was written " << c << " times");
        } else {
            PBT_CHECK(!T::same(ob.cell((size_t)(G + j)), poison), "C07/unwritten", "output slot " << j << " of " << length << " was never written");
        }
    }
    PBT_CHECK(retidx == length, "C07/return", "returned iterator is target+" << retidx << ", expected target+" << length);

    std::vector<std::ptrdiff_t> taken(k, 0);
    if (T::ident) {
        for (std::ptrdiff_t j = 0; j < length; ++j) {
            const E& e = ob.cell((size_t)(G + j));
            int s = T::seq(e), p = T::pos(e);
            PBT_CHECK(s >= 0 && s < k && p >= 0 && p < n[s] && T::same(e, orig[s][p]), "C07/not-an-input",
                      "output slot " << j << " holds (key " << T::key(e) << ", seq " << s << ", pos " << p << ") which is not an element of the inputs");
        }
        for (std::ptrdiff_t j = 0; j < length; ++j) {
            const E& e = ob.cell((size_t)(G + j));
            PBT_CHECK(T::key(e) == ref[(size_t)j].key, "C07/keys",
                      "output slot " << j << " has key " << T::key(e) << ", the sequential merge has key " << ref[(size_t)j].key << " there");
        }
        if (stable)
            for (std::ptrdiff_t j = 0; j < length; ++j) {
                const E& e = ob.cell((size_t)(G + j));
                PBT_CHECK(T::seq(e) == ref[(size_t)j].seq && T::pos(e) == ref[(size_t)j].pos, "C07/stable-order",
                          "stable merge: output slot " << j << " is (key " << T::key(e) << ", seq " << T::seq(e) << ", pos " << T::pos(e)
                                                       << "), the stable sequential merge has (key " << ref[(size_t)j].key << ", seq "
                                                       << ref[(size_t)j].seq << ", pos " << ref[(size_t)j].pos << ") there");
            }
        for (std::ptrdiff_t j = 0; j < length; ++j) {
            const E& e = ob.cell((size_t)(G + j));
            int s = T::seq(e), p = T::pos(e);
            PBT_CHECK(p == taken[s], "C07/prefix",
                      "output slot " << j << " is element " << p << " of sequence " << s << " but element " << taken[s]
                                     << " of that sequence has not been emitted (not a prefix in order)");
            ++taken[s];
        }
        for (int i = 0; i < k; ++i)
            PBT_CHECK(seqs[i].first - base[i] == taken[i], "C07/advance",
                      "sequence " << i << ": begin advanced by " << (seqs[i].first - base[i]) << " but " << taken[i]
                                  << " of its elements were emitted (length " << length << " of " << total << ")");
    } else {
        for (std::ptrdiff_t j = 0; j < length; ++j) {
            const E& e = ob.cell((size_t)(G + j));
            PBT_CHECK(T::key(e) == ref[(size_t)j].key, "C07/keys",
                      "output slot " << j << " has key " << T::key(e) << ", the sequential merge has key " << ref[(size_t)j].key << " there");
        }
        // elements are indistinguishable: the consumed prefixes must add up to the output as a multiset
        std::ptrdiff_t sum = 0;
        std::vector<int> pre;
        for (int i = 0; i < k; ++i) {
            std::ptrdiff_t c = seqs[i].first - base[i];
            PBT_CHECK(c >= 0 && c <= n[i], "C07/advance", "sequence " << i << ": begin advanced by " << c << ", its size is " << n[i]);
            sum += c;
            for (std::ptrdiff_t j = 0; j < c; ++j) pre.push_back(keys[i][(size_t)j]);
        }
        PBT_CHECK(sum == length, "C07/advance", "inputs advanced by " << sum << " elements in total, " << length << " were emitted");
        std::sort(pre.begin(), pre.end(), kless);
        for (std::ptrdiff_t j = 0; j < length; ++j)
            PBT_CHECK(pre[(size_t)j] == ref[(size_t)j].key, "C07/advance",
                      "the consumed input prefixes are not the emitted elements (" << j << "-th consumed key " << pre[(size_t)j] << ", emitted "
                                                                                   << ref[(size_t)j].key << ")");
    }
    for (int i = 0; i < k; ++i)
        for (size_t j = 0; j < orig[i].size(); ++j)
            PBT_CHECK(T::same(IOK::at(bufs[i], j), orig[i][j]), "C07/input-modified", "input sequence " << i << " element " << j << " was modified");
}

//! target pmerge_iters: dispatch on the iterator kind (kinds 0, 1 and kinds 2, 3 are instantiated in different TUs)
template <class E, bool Stable>
void run_iters(pbt::Source& src, const Cfg& cfg, int kind) {
    if (kind == 0) run_case<E, Stable, IODequeIn<E>>(src, cfg);
    else run_case<E, Stable, IORevIn<E>>(src, cfg);
}
template <class E, bool Stable>
void run_iters_b(pbt::Source& src, const Cfg& cfg, int kind) {
    if (kind == 2) run_case<E, Stable, IODequeOut<E>>(src, cfg);
    else run_case<E, Stable, IORevOut<E>>(src, cfg);
}

} // namespace c07
