// C13 (types) — RadixHeapPair<K, std::string, R> instantiations
#include "C13_radix_types_impl.hpp"
namespace c13 {
IRadix* make_radix_types_a(unsigned cfg) {
    switch (cfg) {
    case 0: return new RadixImplP<int16_t, 2, StrPay<int16_t, 2>>();
    case 1: return new RadixImplP<uint32_t, 8, StrPay<uint32_t, 8>>();
    case 2: return new RadixImplP<int64_t, 64, StrPay<int64_t, 64>>();
    default: return new RadixImplP<uint8_t, 4, StrPay<uint8_t, 4>>();
    }
}
} // namespace c13
