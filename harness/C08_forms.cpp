// C08 — target api_forms (see C08_forms.hpp): the argument forms of the public interface that the other targets do not
// pass (pair* / const pair* / const_iterator sequences of pairs, pointer / re-used / const-iterator output positions,
// rank types unsigned int / unsigned long long / short / unsigned short / long long, function pointer / lambda /
// transparent functor / std::function / std::reference_wrapper comparators in three value categories, an element type
// without default constructor, sequences sharing one buffer) on small tuples with EVERY rank, both routines per case.
// Separate target: the byte -> case mapping of the other C08 targets and their stored witnesses stay valid.
#include "C08_forms.hpp"

namespace {
using namespace c08;

struct FShape : Shape {
    int cls = 0;
    uint64_t salt = 0;
};

//! small tuples (N <= ~500, mostly < 100) along the m dimension the other generators skip:
//!   0 singletons        m = 1..64, every sequence has ONE element (no refinement round at all: the initial estimate decides)
//!   1 singletons+long   m = 2..48 singletons except one or two sequences of 2^j-1, 2^j, 2^j+1 elements (j = 1..6)
//!   2 short, any m      m = 1..24 (incl. 9..16), every length from {1 | 1..5 | 2^j-1,2^j,2^j+1 (j = 1..4) | 1..20}
//!   3 m = 2 extremes    (L, 1) (1, L) (L, L) (L, L+-1) with L = 2^j-1, 2^j, 2^j+1 (j = 1..7)
//! keys: 1..6 distinct or 1000, from a PRNG seeded by the choice bytes
FShape gen_shape_forms(pbt::Source& src) {
    FShape sh;
    sh.cls = (int)src.weighted({4, 3, 4, 2});
    int dk = (int)src.range(0, 6);
    int stride = src.boolean() ? 3 : 1;
    uint64_t seed = src.bits(3);
    uint64_t s = seed * 0x9E3779B97F4A7C15ull + 0xF0F0;
    sh.salt = seed ^ 0xABCDEFull;
    std::vector<int> lens;
    switch (sh.cls) {
    case 0:
        sh.m = (int)src.range(1, 64);
        lens.assign(sh.m, 1);
        break;
    case 1: {
        sh.m = (int)src.range(2, 48);
        lens.assign(sh.m, 1);
        int nlong = 1 + (int)src.boolean();
        for (int k = 0; k < nlong; ++k) lens[src.index((size_t)sh.m)] = pow2_edge(src, 1, 6);
        break;
    }
    case 2:
        sh.m = (int)src.range(1, 24);
        for (int i = 0; i < sh.m; ++i) {
            switch (src.weighted({3, 3, 4, 3})) {
            case 0: lens.push_back(1); break;
            case 1: lens.push_back((int)src.range(1, 5)); break;
            case 2: lens.push_back(pow2_edge(src, 1, 4)); break;
            default: lens.push_back((int)src.range(1, 20)); break;
            }
        }
        break;
    default: {
        sh.m = 2;
        int L = pow2_edge(src, 1, 7);
        int other;
        switch (src.weighted({3, 2, 2, 2})) {
        case 0: other = 1; break;
        case 1: other = L; break;
        case 2: other = L + 1; break;
        default: other = std::max(1, L - 1); break;
        }
        lens = {L, other};
        if (src.boolean()) std::swap(lens[0], lens[1]);
        break;
    }
    }
    sh.wide = dk == 6;
    sh.distinct = sh.wide ? 1000 : dk + 1;
    sh.keys.resize(sh.m);
    for (int i = 0; i < sh.m; ++i)
        for (int j = 0; j < lens[i]; ++j) sh.keys[i].push_back((int)(splitmix(s) % (uint64_t)sh.distinct) * stride);
    return sh;
}
} // namespace

PBT_PROPERTY(api_forms) {
    // selectors first
    const int bundle = (int)src.range(0, 4);
    int mode = (int)src.weighted({3, 2, 2}); // less | greater | projection key/4
    if (bundle == 2 && mode == 2) mode = 0;  // bundle 2 passes std::less<> / std::greater<> (no projection form)
    FShape sh = gen_shape_forms(src);

    static const char* const BUNDLE[5] = {
        // element | rank type | comparator form and value category (seqs= / offs= / store= have labels of their own)
        "form0:int|unsigned(temp)|fnptr(rvalue)/default",
        "form1:Rec|unsigned_long_long|lambda(rvalue)",
        "form2:int|short|less<>/greater<>(lvalue)",
        "form3:NoDef|ushort(temp)|std::ref(const_lvalue)",
        "form4:Rec|long_long|std::function(rvalue)"};
    static const char* const CLS[4] = {"shape:all_singletons", "shape:singletons+long", "shape:short_any_m", "shape:m=2_extremes"};
    pbt::label(BUNDLE[bundle]);
    pbt::label(CLS[sh.cls]);
    pbt::label(mode == 0 ? "cmp=less" : mode == 1 ? "cmp=greater" : "cmp=projection");
    const int m = sh.m;
    pbt::label(m == 1 ? "m=1" : m == 2 ? "m=2" : m <= 8 ? "m=3..8" : m <= 16 ? "m=9..16" : m <= 21 ? "m=17..21" : m <= 40 ? "m=22..40" : "m=41..64");
    if (sh.cls == 0 && m >= 22) pbt::label("all_singletons_m>=22");
    size_t lo = SIZE_MAX, hi = 0, N = 0;
    for (auto& k : sh.keys) lo = std::min(lo, k.size()), hi = std::max(hi, k.size()), N += k.size();
    for (int j = 2; j <= 7; ++j)
        if (hi + 1 >= (1u << j) && hi <= (1u << j) + 1) pbt::label("nmax_at_pow2_edge(>=3)");
    if (m >= 2 && hi >= 8 * lo) pbt::label("lengths_very_unequal");
    pbt::label(N < 16 ? "N<16" : N < 64 ? "N=16..63" : N < 200 ? "N=64..199" : "N>=200");
    if (sh.wide) pbt::label("keys_wide");
    else if (sh.distinct == 1) pbt::label("keys_all_equal");
    else pbt::label("keys_few_distinct");
    PBT_LOG(BUNDLE[bundle] << " mode=" << mode << " (0 less 1 greater 2 key/4) " << CLS[sh.cls] << " m=" << m << " N=" << N << "\n");

    Stats st;
    fm::FormStats fs;
    switch (bundle) {
    case 0: fm::run_form0(sh.keys, mode, sh.salt, st, fs); break;
    case 1: fm::run_form1(sh.keys, mode, sh.salt, st, fs); break;
    case 2: fm::run_form2(sh.keys, mode, sh.salt, st, fs); break;
    case 3: fm::run_form3(sh.keys, mode, sh.salt, st, fs); break;
    default: fm::run_form4(sh.keys, mode, sh.salt, st, fs); break;
    }
    if (fs.default_comp) pbt::label("cmp=default_argument(pair*_sequences)");
    if (bundle == 3) {
        // every comparison made through a copy of the reference_wrapper lands in the caller's functor
        if (fs.cmp_calls > 0) pbt::label("stateful_cmp_calls_seen_by_caller");
        PBT_LOG("comparator calls counted in the caller's object: " << fs.cmp_calls << "\n");
    }
    PBT_LOG("ranks checked: " << st.ranks_checked << " (all), partition and selection\n");
    if (st.cut_multi) pbt::label("cut_class_in>=2_seqs");
    if (st.cut3) pbt::label("cut_class_in>=3_seqs");
    if (m >= 2 && st.cut_multi) pbt::nontrivial();
}
