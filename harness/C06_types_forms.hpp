// C06 — shared pieces of the comparator-form TUs of the target mergesort_forms (C06_types_forms_a.cpp / _b.cpp).
#pragma once
#include "C06_run.hpp"

namespace c06 {
namespace forms {

//! trivially copyable (key,tag) WITH relational operators on the key only (so that std::less / std::greater, also
//! the defaulted comparator of the 2-argument call form, order by key and the tag distinguishes equivalent elements)
struct KL {
    int key;
    int tag;
};
inline bool operator<(const KL& a, const KL& b) { return a.key < b.key; }
inline bool operator>(const KL& a, const KL& b) { return a.key > b.key; }

static const int GUARD_KEY = -77000002;

//! one guard element on either side of the sorted range [1, 1 + n) of a container: must stay untouched
template <class Cont>
void fill_guarded(Cont& c, const std::vector<Item>& items) {
    c.push_back(KL{GUARD_KEY, -2});
    for (const Item& it : items) c.push_back(KL{it.key, it.tag});
    c.push_back(KL{GUARD_KEY, -3});
}
template <class Cont>
void read_back_guarded(const Cont& c, std::vector<Item>& items, const char* what) {
    const size_t n = items.size();
    if (c.size() != n + 2) pbt::fail("C06/size", "the container changed its size");
    if (c[0].key != GUARD_KEY || c[0].tag != -2 || c[n + 1].key != GUARD_KEY || c[n + 1].tag != -3)
        pbt::fail("C06/write-outside-range", std::string("an element next to the sorted ") + what + " range [begin, end) was modified");
    for (size_t i = 0; i < n; ++i) items[i] = Item{c[1 + i].key, c[1 + i].tag};
}

} // namespace forms
} // namespace c06
