// C04 tier 1: PS5 job graph under the deterministic scheduler, one instantiation per parameter set.
#pragma once
#include "C04_common.hpp"
#ifndef C04_REAL_THREADS
#include "../engine/sched/vsched.hpp"
#endif

#include <tlx/sort/strings/parallel_sample_sort.hpp>
#include <tlx/sort/strings_parallel.hpp>

namespace c04 {

using namespace tlx::sort_strings_detail;

template <size_t SmallT, size_t InsT, class KeyT, template <class, size_t> class ClassifyT, size_t TB, bool WorkSharing, bool RestSize>
class Params : public PS5ParametersDefault {
public:
    typedef KeyT key_type;
    static const unsigned TreeBits = TB;
    using Classify = ClassifyT<key_type, TB>;
    static const size_t smallsort_threshold = SmallT;
    static const size_t inssort_threshold = InsT;
    static const bool enable_work_sharing = WorkSharing;
    static const bool enable_rest_size = RestSize;
};
template <class K, size_t T>
using ClsTreeCalc = SSClassifyTreeCalcUnrollInterleave<K, T>;
template <class K, size_t T>
using ClsTree = SSClassifyTreeUnrollInterleave<K, T>;
template <class K, size_t T>
using ClsEqual = SSClassifyEqualUnroll<K, T>;

struct RunInfo {
    size_t smallsort_threshold;
    size_t keybytes;
    const char* name;
};

typedef void (*RunFn)(pbt::Source& src, Input& in, bool with_lcp, unsigned hw);

template <class P>
void run_params(pbt::Source& src, Input& in, bool with_lcp, unsigned hw) {
    tlx::std::thread::hw() = hw;
    tlx::std::minstd_rand::forced_seed() = 1 + (unsigned)src.range(0, 250);
#ifndef C04_REAL_THREADS
    vsched::Options opt;
    opt.max_steps = 400000;
    opt.livelock_rounds = 0; // PS5 polls has_idle() between thread-local work: not a spin loop
    vsched::Run run(src, opt);
#endif
    size_t n = in.ptrs.size();
    typedef UCharStringSet SS;
    SS ss(in.ptrs.data(), in.ptrs.data() + n);
    if (with_lcp) parallel_sample_sort_params<P>(StringLcpPtr<SS, uint32_t>(ss, in.lcp.data()), 0, 0);
    else parallel_sample_sort_params<P>(StringPtr<SS>(ss), 0, 0);
}

struct Config {
    RunFn fn;
    RunInfo info;
};
std::vector<Config>& configs();
struct AddConfig {
    AddConfig(RunFn fn, size_t thr, size_t kb, const char* name) { configs().push_back(Config{fn, RunInfo{thr, kb, name}}); }
};
#define C04_CONFIG(ID, SmallT, InsT, KeyT, Cls, TB, WS, RS) \
    static ::c04::AddConfig c04_cfg_##ID(&::c04::run_params<::c04::Params<SmallT, InsT, KeyT, ::c04::Cls, TB, WS, RS>>, SmallT, sizeof(KeyT), #ID ":small=" #SmallT ",ins=" #InsT ",key=" #KeyT "," #Cls ",treebits=" #TB ",worksharing=" #WS ",restsize=" #RS)

} // namespace c04
