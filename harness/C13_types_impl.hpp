// C13 (types) — type-erased wrapper around tlx::DAryHeap<T, Arity, Compare> for element types whose move is
// DESTRUCTIVE (std::string, a record owning a std::string, verif::Tracked) and comparator objects that OWN state
// (shared_ptr table, std::function, std::vector table).  Elements cross the interface as (key, tag) pairs; the
// aliasing calls (h.push(h.top()), ...) and the copy/move/swap lifecycles are methods, because they need the real
// references.  The history is in C13_types.cpp; instantiations in C13_types_{s,r,t}{lo,hi}.cpp.
#pragma once
#include "../engine/pbt.hpp"
#include "../engine/tracked.hpp"

#include <array>
#include <cstddef>
#include <cstdlib>
#include <deque>
#include <functional>
#include <iterator>
#include <list>
#include <memory>
#include <string>
#include <utility>
#include <vector>

#include <tlx/container/d_ary_heap.hpp>

namespace c13t {

static const int UMAX = 12;  // keys 0..UMAX-1 <-> letters 'a'..
static const int TAGS = 64;  // identity tags 0..63

struct E {
    int key, tag;
};
inline bool operator==(const E& a, const E& b) { return a.key == b.key && a.tag == b.tag; }

// ---- element types: make(key, tag) / decode; a moved-from or otherwise foreign value decodes to key -1 ------------

//! record owning a string; natural order = (name, tag)
struct SRec {
    std::string name;
    int tag = -1;
    friend bool operator<(const SRec& a, const SRec& b) { return a.name != b.name ? a.name < b.name : a.tag < b.tag; }
};

template <class T>
struct Codec;
template <>
struct Codec<std::string> {
    //! "<letter>#<tag, 2 digits><0..28 pad chars>": small-buffer and heap-owning strings; natural order = (key, tag)
    static std::string make(E e) {
        std::string s(1, (char)('a' + e.key));
        s += '#';
        s += (char)('0' + e.tag / 10);
        s += (char)('0' + e.tag % 10);
        s.append((size_t)((e.tag * 7 + e.key * 3) % 29), '~');
        return s;
    }
    static E dec(const std::string& s) {
        if (s.size() < 4 || s[0] < 'a' || s[0] >= 'a' + UMAX || s[1] != '#' || s[2] < '0' || s[2] > '9' || s[3] < '0' || s[3] > '9') return E{-1, -1};
        E e{s[0] - 'a', (s[2] - '0') * 10 + (s[3] - '0')};
        return e.tag < TAGS && s == make(e) ? e : E{-1, -1};
    }
    static const char* name() { return "std::string"; }
};
template <>
struct Codec<SRec> {
    //! name = letter + (2 + 4*key) pad chars: small-buffer strings for keys 0..3, heap-owning above
    static SRec make(E e) {
        SRec r;
        r.name.assign(1, (char)('a' + e.key));
        r.name.append((size_t)(2 + 4 * e.key), '_');
        r.tag = e.tag;
        return r;
    }
    static E dec(const SRec& r) {
        if (r.name.empty() || r.name[0] < 'a' || r.name[0] >= 'a' + UMAX || r.tag < 0 || r.tag >= TAGS) return E{-1, -1};
        E e{r.name[0] - 'a', r.tag};
        return r.name == make(e).name ? e : E{-1, -1};
    }
    static const char* name() { return "record{std::string,int}"; }
};
template <>
struct Codec<verif::Tracked> {
    //! value = key*64 + tag; a moved-from Tracked holds Tracked::kMovedFrom (negative)
    static verif::Tracked make(E e) { return verif::Tracked(e.key * TAGS + e.tag); }
    static E dec(const verif::Tracked& t) {
        int v = t.value();
        return v >= 0 && v < UMAX * TAGS ? E{v / TAGS, v % TAGS} : E{-1, -1};
    }
    static const char* name() { return "verif::Tracked"; }
};

// ---- comparators owning state ---------------------------------------------------------------------------------
// All of them order by prio[key]. Called on a moved-from comparator object or on an element that does not decode
// (moved-from element) they report C13/cmp-state: the heap handed user code an object it had already moved from.

[[noreturn]] inline void cmp_bad(const char* kind, const char* what) {
    pbt::fail("C13/cmp-state", std::string(kind) + " comparator " + what);
}
template <class T>
inline int cmp_key(const char* kind, const T& e) {
    int k = Codec<T>::dec(e).key;
    if (k < 0) cmp_bad(kind, "called on a value that is not a stored element (moved-from element?)");
    return k;
}
//! shared_ptr to a table the history may change (followed by update_all()). Moved-from: null.
template <class T>
struct SharedCmp {
    std::shared_ptr<std::vector<int>> prio;
    bool operator()(const T& a, const T& b) const {
        if (!prio) cmp_bad("shared_ptr-table", "called although its table pointer is null (moved-from comparator object)");
        return (*prio)[(size_t)cmp_key("shared_ptr-table", a)] < (*prio)[(size_t)cmp_key("shared_ptr-table", b)];
    }
};
//! owns a copy of the table (priorities fixed at construction). Moved-from: empty vector.
template <class T>
struct OwnVecCmp {
    std::vector<int> prio;
    bool operator()(const T& a, const T& b) const {
        int ka = cmp_key("vector-table", a), kb = cmp_key("vector-table", b);
        if ((size_t)ka >= prio.size() || (size_t)kb >= prio.size()) cmp_bad("vector-table", "called although its table is gone (moved-from comparator object)");
        return prio[(size_t)ka] < prio[(size_t)kb];
    }
};
//! std::function around a closure too large for the in-place buffer (pointer to the history's table + ballast).
//! Moved-from: empty -> std::bad_function_call (reported as C13/exception).
template <class T>
using FnCmp = std::function<bool(const T&, const T&)>;
template <class T>
FnCmp<T> make_fn(const std::vector<int>* prio) {
    std::array<int, 8> ballast = {{1, 2, 3, 4, 5, 6, 7, 8}};
    return [prio, ballast](const T& a, const T& b) -> bool {
        if (ballast[7] != 8) cmp_bad("std::function", "closure state corrupted");
        return (*prio)[(size_t)cmp_key("std::function", a)] < (*prio)[(size_t)cmp_key("std::function", b)];
    };
}

enum { CK_NAT = 0, CK_SHARED = 1, CK_FN = 2, CK_OWNVEC = 3 };

// ---- type-erased heap ----------------------------------------------------------------------------------------

struct IDaryT {
    virtual ~IDaryT() {}
    virtual void push_copy(E e) = 0;       // T v = make(e); h.push(v);  (const& overload; v must stay intact)
    virtual void push_move(E e) = 0;       // h.push(make(e));           (rvalue overload)
    virtual void push_top(unsigned how) = 0; // 0: h.push(h.top())  1: const T& r = h.top(); h.push(r)  2: T c(h.top()); h.push(std::move(c))
    virtual E top() = 0;
    virtual void pop() = 0;
    virtual E extract_top() = 0;
    virtual void clear() = 0;
    virtual size_t size() = 0;
    virtual bool empty() = 0;
    virtual size_t capacity() = 0;
    virtual void reserve(size_t n) = 0;
    //! how: 0 vector iterators, 1 const vector&, 2 vector&&, 3 deque iterators, 4 list iterators, 5 reverse iterators,
    //! 6 move_iterators; the source is checked to be unchanged (0,1,3,4,5) and then overwritten / reused
    virtual void build(unsigned how, const std::vector<E>& es) = 0;
    virtual void update_all() = 0;
    virtual bool sanity_check() = 0;
    virtual void set_prio(int key, int p) = 0; // shared table only
    virtual bool prio_mutable() = 0;
    //! copy / move / swap / self-assignment round trips that leave the contents unchanged
    virtual void lifecycle(unsigned how, E extra) = 0;
    virtual const char* elem_name() = 0;
};
static const unsigned N_BUILD = 7, N_LIFE = 9;

template <class T, unsigned A, class Cmp, int CK>
struct DaryTImpl : IDaryT {
    typedef tlx::DAryHeap<T, A, Cmp> Heap;
    typedef Codec<T> C;
    Cmp cmp; // prototype for further heaps
    std::shared_ptr<std::vector<int>> shared;
    Heap h;
    DaryTImpl(Cmp c, std::shared_ptr<std::vector<int>> sh) : cmp(c), shared(std::move(sh)), h(c) {}

    static bool same(const T& v, E e) { return C::dec(v) == e; }
    void push_copy(E e) override {
        const T v = C::make(e);
        h.push(v);
        PBT_CHECK(same(v, e), "C13/dary-push-arg", "push(const key_type&) changed its argument");
    }
    void push_move(E e) override { h.push(C::make(e)); }
    void push_top(unsigned how) override {
        if (how == 0) {
            h.push(h.top());
        } else if (how == 1) {
            const T& r = h.top();
            h.push(r);
        } else {
            T c(h.top());
            h.push(std::move(c));
        }
    }
    E top() override { return C::dec(h.top()); }
    void pop() override { h.pop(); }
    E extract_top() override { return C::dec(h.extract_top()); }
    void clear() override { h.clear(); }
    size_t size() override { return h.size(); }
    bool empty() override { return h.empty(); }
    size_t capacity() override { return h.capacity(); }
    void reserve(size_t n) override { h.reserve(n); }
    template <class Cont>
    static void check_source(const Cont& c, const std::vector<E>& es, const char* what) {
        PBT_CHECK(c.size() == es.size(), "C13/dary-build-source", what << " changed the size of its source");
        size_t i = 0;
        for (const T& v : c) {
            PBT_CHECK(same(v, es[i]), "C13/dary-build-source", what << " changed element " << i << " of its source");
            ++i;
        }
    }
    void build(unsigned how, const std::vector<E>& es) override {
        std::vector<T> v;
        for (E e : es) v.push_back(C::make(e));
        const E junk{0, TAGS - 1};
        switch (how) {
        case 0:
            h.build_heap(v.begin(), v.end());
            check_source(v, es, "build_heap(first, last)");
            for (T& x : v) x = C::make(junk); // the caller goes on using its vector
            break;
        case 1: {
            const std::vector<T>& cv = v;
            h.build_heap(cv);
            check_source(v, es, "build_heap(const vector&)");
            for (T& x : v) x = C::make(junk);
            v.clear();
            break;
        }
        case 2:
            h.build_heap(std::move(v));
            v.clear(); // a moved-from vector may be cleared and reused
            v.push_back(C::make(junk));
            v.push_back(C::make(junk));
            break;
        case 3: {
            std::deque<T> d;
            // front-insert a few so that the range does not start at a node boundary
            for (size_t i = es.size(); i > 0; --i) d.push_front(v[i - 1]);
            h.build_heap(d.begin(), d.end());
            check_source(d, es, "build_heap(deque iterators)");
            d.clear();
            break;
        }
        case 4: {
            std::list<T> l(v.begin(), v.end());
            h.build_heap(l.begin(), l.end());
            check_source(l, es, "build_heap(list iterators)");
            break;
        }
        case 5: {
            std::vector<T> r(v.rbegin(), v.rend());
            h.build_heap(r.rbegin(), r.rend());
            std::vector<T> back(r.rbegin(), r.rend());
            check_source(back, es, "build_heap(reverse iterators)");
            break;
        }
        default:
            h.build_heap(std::make_move_iterator(v.begin()), std::make_move_iterator(v.end()));
            for (T& x : v) x = C::make(junk); // assigning to moved-from elements is fine
            break;
        }
    }
    void update_all() override { h.update_all(); }
    bool sanity_check() override { return h.sanity_check(); }
    void set_prio(int key, int p) override {
        if (shared) (*shared)[(size_t)key] = p;
    }
    bool prio_mutable() override { return CK == CK_SHARED || CK == CK_FN; }
    void lifecycle(unsigned how, E extra) override {
        const size_t n0 = h.size();
        switch (how) {
        case 0: { // an independent copy: changing the copy must not change the original
            Heap c(h);
            PBT_CHECK(c.size() == n0, "C13/dary-copy", "copy has size " << c.size() << ", original " << n0);
            if (!c.empty()) c.pop();
            c.push(C::make(extra));
            c.push(c.top());
            c.clear();
            break;
        }
        case 1: {
            Heap c(h); // copy-construct, continue with the copy
            h.clear();
            h = std::move(c);
            break;
        }
        case 2: {
            Heap m(std::move(h)); // move-construct, copy-assign back into the moved-from heap
            h = m;
            break;
        }
        case 3: {
            Heap c(cmp);
            c.push(C::make(extra));
            c = h; // copy-assign over a non-empty heap
            h = c;
            break;
        }
        case 4: {
            Heap& self = h;
            h = self; // self copy-assignment
            break;
        }
        case 5: { // std::swap with another heap and back
            Heap o(cmp);
            o.push(C::make(extra));
            std::swap(h, o);
            PBT_CHECK(h.size() == 1 && same(h.top(), extra) && o.size() == n0, "C13/dary-swap",
                      "after std::swap: sizes " << h.size() << "/" << o.size() << ", expected 1/" << n0);
            if (!o.empty()) { // the swapped-out heap is a full heap object
                o.push(o.top());
                o.pop();
            }
            std::swap(o, h);
            break;
        }
        case 6: { // move away, give the moved-from heap a defined state again, use it, move back
            Heap m(std::move(h));
            if (CK == CK_NAT) h.clear(); // stateless comparator: clear() is all a moved-from heap needs
            else h = Heap(cmp);          // otherwise the comparator was moved from as well: assign a fresh heap
            PBT_CHECK(h.empty() && h.size() == 0, "C13/dary-after-move", "moved-from heap not empty after clear()/assignment: size " << h.size());
            h.push(C::make(extra));
            h.push(h.top());
            PBT_CHECK(h.size() == 2 && same(h.top(), extra), "C13/dary-after-move", "reused moved-from heap: size " << h.size() << " after two pushes");
            h = std::move(m); // move-assign over a non-empty heap
            break;
        }
        case 7: {
            Heap m(std::move(h));
            h = std::move(m); // move-assign into a moved-from heap
            break;
        }
        default: { // copy of a copy, destroy the first copy before using the second
            std::unique_ptr<Heap> c1(new Heap(h));
            Heap c2(*c1);
            c1.reset();
            h = std::move(c2);
            break;
        }
        }
        PBT_CHECK(h.size() == n0, "C13/dary-copy", "copy/move/swap round trip " << how << " changed the size from " << n0 << " to " << h.size());
    }
    const char* elem_name() override { return C::name(); }
};

//! index of the element type in the generator's draw
template <class T> struct TypeIndex;
template <> struct TypeIndex<std::string> { static const unsigned value = 0; };
template <> struct TypeIndex<SRec> { static const unsigned value = 1; };
template <> struct TypeIndex<verif::Tracked> { static const unsigned value = 2; };
//! the state-owning comparator kind instantiated for (element type tk, arity): every kind meets every element type
//! and every arity, without compiling the full 3 x 8 x 4 matrix
inline unsigned stateful_kind(unsigned tk, unsigned arity) { return 1 + (arity + tk) % 3; }

template <class T, unsigned A>
IDaryT* make_dary_t(unsigned ck, const std::vector<int>* prio) {
    constexpr unsigned SK = 1 + (A + TypeIndex<T>::value) % 3;
    if (ck == CK_NAT) return new DaryTImpl<T, A, std::less<T>, CK_NAT>(std::less<T>(), nullptr);
    if (ck != SK) abort();
    if constexpr (SK == CK_SHARED) {
        auto sh = std::make_shared<std::vector<int>>(*prio);
        return new DaryTImpl<T, A, SharedCmp<T>, CK_SHARED>(SharedCmp<T>{sh}, sh);
    } else if constexpr (SK == CK_FN) {
        return new DaryTImpl<T, A, FnCmp<T>, CK_FN>(make_fn<T>(prio), nullptr);
    } else {
        return new DaryTImpl<T, A, OwnVecCmp<T>, CK_OWNVEC>(OwnVecCmp<T>{*prio}, nullptr);
    }
}
template <class T>
IDaryT* make_dary_t_lo(unsigned arity, unsigned ck, const std::vector<int>* prio) {
    switch (arity) {
    case 1: return make_dary_t<T, 1>(ck, prio);
    case 2: return make_dary_t<T, 2>(ck, prio);
    case 3: return make_dary_t<T, 3>(ck, prio);
    default: return make_dary_t<T, 4>(ck, prio);
    }
}
template <class T>
IDaryT* make_dary_t_hi(unsigned arity, unsigned ck, const std::vector<int>* prio) {
    switch (arity) {
    case 5: return make_dary_t<T, 5>(ck, prio);
    case 6: return make_dary_t<T, 6>(ck, prio);
    case 7: return make_dary_t<T, 7>(ck, prio);
    default: return make_dary_t<T, 8>(ck, prio);
    }
}
// tk: 0 std::string, 1 record, 2 Tracked; defined in C13_types_{s,r,t}{lo,hi}.cpp
IDaryT* make_dary_s_lo(unsigned arity, unsigned ck, const std::vector<int>* prio);
IDaryT* make_dary_s_hi(unsigned arity, unsigned ck, const std::vector<int>* prio);
IDaryT* make_dary_r_lo(unsigned arity, unsigned ck, const std::vector<int>* prio);
IDaryT* make_dary_r_hi(unsigned arity, unsigned ck, const std::vector<int>* prio);
IDaryT* make_dary_t_lo_(unsigned arity, unsigned ck, const std::vector<int>* prio);
IDaryT* make_dary_t_hi_(unsigned arity, unsigned ck, const std::vector<int>* prio);

} // namespace c13t
