// C06 — tlx::parallel_mergesort / stable_parallel_mergesort (real threads).
//   unstable: result is sorted under the comparator and a permutation of the input
//   stable:   result equals std::stable_sort exactly (keys and tags)
//   heap-owning element type: live-instance counter after the call == before
//   flavour R: ASan/UBSan; flavour T (binary c06t): no data race.
// Targets: mergesort (n <= 5000, threads <= 20, oversampling 1/2/10) and mergesort_scale (rarer, cost-bounded
// scale classes: threads up to 100, n up to 10^6, oversampling 1..1000), mergesort_iters (other iterator / element types,
// owning comparator) and mergesort_forms (every public call form: entry point, defaulted arguments, comparator form and
// value category, size_t thread counts, unrelated tuning globals); all end in check_case().
#include "C06_common.hpp"

#include <algorithm>
#include <cstdint>
#include <string>
#include <thread>
#include <tlx/algorithm/parallel_multiway_merge.hpp>

namespace c06 {
void reset_globals(const Params& p) {
    // every public tuning global of tlx/algorithm/parallel_multiway_merge.hpp is (re)set for every case. Only the
    // oversampling factor is documented to matter to parallel_mergesort (sampling splitting); the other four are
    // switches of the parallel_multiway_merge() frontends, which parallel_mergesort does not go through: whatever
    // they hold (p.knobs, target mergesort_forms; 0 = the library defaults) the same oracles must hold.
    static const size_t MIN_K[4] = {2, 0, 1000000, (size_t)-1}, MIN_N[4] = {1000, 0, 1, (size_t)-1};
    tlx::parallel_multiway_merge_force_sequential = (p.knobs & 1) != 0;
    tlx::parallel_multiway_merge_force_parallel = (p.knobs & 2) != 0;
    tlx::parallel_multiway_merge_minimal_k = MIN_K[(p.knobs >> 2) & 3];
    tlx::parallel_multiway_merge_minimal_n = MIN_N[(p.knobs >> 4) & 3];
    tlx::parallel_multiway_merge_oversampling = p.oversampling;
}
} // namespace c06

namespace {

using c06::Item;
using c06::Params;

uint64_t splitmix(uint64_t& s) {
    uint64_t z = (s += 0x9E3779B97F4A7C15ull);
    z = (z ^ (z >> 30)) * 0xBF58476D1CE4E5B9ull;
    z = (z ^ (z >> 27)) * 0x94D049BB133111EBull;
    return z ^ (z >> 31);
}

const char* const TYPE_NAME[] = {"int", "key+tag", "heap-record",
                                 // target mergesort_iters (all with a comparator owning state)
                                 "deque<key+tag>", "reverse_iterator<vector<key+tag>>", "deque<string-record>", "pointer-range<string-record>",
                                 // target mergesort_forms only: further comparator forms
                                 "heap-record/std::less", "pointer-range<key+tag>/std::less", "vector<key+tag>/function-pointer",
                                 "vector<key+tag>/lambda", "deque<key+tag>/std::greater"};
const int N_TYPES = 12;
inline bool lifetime_checked(int ty) { return ty == 2 || ty == 5 || ty == 6 || ty == 7; }
inline bool less_only(int ty) { return ty == 7 || ty == 8; } // std::less: ascending only; these have the 2-argument call form
const char* const VCLASS_NAME[] = {"all-equal", "2-4-distinct", "wide", "medium-dups", "sawtooth", "blocks"};
const char* const ARR_NAME[] = {"as-drawn", "sorted", "reversed"};

std::string show_items(const std::vector<Item>& v, size_t lo = 0, size_t hi = (size_t)-1) {
    std::ostringstream os;
    if (hi > v.size()) hi = v.size();
    os << "[";
    for (size_t i = lo; i < hi; ++i) {
        if (i > lo) os << " ";
        os << v[i].key;
        if (v[i].tag >= 0) os << "#" << v[i].tag;
    }
    os << "]";
    return os.str();
}

} // namespace

namespace {

//! scale-class description of a case of the target mergesort_scale (null for the target mergesort)
struct ScaleInfo {
    int cls; // 0 many-threads, 1 oversampling, 2 big-n, 3 huge-n
};

//! classification, reference, tlx call and oracles for one generated case
void check_case(int ty, const Params& p, const std::vector<Item>& in, const char* vclass_name, const char* arr_name, bool from_prng,
                const ScaleInfo* scale, bool forms = false) {
    const size_t n = in.size();
    // ---- classification -------------------------------------------------------------------
    size_t t_eff = std::min<size_t>(p.threads, n); // tlx clamps to one element per thread
    bool dup_across = false;
    const bool linear = scale && n > 5000; // big inputs: O(n) classification and permutation check instead of sorting
    if (t_eff >= 2 && linear) {
        int kmax = 0;
        for (const Item& it : in) kmax = std::max(kmax, it.key);
        std::vector<int> first((size_t)kmax + 1, -1); // first slice in which the key occurs (keys are >= 0)
        size_t chunk = n / t_eff, split = n % t_eff, pos = 0;
        for (size_t sl = 0; sl < t_eff && !dup_across; ++sl) {
            size_t len = chunk + (sl < split ? 1 : 0);
            for (size_t i = 0; i < len && !dup_across; ++i) {
                int& f = first[(size_t)in[pos + i].key];
                if (f < 0) f = (int)sl;
                else if (f != (int)sl) dup_across = true;
            }
            pos += len;
        }
    } else if (t_eff >= 2) {
        // slices exactly as parallel_mergesort_base cuts them
        std::vector<std::pair<int, int>> ks; // (key, slice)
        ks.reserve(n);
        size_t chunk = n / t_eff, split = n % t_eff, pos = 0;
        for (size_t sl = 0; sl < t_eff; ++sl) {
            size_t len = chunk + (sl < split ? 1 : 0);
            for (size_t i = 0; i < len; ++i) ks.emplace_back(in[pos + i].key, (int)sl);
            pos += len;
        }
        std::sort(ks.begin(), ks.end());
        for (size_t i = 1; i < ks.size() && !dup_across; ++i)
            dup_across = ks[i].first == ks[i - 1].first && ks[i].second != ks[i - 1].second;
    }
    pbt::label(TYPE_NAME[ty]);
    pbt::label(p.stable ? "stable" : "unstable");
    pbt::label(p.sampling ? "sampling" : "exact");
    pbt::label(p.greater ? "cmp=greater" : "cmp=less");
    if (!scale) pbt::label(p.oversampling == 1 ? "oversampling=1" : p.oversampling == 2 ? "oversampling=2" : "oversampling=10");
    else if (p.sampling)
        pbt::label(p.oversampling == 1 ? "oversampling=1" : p.oversampling < 10 ? "oversampling=2..9" : p.oversampling < 100 ? "oversampling=10..99"
                                                                                                     : "oversampling=100..1000");
    if (!forms) { // (the target mergesort_forms spends its label slots on the call forms)
        pbt::label(vclass_name);
        pbt::label(arr_name);
        pbt::label(from_prng ? "values:prng" : "values:bytes");
    }
    if (n == 0) pbt::label("n=0");
    else if (n == 1) pbt::label("n=1");
    if (n >= 2 && n < p.threads) pbt::label("2<=n<threads");
    if (n >= 2 && n == p.threads) pbt::label("n==threads");
    if (n > p.threads && n % p.threads != 0) pbt::label("n%threads!=0");
    if (n > p.threads && n % p.threads == 0) pbt::label("n%threads==0");
    if (n > 400) pbt::label("n>400");
    if (p.threads == 1) pbt::label("threads=1");
    else if (t_eff == 2) pbt::label("threads_eff=2");
    else if (t_eff <= 4) pbt::label("threads_eff=3-4");
    else if (t_eff >= 5) pbt::label("threads_eff>=5");
    if (t_eff > 16) pbt::label("threads_eff>16");
    if (scale) {
        static const char* const CLS[] = {"scale:many-threads", "scale:oversampling", "scale:big-n", "scale:huge-n"};
        pbt::label(CLS[scale->cls]);
        if (t_eff > 32) pbt::label("threads_eff>32");
        if (t_eff > 64) pbt::label("threads_eff>64");
        if (t_eff >= 31 && t_eff <= 33) pbt::label("threads_eff=31..33");
        if (t_eff >= 63 && t_eff <= 65) pbt::label("threads_eff=63..65");
        if (p.threads > 20 && n >= 2 && n < p.threads) pbt::label("2<=n<threads(>20)");
        size_t t2 = (size_t)p.threads * p.threads;
        if (p.threads > 20 && n + 2 >= t2 && n <= t2 + p.threads + 2) pbt::label("n~threads^2(threads>20)");
        if (n >= 10000) pbt::label("n>=10^4");
        if (n >= 100000) pbt::label("n>=10^5");
        if (n >= 500000) pbt::label("n>=5*10^5");
        if (n >= 10000 && (vclass_name == VCLASS_NAME[0] || vclass_name == VCLASS_NAME[1] || vclass_name == VCLASS_NAME[4]))
            pbt::label("n>=10^4,<=4-distinct-keys");
        if (p.sampling && t_eff >= 2) {
            // samples taken per thread (oversampling * threads - 1) against the length of its slice
            size_t ns = p.oversampling * t_eff - 1, chunk = n / t_eff;
            pbt::label(ns + 1 > chunk ? "samples/thread>slice" : ns + 1 == chunk || ns + 2 == chunk ? "samples/thread~slice" : "samples/thread<slice");
            if (ns * t_eff >= 100000) pbt::label("samples>=10^5");
        }
    }
    if (dup_across) pbt::label("dup-across-slices");
    if (lifetime_checked(ty) && n >= 2) pbt::label("lifetime-checked");
    if (ty >= 3 && ty <= 6 && forms) pbt::label("cmp_owning_state");
    if (ty >= 3 && ty <= 6 && !forms) {
        pbt::label("cmp_owning_state");
        const size_t blk = ty >= 5 ? 512 / 40 : 512 / 8; // elements per 512-byte deque block (sizeof(StrRec) == 40, sizeof(KT) == 8)
        if (ty == 3 || ty == 5) {
            pbt::label((p.layout / 9) % (blk + 3) % blk != 0 ? "deque_begin_mid_block" : "deque_begin_at_block_start");
            if (n > blk) pbt::label("range_spans_2+_deque_blocks");
            if (t_eff >= 2 && n / t_eff > blk) pbt::label("slice_longer_than_deque_block");
        }
        if (p.layout % 3 != 0) pbt::label("guards_before_range");
        if ((p.layout / 3) % 3 != 0) pbt::label("guards_behind_range");
    }
    bool nt = t_eff >= 2 && n >= 2 * t_eff && dup_across;
    if (nt) pbt::nontrivial();
    if (nt && !forms) {
        pbt::label(p.stable ? (p.sampling ? "NT:stable+sampling" : "NT:stable+exact")
                            : (p.sampling ? "NT:unstable+sampling" : "NT:unstable+exact"));
    }

    std::string form_text;
    if (forms) {
        static const char* const FORM[2][2][4] = {
            {{"form:parallel_mergesort(b,e)", "form:parallel_mergesort(b,e,cmp)", "form:parallel_mergesort(b,e,cmp,t)", "form:parallel_mergesort(b,e,cmp,t,a)"},
             {"form:stable_parallel_mergesort(b,e)", "form:stable_parallel_mergesort(b,e,cmp)", "form:stable_parallel_mergesort(b,e,cmp,t)",
              "form:stable_parallel_mergesort(b,e,cmp,t,a)"}},
            {{"form:?", "form:base<false>(b,e,cmp)", "form:base<false>(b,e,cmp,t)", "form:base<false>(b,e,cmp,t,a)"},
             {"form:?", "form:base<true>(b,e,cmp)", "form:base<true>(b,e,cmp,t)", "form:base<true>(b,e,cmp,t,a)"}}};
        static const char* const CAT[4] = {"cmp-arg:non-const-lvalue", "cmp-arg:const-lvalue", "cmp-arg:prvalue", "cmp-arg:xvalue"};
        const char* f = FORM[p.entry][p.stable ? 1 : 0][p.nargs - 2];
        pbt::label(f);
        form_text = std::string(" ") + f;
        if (p.nargs >= 3) pbt::label(CAT[p.cmp_cat]), form_text += std::string(" ") + CAT[p.cmp_cat];
        if (p.nargs == 5 && !p.sampling) pbt::label(p.mwmsa_default_spelled ? "mwmsa=MWMSA_DEFAULT(spelled)" : "mwmsa=MWMSA_EXACT(spelled)");
        if (p.nargs < 5) pbt::label("mwmsa-defaulted");
        if (p.nargs < 4) pbt::label("num_threads-defaulted(hardware_concurrency)");
        if (p.nargs == 2) pbt::label("comparator-defaulted(std::less)");
        if (p.threads_arg) {
            pbt::label(p.threads_arg == (size_t)-1 ? "num_threads=SIZE_MAX" : p.threads_arg >= ((size_t)1 << 32) ? "num_threads>=2^32" : p.threads_arg > 100 ? "num_threads=101..2^32-1" : "num_threads<=100(size_t)");
            if (n >= 2 && p.threads_arg > 1000 * n) pbt::label("num_threads>1000*n,n>=2");
            form_text += " num_threads=" + std::to_string(p.threads_arg);
        }
        if (p.knobs & 1) pbt::label("knob:force_sequential");
        if (p.knobs & 2) pbt::label("knob:force_parallel");
        if ((p.knobs >> 2) & 3) pbt::label("knob:minimal_k!=2");
        if ((p.knobs >> 4) & 3) pbt::label("knob:minimal_n!=1000");
        if (p.knobs == 0) pbt::label("knobs:library-defaults");
        if (p.knobs) form_text += " knobs=" + std::to_string(p.knobs);
    }

    PBT_LOG("type=" << TYPE_NAME[ty] << (p.stable ? " stable_parallel_mergesort" : " parallel_mergesort") << " n=" << n
                    << " threads=" << p.threads << " (effective " << t_eff << ") splitting=" << (p.sampling ? "sampling" : "exact")
                    << " oversampling=" << p.oversampling << " cmp=" << (p.greater ? "greater" : "less") << " values="
                    << vclass_name << "/" << arr_name << (from_prng ? "/prng" : "/bytes") << form_text << "\n");
    if (pbt::verbose()) {
        if (n <= 80) PBT_LOG("input key#tag: " << show_items(in) << "\n");
        else PBT_LOG("input key#tag: " << show_items(in, 0, 40) << " ... " << show_items(in, n - 20, n) << "\n");
    }

    // ---- reference ------------------------------------------------------------------------
    auto less_key = [&](const Item& a, const Item& b) { return p.greater ? b.key < a.key : a.key < b.key; };
    std::vector<Item> ref(in);
    std::stable_sort(ref.begin(), ref.end(), less_key);

    // ---- call tlx --------------------------------------------------------------------------
    c06::reset_globals(p);
    std::vector<Item> out(in);
    c06::Lifetime lt;
    switch (ty) {
    case 0: lt = c06::sort_int(p, out); break;
    case 1: lt = c06::sort_kt(p, out); break;
    case 2: lt = c06::sort_rec(p, out); break;
    case 3: lt = c06::sort_deque_kt(p, out); break;
    case 4: lt = c06::sort_rev_kt(p, out); break;
    case 5: lt = c06::sort_deque_str(p, out); break;
    case 6: lt = c06::sort_ptr_str(p, out); break;
    case 7: lt = c06::sort_rec_less(p, out); break;
    case 8: lt = c06::sort_ptr_kl_less(p, out); break;
    case 9: lt = c06::sort_vec_kl_fnptr(p, out); break;
    case 10: lt = c06::sort_vec_kl_lambda(p, out); break;
    default: lt = c06::sort_deque_kl_greater(p, out); break;
    }
    if (pbt::verbose()) {
        if (n <= 80) PBT_LOG("output key#tag: " << show_items(out) << "\n");
        if (lifetime_checked(ty))
            PBT_LOG("live instances: before=" << lt.live_before << " after=" << lt.live_after << " end=" << lt.live_end
                                             << " constructed-by-sort=" << lt.copies << "\n");
    }

    // ---- oracles ----------------------------------------------------------------------------
    const std::string what = std::string(p.stable ? "stable_parallel_mergesort" : "parallel_mergesort") + "<" + TYPE_NAME[ty] +
                             "> n=" + std::to_string(n) + " threads=" + std::to_string(p.threads) +
                             (p.sampling ? " sampling(oversampling=" + std::to_string(p.oversampling) + ")" : std::string(" exact")) +
                             (p.greater ? " greater" : " less") + form_text;
    PBT_CHECK(out.size() == n, "C06/size", what << ": size changed");
    // sorted
    for (size_t i = 1; i < n; ++i)
        PBT_CHECK(!less_key(out[i], out[i - 1]), "C06/sorted",
                  what << ": out[" << i - 1 << "]=" << out[i - 1].key << " out[" << i << "]=" << out[i].key << " are out of order; output around: "
                       << show_items(out, i > 4 ? i - 4 : 0, i + 4));
    // permutation (keys; with tags where the type carries them: tags are unique, so this is exact)
    if (linear && ty != 0) {
        // in[t].tag == t for every t: each tag must occur exactly once and carry the key it had in the input
        std::vector<char> seen(n, 0);
        for (size_t i = 0; i < n; ++i) {
            int t = out[i].tag;
            bool ok = t >= 0 && (size_t)t < n && !seen[(size_t)t] && in[(size_t)t].key == out[i].key;
            PBT_CHECK(ok, "C06/permutation",
                      what << ": not a permutation of the input: position " << i << " holds " << out[i].key << "#" << t
                           << " (key#input-index), which is " << (t < 0 || (size_t)t >= n ? "no input element"
                                                                  : seen[(size_t)t]       ? "an element that occurs twice in the output"
                                                                                          : "an input element with a different key"));
            seen[(size_t)t] = 1;
        }
    } else {
        std::vector<Item> a(out);
        if (ty == 0) {
            for (size_t i = 0; i < n; ++i)
                PBT_CHECK(out[i].key == ref[i].key, "C06/permutation",
                          what << ": key multiset changed: position " << i << " holds " << out[i].key << ", sorted input has " << ref[i].key);
        } else {
            auto total = [&](const Item& x, const Item& y) { return less_key(x, y) || (!less_key(y, x) && x.tag < y.tag); };
            std::sort(a.begin(), a.end(), total);
            for (size_t i = 0; i < n; ++i)
                PBT_CHECK(a[i].key == ref[i].key && a[i].tag == ref[i].tag, "C06/permutation",
                          what << ": not a permutation of the input: expected element " << ref[i].key << "#" << ref[i].tag
                               << " (key#input-index) but found " << a[i].key << "#" << a[i].tag);
        }
    }
    // stable: exactly std::stable_sort
    if (p.stable && ty != 0) {
        for (size_t i = 0; i < n; ++i)
            PBT_CHECK(out[i].tag == ref[i].tag, "C06/stable-order",
                      what << ": differs from std::stable_sort at position " << i << ": got " << out[i].key << "#" << out[i].tag
                           << ", expected " << ref[i].key << "#" << ref[i].tag << " (key#input-index); output around: "
                           << show_items(out, i > 4 ? i - 4 : 0, i + 5));
    }
    // every temporary destroyed
    if (lifetime_checked(ty)) {
        PBT_CHECK(lt.live_before == (long)n, "C06/harness", "live-instance counter broken: " << lt.live_before << " != " << n);
        PBT_CHECK(lt.live_after == lt.live_before, "C06/temporaries-destroyed",
                  what << ": " << lt.live_before << " live element instances before the call, " << lt.live_after
                       << " after it returned (" << lt.copies << " instances were constructed by the sort, "
                       << lt.copies - (lt.live_after - lt.live_before) << " destroyed)");
        PBT_CHECK(lt.live_end == 0, "C06/temporaries-destroyed", what << ": " << lt.live_end << " instances still alive after the vector was destroyed");
    }
    // post-classification: did a slice boundary rank cut a run of equal keys? (where the partition tie rule matters)
    if (t_eff >= 2 && !p.sampling) {
        size_t chunk = n / t_eff, split = n % t_eff, pos = 0;
        for (size_t sl = 0; sl + 1 < t_eff; ++sl) {
            pos += chunk + (sl < split ? 1 : 0);
            if (pos > 0 && pos < n && ref[pos - 1].key == ref[pos].key) {
                pbt::label("rank-cuts-equal-run");
                break;
            }
        }
    }
}

} // namespace

namespace {
//! the generator of the targets mergesort / mergesort_iters after the element-type selector (draw order frozen)
//! call-form selectors of the target mergesort_forms (drawn before small_case; applied after its own selector draws)
struct FormSel {
    unsigned entry, nargs, cmp_cat, knobs, huge; // huge: 0 = keep the drawn thread count, else 1 + index into the num_threads table
    bool spelled;
};

void small_case(pbt::Source& src, int ty, unsigned layout, const FormSel* fs = nullptr) {
    unsigned cfg = src.u8();
    Params p;
    p.layout = layout;
    p.stable = cfg & 1;
    p.sampling = cfg & 2;
    p.greater = cfg & 4;
    static const size_t OS[4] = {1, 2, 10, 10};
    p.oversampling = OS[(cfg >> 3) & 3];
    switch (src.weighted({8, 4, 4})) { // thread creation dominates the cost of a case: bias towards few threads
    case 0: p.threads = (unsigned)src.range(1, 4); break;
    case 1: p.threads = (unsigned)src.range(5, 8); break;
    default: p.threads = (unsigned)src.range(9, 20); break;
    }
    size_t n;
    switch (src.weighted({5, 6, 4, 1})) {
    case 0: n = (size_t)src.range(0, 40); break;                                   // small: n < threads common
    case 1: n = (size_t)src.range(0, 400); break;                                  //
    case 2: {                                                                      // around multiples of the thread count
        int64_t m = (int64_t)p.threads * src.range(0, 20) + src.range(0, 2) - 1;
        n = (size_t)std::max<int64_t>(0, m);
        break;
    }
    default: n = (size_t)src.range(401, 5000); break;
    }
    if (fs) {
        // make the case say what the chosen call form means (defaulted arguments have documented values)
        p.entry = fs->entry, p.nargs = fs->nargs, p.cmp_cat = fs->cmp_cat, p.knobs = fs->knobs, p.mwmsa_default_spelled = fs->spelled;
        if (less_only(ty)) p.greater = false; // std::less
        else if (p.nargs == 2) p.nargs = 3;   // only std::less can be defaulted
        if (less_only(ty) && p.nargs == 3 && (fs->cmp_cat & 1)) p.nargs = 2; // (more of the 2-argument form)
        if (ty == 11) p.greater = true;       // std::greater
        if (p.entry == 1 && p.nargs == 2) p.entry = 0; // parallel_mergesort_base has no defaulted comparator
        const unsigned hw = std::thread::hardware_concurrency();
        if (p.nargs < 4 && hw == 0) p.nargs = 4; // (a platform that cannot tell: the defaulted count would be 0, outside the statement)
        if (p.nargs < 5) p.sampling = false;     // MWMSA_DEFAULT == MWMSA_EXACT
        if (p.nargs < 4) p.threads = hw;
        else if (fs->huge) {
            // num_threads far above n: tlx documents "at least one element per thread" (clamps to n), so n real threads run
            if (n > 48) n %= 49;
            const size_t one = 1;
            const size_t T[] = {n + 1,          2 * n + 3,       101,           1000,           65536,           (one << 31) - 1, one << 31,
                                (one << 32) - 1, one << 32,       (one << 32) + 1, (one << 32) + n, one << 48,       one << 63,       (size_t)-2,
                                (size_t)-1,      (one << 32) * 3, (one << 33) + 2, 4097};
            p.threads_arg = T[(fs->huge - 1) % (sizeof T / sizeof T[0])];
            p.threads = p.threads_arg > 0xFFFFFFFFull ? 0xFFFFFFFFu : (unsigned)p.threads_arg;
        }
    }
    int vclass = (int)src.weighted({1, 3, 3, 3, 2});
    int arr = (int)src.weighted({4, 1, 1});
    bool from_prng = n > 400 || src.chance(128);
    uint64_t seed = src.bits(2);

    // ---- input ------------------------------------------------------------------------------
    unsigned d = 2; // number of distinct keys for the duplicate-heavy classes
    if (vclass == 1 || vclass == 4) d = (unsigned)src.range(2, 4);
    std::vector<Item> in(n);
    {
        uint64_t s = seed * 0x9E3779B97F4A7C15ull + 12345;
        auto draw = [&](unsigned nbytes) -> uint32_t {
            if (from_prng) return (uint32_t)(splitmix(s) >> 20);
            return (uint32_t)src.bits(nbytes);
        };
        for (size_t i = 0; i < n; ++i) {
            int k = 0;
            switch (vclass) {
            case 0: k = 7; break;
            case 1: k = (int)(draw(1) % d); break;
            case 2: k = (int)(draw(2) % 65536u); break;
            case 3: k = (int)(draw(2) % (uint32_t)(n / 2 + 1)); break;
            default: k = (int)(i % d); break; // every key occurs in every slice
            }
            in[i] = Item{k, (int)i};
        }
        auto asc = [](const Item& a, const Item& b) { return a.key < b.key; };
        if (arr == 1) std::stable_sort(in.begin(), in.end(), asc);
        if (arr == 2) {
            std::stable_sort(in.begin(), in.end(), asc);
            std::reverse(in.begin(), in.end());
        }
        for (size_t i = 0; i < n; ++i) in[i].tag = (int)i; // tag = position in the input
    }

    check_case(ty, p, in, VCLASS_NAME[vclass], ARR_NAME[arr], from_prng, nullptr, fs != nullptr);
}
} // namespace

PBT_PROPERTY(mergesort) {
    // ---- selectors first -------------------------------------------------------------------
    int ty = (int)src.range(0, 2);
    small_case(src, ty, 0);
}

// ITERATOR / TYPE classes (own target: the byte mapping of `mergesort` stays valid). The statement is over every input
// range and element type: the same generator and oracles on a std::deque range (several 512-byte blocks, begin off
// the block start), a std::reverse_iterator range over a vector, a raw-pointer range into the middle of an array, an
// element type that owns a std::string (destructive move; live-instance counter) and a comparator that owns a
// std::string, a std::vector and a std::function. The sorted range is a SUB-range: 0..2 guard elements on either side
// must stay untouched.
PBT_PROPERTY(mergesort_iters) {
    int ty = 3 + (int)src.weighted({3, 2, 3, 2}); // deque<key+tag> | reverse_iterator | deque<string-record> | pointer-range<string-record>
    unsigned layout = (unsigned)src.bits(2);
    small_case(src, ty, layout);
}

// CALL FORMS (own target: the byte mappings of the other targets stay valid). The statement is about the public sort,
// however it is spelled. Same generator and oracles as `mergesort` / `mergesort_iters`, all seven range / element types
// of those targets plus five further comparator forms (std::less defaulted or spelled, pointer to function, lambda,
// std::greater; a plain-pointer range of a trivial element), and for each case one of the public spellings:
//   entry point   parallel_mergesort | stable_parallel_mergesort | parallel_mergesort_base<false> | <true> (the "main call")
//   arguments     (b,e) [std::less types only] | (b,e,cmp) | (b,e,cmp,num_threads) | (b,e,cmp,num_threads,mwmsa); the
//                 defaulted ones mean std::less<value_type>, std::thread::hardware_concurrency() threads, MWMSA_DEFAULT
//                 (documented == exact splitting); MWMSA_DEFAULT is also passed explicitly
//   comparator    passed as non-const lvalue | const lvalue | prvalue | xvalue (for the owning comparator of the iterator
//                 types the caller's object must be intact afterwards: C06/comparator-lost)
//   num_threads   1..20 as in `mergesort`, or far above n as a size_t: n+1 .. 2^31, 2^32, 2^32+1, 2^48, 2^63, SIZE_MAX
//                 (n <= 48 then: n real threads run)
//   the four parallel_multiway_merge_* switches that are documented for the parallel_multiway_merge() frontends only
//                 (force_sequential, force_parallel, minimal_k, minimal_n) hold arbitrary values (reset for every case)
// Observed exactly as everywhere: sorted, exact permutation, element-for-element std::stable_sort for the stable entry
// points, guards around sub-ranges, live-instance counter of the owning element types.
PBT_PROPERTY(mergesort_forms) {
    // ---- selectors first -------------------------------------------------------------------
    int ty = (int)src.weighted({2, 2, 3, 1, 1, 1, 2, 3, 3, 2, 2, 2}); // see TYPE_NAME
    unsigned layout = (unsigned)src.bits(2);
    FormSel fs;
    fs.entry = (unsigned)src.weighted({3, 2});
    static const unsigned NARGS[4] = {5, 4, 3, 2};
    fs.nargs = NARGS[src.weighted({3, 3, 2, 2})];
    fs.cmp_cat = (unsigned)src.range(0, 3);
    fs.spelled = src.boolean();
    fs.knobs = src.chance(160) ? (unsigned)src.range(0, 63) : 0;
    fs.huge = src.chance(80) ? 1 + (unsigned)src.range(0, 17) : 0;
    static_assert(sizeof(TYPE_NAME) / sizeof(TYPE_NAME[0]) == N_TYPES, "type table");
    small_case(src, ty, layout, &fs);
}

// Scale classes (own target, so that the choice-byte mapping of `mergesort` and its stored witnesses stay valid).
// Same domain, same oracles; only the sizes differ:
//   0 many-threads  threads 21..100 (biased to 31..33, 63..65, 100); n below the thread count, between threads and
//                   2*threads, around threads^2 (where a slice becomes as long as the number of samples taken from it),
//                   around multiples of the thread count, or anywhere up to 3*threads^2
//   1 oversampling  sampling splitting with tlx::parallel_multiway_merge_oversampling drawn from 1..1000 (reset for
//                   every case by reset_globals); threads 1..20, reduced so that threads^2 * oversampling <= 300000;
//                   n small, or around oversampling*threads^2 (more / as many / fewer samples than slice elements)
//   2 big-n         n = 5001..100000 (also 2^14..2^16 +-1), threads 1..20
//   3 huge-n        n = 100001..1000000, threads 2..16, trivial element types only
// The heap-owning record type is used up to n = 20000. Values always come from a PRNG seeded by the choice bytes;
// value classes as in `mergesort` plus "blocks" (runs of equal keys that straddle the slice boundaries).
PBT_PROPERTY(mergesort_scale) {
    // ---- selectors first -------------------------------------------------------------------
    ScaleInfo sc;
    sc.cls = (int)src.weighted({5, 5, 5, 1});
    int ty = (int)src.range(0, 2);
    unsigned cfg = src.u8();
    Params p;
    p.stable = cfg & 1;
    p.sampling = (cfg & 2) || sc.cls == 1;
    p.greater = cfg & 4;
    p.oversampling = 10;
    size_t n = 0;
    auto pick = [&](std::initializer_list<int> v) { return (size_t) * (v.begin() + src.index(v.size())); };
    switch (sc.cls) {
    case 0: {
        switch (src.weighted({3, 3, 2, 1})) {
        case 0: p.threads = (unsigned)src.range(21, 64); break;
        case 1: p.threads = (unsigned)pick({33, 31, 32, 63, 64, 65}); break;
        case 2: p.threads = (unsigned)src.range(65, 100); break;
        default: p.threads = 100; break;
        }
        static const size_t OS[4] = {10, 1, 2, 3};
        p.oversampling = OS[(cfg >> 3) & 3];
        const int64_t t = p.threads;
        switch (src.weighted({2, 2, 3, 3, 2})) {
        case 0: n = (size_t)src.range(2, t - 1); break;
        case 1: n = (size_t)src.range(t, 2 * t); break;
        case 2: n = (size_t)(t * t - 2 + src.range(0, t + 4)); break;
        case 3: n = (size_t)std::max<int64_t>(0, t * src.range(1, 200) + src.range(0, 2) - 1); break;
        default: n = (size_t)src.range(t, 3 * t * t); break;
        }
        break;
    }
    case 1: {
        switch (src.weighted({2, 3, 3, 1})) {
        case 0: p.oversampling = (size_t)src.range(1, 10); break;
        case 1: p.oversampling = (size_t)src.range(11, 100); break;
        case 2: p.oversampling = (size_t)src.range(101, 1000); break;
        default: p.oversampling = pick({1000, 999, 512, 256, 255, 100}); break;
        }
        p.threads = (unsigned)src.range(1, 20);
        while (p.threads > 1 && (size_t)p.threads * p.threads * p.oversampling > 300000) --p.threads;
        const int64_t t = p.threads, ot2 = (int64_t)p.oversampling * t * t;
        switch (src.weighted({3, 3, 4, 1})) {
        case 0: n = (size_t)src.range(0, 400); break;
        case 1: n = (size_t)src.range(401, 5000); break;
        case 2:
            if (ot2 <= 100000) n = (size_t)std::max<int64_t>(0, ot2 - t - 1 + src.range(0, 2 * t + 2));
            else n = (size_t)std::max<int64_t>(0, (int64_t)p.oversampling * t - 1 + src.range(0, 2));
            break;
        default: n = (size_t)src.range(5001, 50000); break;
        }
        break;
    }
    case 2: {
        switch (src.weighted({8, 4, 4})) {
        case 0: p.threads = (unsigned)src.range(1, 4); break;
        case 1: p.threads = (unsigned)src.range(5, 8); break;
        default: p.threads = (unsigned)src.range(9, 20); break;
        }
        static const size_t OS[4] = {10, 1, 2, 100};
        p.oversampling = OS[(cfg >> 3) & 3];
        switch (src.weighted({3, 2, 1})) {
        case 0: n = (size_t)src.range(5001, 20000); break;
        case 1: n = (size_t)src.range(20001, 100000); break;
        default: n = (size_t)((1 << src.range(14, 16)) + src.range(0, 2) - 1); break;
        }
        break;
    }
    default: {
        p.threads = (unsigned)src.range(2, 16);
        static const size_t OS[4] = {10, 1, 2, 100};
        p.oversampling = OS[(cfg >> 3) & 3];
        n = src.weighted({3, 1}) == 0 ? (size_t)src.range(100001, 300000) : (size_t)src.range(300001, 1000000);
        break;
    }
    }
    if (ty == 2 && n > 20000) ty = 1 - (int)(cfg >> 7); // cheap element types for the big inputs
    int vclass = (int)src.weighted({1, 3, 2, 3, 2, 2});
    int arr = (int)src.weighted({4, 1, 1});
    unsigned d = (unsigned)src.range(2, 4);
    uint64_t seed = src.bits(4);

    // ---- input ------------------------------------------------------------------------------
    std::vector<Item> in(n);
    {
        uint64_t s = seed * 0x9E3779B97F4A7C15ull + 999;
        size_t t_eff = std::max<size_t>(1, std::min<size_t>(p.threads, n));
        size_t block = n / (3 * t_eff) + 1 + (size_t)(splitmix(s) % 5); // "blocks": about 3 runs per slice, not aligned to the slices
        for (size_t i = 0; i < n; ++i) {
            int k = 0;
            switch (vclass) {
            case 0: k = 7; break;
            case 1: k = (int)((splitmix(s) >> 20) % d); break;
            case 2: k = (int)((splitmix(s) >> 20) % 1000000u); break;
            case 3: k = (int)((splitmix(s) >> 20) % (uint64_t)(n / 2 + 1)); break;
            case 4: k = (int)(i % d); break;
            default: k = (int)((i / block) % (d + 3)); break;
            }
            in[i] = Item{k, (int)i};
        }
        auto asc = [](const Item& a, const Item& b) { return a.key < b.key; };
        if (arr == 1) std::stable_sort(in.begin(), in.end(), asc);
        if (arr == 2) {
            std::stable_sort(in.begin(), in.end(), asc);
            std::reverse(in.begin(), in.end());
        }
        for (size_t i = 0; i < n; ++i) in[i].tag = (int)i;
    }
    check_case(ty, p, in, VCLASS_NAME[vclass], ARR_NAME[arr], true, &sc);
}
