// C05 — target merge_iters: RecH, unstable entry points, (input iterator kind, output iterator kind) pairs 4..7, owning comparator
#include "C05_merge.hpp"

namespace c05 {
void run_it_rech_u_b(pbt::Source& src, const Cfg& cfg) { run_iters_b<RecH, false>(src, cfg); }
} // namespace c05
