// C03 — sort_api: StdStringSet and UPtrStdStringSet with start depth, windows, Container constructor, uint64_t LCPs
#include "C03_api.hpp"

namespace c03 {
namespace {

struct ApiStdRep {
    typedef ssd::StdStringSet Set;
    std::vector<std::string> arr, content; // exactly N objects
    size_t off = 0, nn = 0;
    Set::Container cont;

    void build(const ApiCase& c) {
        off = c.off;
        nn = c.strs.size();
        size_t N = c.off + nn + c.tail;
        arr = std::vector<std::string>(N);
        for (size_t i = 0; i < N; ++i) arr[i] = i < off ? std::string(GUARD_BEFORE) : i < off + nn ? std::string(c.strs[i - off].data(), c.strs[i - off].size()) : std::string(GUARD_AFTER);
        content = arr;
    }
    size_t n() const { return nn; }
    Set whole() { return Set(arr.data(), arr.data() + arr.size()); }
    Set direct(const ApiCase& c) {
        if (c.ctor == 1) {
            cont = Set::Container(arr.data() + off, nn);
            return Set(cont);
        }
        return Set(arr.data() + off, arr.data() + off + nn);
    }
    //! std::string* + size front-end on strings + off
    bool call_front(const ApiCase& c, uint32_t* lcp, size_t mem) {
        bool dflt = (mem == 0 && (c.mem_rsel & 1));
        std::string* p = arr.data() + off;
        if (c.lcpmode == 0) dflt ? tlx::sort_strings(p, nn) : tlx::sort_strings(p, nn, mem);
        else dflt ? tlx::sort_strings_lcp(p, nn, lcp) : tlx::sort_strings_lcp(p, nn, lcp, mem);
        return true;
    }
    void check_guards(const ApiCase& c) {
        for (size_t i = 0; i < arr.size(); ++i) {
            if (i >= off && i < off + nn) continue;
            PBT_CHECK(arr[i] == content[i], "C03/outside-window", api_describe(c, nn) << ": string " << i << " outside the window was changed");
        }
    }
    void check_before_order(const ApiCase&) {}
    std::pair<const unsigned char*, size_t> view(size_t i) {
        return std::make_pair((const unsigned char*)arr[off + i].data(), arr[off + i].size());
    }
    //! the window is in order (checked before): it is a permutation iff it equals the sorted original contents
    void check_after_order(const ApiCase& c) {
        std::vector<const std::string*> exp(nn);
        for (size_t i = 0; i < nn; ++i) exp[i] = &c.strs[i];
        std::sort(exp.begin(), exp.end(), [](const std::string* a, const std::string* b) { return less_str(*a, *b); });
        for (size_t i = 0; i < nn; ++i)
            PBT_CHECK(arr[off + i] == *exp[i], "C03/permutation",
                      api_describe(c, nn) << ": contents are not a permutation of the input: output[" << i
                                          << "]=" << pbt::show_bytes(arr[off + i].substr(0, 80)) << " but the " << i
                                          << "-th smallest input is " << pbt::show_bytes(exp[i]->substr(0, 80)));
    }
};

struct ApiUPtrRep {
    typedef ssd::UPtrStdStringSet Set;
    std::vector<std::unique_ptr<std::string>> arr;
    std::vector<const std::string*> orig;
    std::vector<std::string> content;
    size_t off = 0, nn = 0;
    Set::Container cont;

    void build(const ApiCase& c) {
        off = c.off;
        nn = c.strs.size();
        size_t N = c.off + nn + c.tail;
        arr = std::vector<std::unique_ptr<std::string>>(N);
        orig.resize(N);
        content.resize(N);
        for (size_t i = 0; i < N; ++i) {
            content[i] = i < off ? std::string(GUARD_BEFORE) : i < off + nn ? c.strs[i - off] : std::string(GUARD_AFTER);
            arr[i].reset(new std::string(content[i].data(), content[i].size()));
            orig[i] = arr[i].get();
        }
    }
    size_t n() const { return nn; }
    Set whole() { return Set(arr.data(), arr.data() + arr.size()); }
    Set direct(const ApiCase& c) {
        if (c.ctor == 1) {
            cont = Set::Container(arr.data() + off, nn);
            return Set(cont);
        }
        return Set(arr.data() + off, arr.data() + off + nn);
    }
    bool call_front(const ApiCase&, uint32_t*, size_t) { return false; }
    void check_guards(const ApiCase& c) {
        for (size_t i = 0; i < arr.size(); ++i) {
            if (i >= off && i < off + nn) continue;
            PBT_CHECK(arr[i].get() == orig[i], "C03/outside-window", api_describe(c, nn) << ": slot " << i << " outside the window was changed");
        }
    }
    void check_before_order(const ApiCase& c) {
        std::vector<const std::string*> a(nn), b(orig.begin() + off, orig.begin() + off + nn);
        for (size_t i = 0; i < nn; ++i) {
            PBT_CHECK(arr[off + i].get() != nullptr, "C03/permutation", api_describe(c, nn) << ": output[" << i << "] is a null unique_ptr");
            a[i] = arr[off + i].get();
        }
        std::sort(a.begin(), a.end());
        std::sort(b.begin(), b.end());
        for (size_t i = 0; i < nn; ++i)
            PBT_CHECK(a[i] == b[i], "C03/permutation",
                      api_describe(c, nn) << ": output is not a permutation of the original string objects (sorted pointer lists differ at " << i << ")");
    }
    std::pair<const unsigned char*, size_t> view(size_t i) {
        return std::make_pair((const unsigned char*)arr[off + i]->data(), arr[off + i]->size());
    }
    void check_after_order(const ApiCase& c) {
        for (size_t i = 0; i < orig.size(); ++i)
            PBT_CHECK(*orig[i] == content[i], "C03/content-changed", api_describe(c, nn) << ": contents of the string object of original slot " << i << " were modified");
    }
};

} // namespace

void api_std(const ApiCase& c) { run_api_modes<ApiStdRep>(c); }
void api_uptr(const ApiCase& c) { run_api_modes<ApiUPtrRep>(c); }

} // namespace c03
