// C05 — plain int, std::vector iterators, std::greater, stable entry points
#include "C05_merge.hpp"

namespace c05 {
void run_int_greater_s(pbt::Source& src, const Cfg& cfg) { run_case<int, false, true>(src, cfg, std::greater<int>()); }
} // namespace c05
