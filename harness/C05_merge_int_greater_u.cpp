// C05 — plain int, std::vector iterators, std::greater, unstable entry points
#include "C05_merge.hpp"

namespace c05 {
void run_int_greater_u(pbt::Source& src, const Cfg& cfg) { run_case<int, false, false>(src, cfg, std::greater<int>()); }
} // namespace c05
