// C05 — target `merge_advance`: the public two-way entry points of tlx/algorithm/merge_advance.hpp called DIRECTLY
// (multiway_merge_base reaches merge_advance() only for k = 2 and, through the 3-way combined routine, for the overhang;
// merge_advance_usual() is not reached by any other entry point at all):
//
//   function     tlx::merge_advance | tlx::merge_advance_movc | tlx::merge_advance_usual
//   element      int | 8-byte record | 40-byte record (trivially copyable) | 16-byte record owning a heap cell | record
//                owning a std::string (NOT trivially copy constructible: the conditional-move variant copies both heads
//                into locals in every step)
//   iterators    RandomAccessIterator1 / RandomAccessIterator2 / OutputIterator / DiffType are four independent template
//                parameters: (T*, T*, T*, ptrdiff_t) | (vector::iterator, T*, vector::iterator, int) |
//                (deque::iterator, vector::iterator, T*, size_t) | (const T*, deque::const_iterator, deque::iterator,
//                unsigned) -- mixed kinds, const inputs, signed and UNSIGNED max_size types
//   shapes       two sorted inputs of 0..8 | 0..40 | 0..300 elements (either or both empty), 1..8 key values or wide
//   max_size     total | near total | uniform | 0 | 1 | total-1 | the point where the first input runs out -1/+0/+1
//                (the loop is cut by max_size before either input ends / exactly when one ends / the tail copy is partial)
//
// Oracle = the same as for the multiway entry points with k = 2 (statement: exactly max_size elements, the smallest ones,
// in order, returned end of the written range, both begin iterators left just past the elements taken): reference =
// stable two-way merge of (key, seq, pos) records compared by key only. merge_advance() and merge_advance_movc() are
// what the STABLE entry points run for k = 2, so for them the output must equal the stable reference element by element
// (ties: first input first); for merge_advance_usual(), which no stable entry point reaches, any order among equivalent
// elements is accepted as long as each input contributes a prefix in order.
#pragma once
#include "C05_merge.hpp"

#include <tlx/algorithm/merge_advance.hpp>

namespace c05ma {
using namespace c05;

template <class E>
struct PtrStore {
    using It = E*;
    static constexpr const char* name = "T*";
    std::vector<E> v;
    void fill(const std::vector<E>& l, uint64_t) { v = l; } // exact-size heap block: ASan red zone right behind it
    It begin() { return v.data(); }
    const E& at(size_t j) const { return v[j]; }
};
template <class E>
struct CPtrStore {
    using It = const E*;
    static constexpr const char* name = "const T*";
    std::vector<E> v;
    void fill(const std::vector<E>& l, uint64_t) { v = l; }
    It begin() { return v.data(); }
    const E& at(size_t j) const { return v[j]; }
};
template <class E>
struct VitStore {
    using It = typename std::vector<E>::iterator;
    static constexpr const char* name = "vector::iterator";
    std::vector<E> v;
    void fill(const std::vector<E>& l, uint64_t) { v = l; }
    It begin() { return v.begin(); }
    const E& at(size_t j) const { return v[j]; }
};
template <class E, bool Const>
struct DitStore {
    using It = typename std::conditional<Const, typename std::deque<E>::const_iterator, typename std::deque<E>::iterator>::type;
    static constexpr const char* name = Const ? "deque::const_iterator" : "deque::iterator";
    std::deque<E> d;
    void fill(const std::vector<E>& l, uint64_t salt) { // begin usually not at the start of a 512-byte block
        const size_t blk = std::max<size_t>(1, 512 / sizeof(E));
        const size_t off = (size_t)(salt % (blk + 3));
        for (size_t j = 0; j < off; ++j) d.push_back(l.empty() ? E() : l[0]);
        for (const E& e : l) d.push_back(e);
        for (size_t j = 0; j < off; ++j) d.pop_front();
    }
    It begin() { return It(d.begin()); }
    const E& at(size_t j) const { return d[j]; }
};

static const char* const FN_NAME[3] = {"merge_advance", "merge_advance_movc", "merge_advance_usual"};
static const char* const FN_LABEL[3] = {"fn=merge_advance", "fn=merge_advance_movc", "fn=merge_advance_usual"};

template <class E, class S1, class S2, class SO, class Diff>
void run_ma(pbt::Source& src, int fn, bool desc, const char* pair_label, const char* diff_name) {
    using T = Tr<E>;
    auto kless = [desc](int a, int b) { return desc ? b < a : a < b; };
    const bool assert_stable = fn != 2;

    // ---- selectors, then the shape
    const int szclass = (int)src.weighted({6, 3, 1});
    const int vsel = (int)src.range(0, 9); // 0..7 -> 1..8 distinct values (heavy ties); 8,9 -> wide
    const int nvals = vsel < 8 ? vsel + 1 : 1001;
    const size_t lenmode = src.weighted({4, 4, 3, 1, 1, 2, 6});
    const int lensel = (int)src.range(0, 2);
    const int cap = szclass == 0 ? 8 : szclass == 1 ? 40 : 300;
    int n[2]; // a zero byte gives one element, the largest value the empty input
    n[0] = ((int)src.range(0, cap) + 1) % (cap + 1);
    n[1] = ((int)src.range(0, cap) + 1) % (cap + 1);
    const uint64_t seed = src.bits(3);
    Rng rng{seed * 0x2545F4914F6CDD1Dull + 0x13579bdfull + ((uint64_t)(fn * 2 + (desc ? 1 : 0)) << 44)};
    const std::ptrdiff_t total = n[0] + n[1];
    std::vector<int> keys[2];
    for (int i = 0; i < 2; ++i) {
        keys[i].resize((size_t)n[i]);
        for (int j = 0; j < n[i]; ++j) keys[i][(size_t)j] = total <= 48 ? (int)src.range(0, nvals - 1) : (int)rng.below(nvals);
        std::sort(keys[i].begin(), keys[i].end(), kless);
    }
    // ---- model: the stable two-way merge, and the output position at which the first input runs out
    struct RefE {
        int key, seq, pos;
    };
    std::vector<RefE> ref;
    ref.reserve((size_t)total);
    std::ptrdiff_t exh_at = 0;
    {
        int i0 = 0, i1 = 0;
        bool seen = false;
        while (i0 < n[0] || i1 < n[1]) {
            if (!seen && (i0 == n[0] || i1 == n[1])) exh_at = (std::ptrdiff_t)ref.size(), seen = true;
            if (i1 < n[1] && (i0 == n[0] || kless(keys[1][(size_t)i1], keys[0][(size_t)i0]))) ref.push_back(RefE{keys[1][(size_t)i1], 1, i1}), ++i1;
            else ref.push_back(RefE{keys[0][(size_t)i0], 0, i0}), ++i0;
        }
        if (!seen) exh_at = total;
    }
    std::ptrdiff_t length = total;
    switch (lenmode) {
    case 0: length = total; break;
    case 1: length = total - (std::ptrdiff_t)src.range(0, total); break;
    case 2: length = (std::ptrdiff_t)src.range(0, total); break;
    case 3: length = 0; break;
    case 4: length = std::min<std::ptrdiff_t>(1, total); break;
    case 5: length = std::max<std::ptrdiff_t>(0, total - 1); break;
    default: length = std::min(total, std::max<std::ptrdiff_t>(0, exh_at + lensel - 1)); break;
    }
    std::ptrdiff_t want[2] = {0, 0}; // elements the stable merge takes from each input
    for (std::ptrdiff_t j = 0; j < length; ++j) ++want[ref[(size_t)j].seq];

    // ---- inputs / output (guard cells around the requested range; beyond them ASan red zones for the vector kinds)
    std::vector<E> orig[2];
    for (int i = 0; i < 2; ++i)
        for (int j = 0; j < n[i]; ++j) orig[i].push_back(T::make(keys[i][(size_t)j], i, j));
    S1 s1;
    S2 s2;
    s1.fill(orig[0], rng.next() >> 8);
    s2.fill(orig[1], rng.next() >> 8);
    const std::ptrdiff_t G = 2;
    const E poison = T::make(POISON_KEY, 250, 60000);
    SO out;
    out.fill(std::vector<E>((size_t)(length + 2 * G), poison), rng.next() >> 8);

    typename S1::It b1 = s1.begin(), e1 = b1 + n[0];
    typename S2::It b2 = s2.begin(), e2 = b2 + n[1];
    const typename S1::It b1_0 = b1;
    const typename S2::It b2_0 = b2;
    typename SO::It target = out.begin() + G, ret = target;

    // ---- labels
    bool shared_key = false;
    for (int x : keys[0]) shared_key = shared_key || std::binary_search(keys[1].begin(), keys[1].end(), x, kless);
    pbt::label(FN_LABEL[fn]);
    pbt::label(pair_label);
    pbt::label(std::is_same<E, int>::value    ? "type=int"
               : std::is_same<E, Rec8>::value ? "type=rec8"
               : std::is_same<E, Rec40>::value ? "type=rec40"
               : std::is_same<E, RecH>::value  ? "type=rech_owning_16B"
                                               : "type=recs_owning_string");
    pbt::label(std::is_trivially_copy_constructible<E>::value ? "trivially_copy_constructible" : "NOT_trivially_copy_constructible");
    if (!std::is_trivially_copy_constructible<E>::value)
        pbt::label(fn == 0 ? "merge_advance:nontrivial_type" : fn == 1 ? "merge_advance_movc:nontrivial_type" : "merge_advance_usual:nontrivial_type");
    pbt::label(desc ? "cmp=greater" : "cmp=less");
    pbt::label(szclass == 0 ? "sizes=0..8" : szclass == 1 ? "sizes=0..40" : "sizes=0..300");
    if (n[0] == 0 && n[1] == 0) pbt::label("both_inputs_empty");
    else if (n[0] == 0) pbt::label("input1_empty");
    else if (n[1] == 0) pbt::label("input2_empty");
    if (length == total) pbt::label("max_size=total");
    else pbt::label("max_size<total");
    if (length == 0) pbt::label("max_size=0");
    if (n[0] > 0 && n[1] > 0) {
        // how the compare loop ends and what the tail copy has to do
        if (length < exh_at) pbt::label("loop_cut_by_max_size(no_input_exhausted)");
        else if (length == exh_at) pbt::label("max_size_reached_exactly_when_an_input_runs_out");
        else pbt::label(length == total ? "tail_copy_full" : "tail_copy_partial");
        if (exh_at < total && length >= exh_at) pbt::label(ref[(size_t)exh_at].seq == 0 ? "input2_exhausted_first(tail_from_1)" : "input1_exhausted_first(tail_from_2)");
    }
    if (shared_key) pbt::label("key_in_both_inputs");
    if (n[0] > 0 && n[1] > 0 && shared_key && length > 0) pbt::nontrivial();

    if (pbt::verbose()) {
        PBT_LOG("tlx::" << FN_NAME[fn] << "(" << S1::name << ", " << S2::name << ", out " << SO::name << ", max_size type " << diff_name
                        << ") elem=" << T::name << " (" << sizeof(E) << " bytes) cmp=" << (desc ? "greater" : "less") << " max_size=" << length
                        << " of total=" << total << "\n");
        for (int i = 0; i < 2; ++i) {
            PBT_LOG("  input" << (i + 1) << " n=" << n[i] << " keys:");
            for (int j = 0; j < n[i] && j < 64; ++j) PBT_LOG(" " << keys[i][(size_t)j]);
            if (n[i] > 64) PBT_LOG(" ... " << keys[i].back());
            PBT_LOG("\n");
        }
    }

    // ---- the call under test
    DirCmp<E> cmp(desc);
    g_cmp_calls = 0;
    g_cmp_budget = 64 * ((long)total + 3) * 3 + 10000;
    const Diff max_size = (Diff)length;
    try {
        switch (fn) {
        case 0: ret = tlx::merge_advance(b1, e1, b2, e2, target, max_size, cmp); break;
        case 1: ret = tlx::merge_advance_movc(b1, e1, b2, e2, target, max_size, cmp); break;
        default: ret = tlx::merge_advance_usual(b1, e1, b2, e2, target, max_size, cmp); break;
        }
    } catch (const StepBound&) {
        PBT_CHECK(false, "C05/runaway-comparisons", "the two-way merge made more than " << g_cmp_budget << " comparator calls without returning");
    }

    // ---- oracle
    PBT_CHECK(ret - target == length, "C05/return", "returned iterator is target+" << (ret - target) << ", expected target+" << length);
    for (std::ptrdiff_t g = 0; g < G; ++g) {
        PBT_CHECK(T::same(out.at((size_t)g), poison), "C05/overwrite", "cell target-" << (G - g) << " (before the output range) was written");
        PBT_CHECK(T::same(out.at((size_t)(G + length + g)), poison), "C05/overwrite",
                  "cell target+" << (length + g) << " (past max_size = " << length << ") was written");
    }
    const std::ptrdiff_t adv[2] = {b1 - b1_0, b2 - b2_0};
    if (pbt::verbose()) {
        PBT_LOG("  output:");
        for (std::ptrdiff_t j = 0; j < length && j < 96; ++j) {
            const E& e = out.at((size_t)(G + j));
            if (T::ident) PBT_LOG(" " << T::key(e) << "@" << T::seq(e) << "." << T::pos(e));
            else PBT_LOG(" " << T::key(e));
        }
        PBT_LOG("\n  begin1 advanced by " << adv[0] << ", begin2 by " << adv[1] << " (stable merge: " << want[0] << ", " << want[1] << ")\n");
    }
    for (int i = 0; i < 2; ++i)
        PBT_CHECK(adv[i] >= 0 && adv[i] <= n[i], "C05/advance", "begin" << (i + 1) << " advanced by " << adv[i] << ", the input has " << n[i] << " elements");
    PBT_CHECK(adv[0] + adv[1] == length, "C05/advance",
              "the begin iterators advanced by " << adv[0] << " + " << adv[1] << " elements, " << length << " were to be merged");
    std::ptrdiff_t taken[2] = {0, 0};
    for (std::ptrdiff_t j = 0; j < length; ++j) {
        const E& e = out.at((size_t)(G + j));
        PBT_CHECK(!T::same(e, poison), "C05/unwritten", "output slot " << j << " of " << length << " was never written");
        PBT_CHECK(T::key(e) == ref[(size_t)j].key, "C05/keys",
                  "output slot " << j << " has key " << T::key(e) << ", the " << j << "-th smallest key is " << ref[(size_t)j].key);
        if (T::ident) {
            const int s = T::seq(e), p = T::pos(e);
            PBT_CHECK((s == 0 || s == 1) && p >= 0 && p < n[s] && T::same(e, orig[s][(size_t)p]), "C05/not-an-input",
                      "output slot " << j << " holds (key " << T::key(e) << ", seq " << s << ", pos " << p << ") which is not an element of the inputs");
            PBT_CHECK(p == taken[s], "C05/prefix",
                      "output slot " << j << " is element " << p << " of input " << (s + 1) << " but element " << taken[s]
                                     << " of that input has not been emitted (not a prefix in order)");
            ++taken[s];
            if (assert_stable)
                PBT_CHECK(s == ref[(size_t)j].seq && p == ref[(size_t)j].pos, "C05/stable-order",
                          FN_NAME[fn] << " (the two-way merge of the stable entry points): output slot " << j << " is (key " << T::key(e) << ", input "
                                      << (s + 1) << ", pos " << p << "), the stable merge has (key " << ref[(size_t)j].key << ", input "
                                      << (ref[(size_t)j].seq + 1) << ", pos " << ref[(size_t)j].pos << ") there");
        }
    }
    if (T::ident) {
        for (int i = 0; i < 2; ++i)
            PBT_CHECK(adv[i] == taken[i], "C05/advance",
                      "begin" << (i + 1) << " advanced by " << adv[i] << " but " << taken[i] << " elements of that input were emitted");
    } else if (assert_stable) {
        // indistinguishable elements: under the stable rule the numbers taken from each input are still determined
        for (int i = 0; i < 2; ++i)
            PBT_CHECK(adv[i] == want[i], "C05/advance",
                      "begin" << (i + 1) << " advanced by " << adv[i] << ", the stable two-way merge takes " << want[i] << " elements from that input");
    } else {
        std::vector<int> pre;
        for (int i = 0; i < 2; ++i)
            for (std::ptrdiff_t j = 0; j < adv[i]; ++j) pre.push_back(keys[i][(size_t)j]);
        std::sort(pre.begin(), pre.end(), kless);
        for (std::ptrdiff_t j = 0; j < length; ++j)
            PBT_CHECK(pre[(size_t)j] == ref[(size_t)j].key, "C05/advance", "the consumed input prefixes are not the emitted elements");
    }
    for (int j = 0; j < n[0]; ++j) PBT_CHECK(T::same(s1.at((size_t)j), orig[0][(size_t)j]), "C05/input-modified", "input 1 element " << j << " was modified");
    for (int j = 0; j < n[1]; ++j) PBT_CHECK(T::same(s2.at((size_t)j), orig[1][(size_t)j]), "C05/input-modified", "input 2 element " << j << " was modified");
}

//! the four (iterator1, iterator2, output, DiffType) combinations
template <class E>
void run_type(pbt::Source& src, int fn, int pair, bool desc) {
    switch (pair) {
    case 0: run_ma<E, PtrStore<E>, PtrStore<E>, PtrStore<E>, std::ptrdiff_t>(src, fn, desc, "its=(T*,T*,T*,ptrdiff_t)", "ptrdiff_t"); break;
    case 1: run_ma<E, VitStore<E>, PtrStore<E>, VitStore<E>, int>(src, fn, desc, "its=(vector_it,T*,vector_it,int)", "int"); break;
    case 2: run_ma<E, DitStore<E, false>, VitStore<E>, PtrStore<E>, size_t>(src, fn, desc, "its=(deque_it,vector_it,T*,size_t)", "size_t"); break;
    default: run_ma<E, CPtrStore<E>, DitStore<E, true>, DitStore<E, false>, unsigned>(src, fn, desc, "its=(const_T*,deque_const_it,deque_it,unsigned)", "unsigned"); break;
    }
}

// one TU for the trivially copyable element types (with the dispatcher), one for the owning ones
void run_owning(pbt::Source& src, int type, int fn, int pair, bool desc);

} // namespace c05ma
