// C15 — uniform access to the three sorting-network families.
//   FAM 0 = best, 1 = bose_nelson, 2 = bose_nelson_parameter
//   direct<FAM>(n, a, cswap)   calls the size-specific network sortN (n = 2..16)
//   direct_default<FAM>(n, a)  the same with the family's default compare-exchange type CS_IfSwap<std::less<T>>
//   dispatch<FAM>(b, e, cmp)   the size-dispatching entry point sort(begin, end, cmp)
#pragma once
#include "../engine/pbt.hpp"

#include <cstddef>
#include <cstdlib>
#include <utility>

#include <tlx/sort/networks/best.hpp>
#include <tlx/sort/networks/bose_nelson.hpp>
#include <tlx/sort/networks/bose_nelson_parameter.hpp>

namespace c15 {

namespace sn = tlx::sort_networks;

static const char* const FAMILY_NAME[3] = {"best", "bose_nelson", "bose_nelson_parameter"};

template <int FAM, int N>
struct Net;

#define C15_NET(N)                                                                                     \
    template <>                                                                                        \
    struct Net<0, N> {                                                                                 \
        template <class It, class CS>                                                                  \
        static void run(It a, CS cs) { sn::best::sort##N(a, cs); }                                     \
    };                                                                                                 \
    template <>                                                                                        \
    struct Net<1, N> {                                                                                 \
        template <class It, class CS>                                                                  \
        static void run(It a, CS cs) { sn::bose_nelson::sort##N(a, cs); }                              \
    };                                                                                                 \
    template <>                                                                                        \
    struct Net<2, N> {                                                                                 \
        template <class It, class CS, size_t... I>                                                     \
        static void run_(It a, CS cs, std::index_sequence<I...>) { sn::bose_nelson_parameter::sort##N(a[I]..., cs); } \
        template <class It, class CS>                                                                  \
        static void run(It a, CS cs) { run_(a, cs, std::make_index_sequence<N>()); }                   \
    };
C15_NET(2) C15_NET(3) C15_NET(4) C15_NET(5) C15_NET(6) C15_NET(7) C15_NET(8) C15_NET(9) C15_NET(10)
C15_NET(11) C15_NET(12) C15_NET(13) C15_NET(14) C15_NET(15) C15_NET(16)
#undef C15_NET

#define C15_SWITCH(CALL)                                                                               \
    switch (n) {                                                                                       \
    case 2: Net<FAM, 2>::CALL; break;                                                                  \
    case 3: Net<FAM, 3>::CALL; break;                                                                  \
    case 4: Net<FAM, 4>::CALL; break;                                                                  \
    case 5: Net<FAM, 5>::CALL; break;                                                                  \
    case 6: Net<FAM, 6>::CALL; break;                                                                  \
    case 7: Net<FAM, 7>::CALL; break;                                                                  \
    case 8: Net<FAM, 8>::CALL; break;                                                                  \
    case 9: Net<FAM, 9>::CALL; break;                                                                  \
    case 10: Net<FAM, 10>::CALL; break;                                                                \
    case 11: Net<FAM, 11>::CALL; break;                                                                \
    case 12: Net<FAM, 12>::CALL; break;                                                                \
    case 13: Net<FAM, 13>::CALL; break;                                                                \
    case 14: Net<FAM, 14>::CALL; break;                                                                \
    case 15: Net<FAM, 15>::CALL; break;                                                                \
    case 16: Net<FAM, 16>::CALL; break;                                                                \
    default: abort();                                                                                  \
    }

//! `a` is any random-access iterator (the existing targets pass T*)
template <int FAM, class It, class CS>
inline void direct(int n, It a, CS cs) {
    C15_SWITCH(run(a, cs))
}
//! the family's documented default compare-exchange: CS_IfSwap<std::less<T>>.  (Calling sortN(a) without the second
//! argument does not compile in tlx: the default argument `CSwap()` needs a default constructor CS_IfSwap does not have.)
template <int FAM, class T>
inline void direct_default(int n, T* a) {
    direct<FAM>(n, a, sn::CS_IfSwap<std::less<T>>(std::less<T>()));
}
#undef C15_SWITCH

template <int FAM>
struct Dispatch;
template <>
struct Dispatch<0> {
    template <class It, class C>
    static void run(It b, It e, C c) { sn::best::sort(b, e, c); }
    template <class It>
    static void run_default(It b, It e) { sn::best::sort(b, e); }
};
template <>
struct Dispatch<1> {
    template <class It, class C>
    static void run(It b, It e, C c) { sn::bose_nelson::sort(b, e, c); }
    template <class It>
    static void run_default(It b, It e) { sn::bose_nelson::sort(b, e); }
};
template <>
struct Dispatch<2> {
    template <class It, class C>
    static void run(It b, It e, C c) { sn::bose_nelson_parameter::sort(b, e, c); }
    template <class It>
    static void run_default(It b, It e) { sn::bose_nelson_parameter::sort(b, e); }
};

} // namespace c15
