// C03 — StringSuffixSet (suffix indices into one text).
#include "C03_runner.hpp"

namespace c03 {
namespace {

struct SuffixRep {
    typedef ssd::StringSuffixSet Set;
    std::string text;
    std::vector<size_t> sa, orig;

    void build(const Case& c) {
        text = std::string(c.text.data(), c.text.size());
        sa = std::vector<size_t>(c.sa.begin(), c.sa.end());
        orig = sa;
    }
    size_t size() const { return sa.size(); }
    Set set() { return Set(text, sa.begin(), sa.end()); }
    bool call_front(const Case&, uint32_t*, size_t) { return false; }

    void check_before_order(const Case& c) {
        PBT_CHECK(sa.size() == orig.size(), "C03/permutation", "suffix array size changed");
        std::vector<size_t> a(sa), b(orig);
        std::sort(a.begin(), a.end());
        std::sort(b.begin(), b.end());
        for (size_t i = 0; i < a.size(); ++i)
            PBT_CHECK(a[i] == b[i], "C03/permutation",
                      describe(c, a.size()) << ": output is not a permutation of the original suffix indices (sorted lists differ at "
                                            << i << ": " << a[i] << " vs " << b[i] << ")");
    }
    std::pair<const unsigned char*, size_t> view(size_t i) {
        return std::make_pair((const unsigned char*)text.data() + sa[i], text.size() - sa[i]);
    }
    void check_after_order(const Case& c) {
        PBT_CHECK(text == c.text, "C03/content-changed", describe(c, sa.size()) << ": the text was modified");
    }
};

} // namespace

C03_DEFINE_RUN(run_suffix, SuffixRep)

} // namespace c03
