// C08 — multisequence_partition / multisequence_selection split sorted runs at
// the exact global rank.
//
// One case = one tuple of m non-empty sorted sequences + one configuration
// (element type, comparator, iterator type, rank type); EVERY rank 0..N of the
// tuple is checked.  Oracle (DESIGN §4 C08):
//   partition: offsets inside their sequences, sum == rank, max(left) <=
//   min(right) under the comparator, tie rule (among equivalent elements cut by
//   the split the left side takes them from lower-numbered sequences first).
//   These four together determine the split uniquely (= the first `rank`
//   elements of the stable merge), which is cross-checked as a safety net.
//   selection (ranks 0..N-1): value equivalent to merged[rank];
//   offset == rank - lower_bound(merged, value).
// Rank N for selection is documented as "throws / undefined" and not asserted.
// Targets partition_scale / selection_scale: same oracle on big tuples (gen_shape_scale in C08_common.hpp: up to 400
// sequences, lengths up to ~19000, N up to ~10^5); tuples with N > 600 get a bounded, boundary-biased rank sample.
#include "C08_common.hpp"

namespace {
using namespace c08;

void dispatch(int cfg, int rsel, bool ptr, const std::vector<std::vector<int>>& keys, bool dp, bool ds, Stats& st) {
    switch (cfg) {
    case 0: run_cfg0(rsel, ptr, keys, dp, ds, st); break;
    case 1: run_cfg1(rsel, ptr, keys, dp, ds, st); break;
    case 2: run_cfg2(rsel, ptr, keys, dp, ds, st); break;
    case 3: run_cfg3(rsel, ptr, keys, dp, ds, st); break;
    case 4: run_cfg4(rsel, ptr, keys, dp, ds, st); break;
    default: run_cfg5(rsel, ptr, keys, dp, ds, st); break;
    }
}

void shape_labels(const Shape& sh, int cfg) {
    int m = sh.m;
    pbt::label(m == 1 ? "m=1" : m == 2 ? "m=2" : m <= 4 ? "m=3..4" : "m>=5");
    pbt::label(cfg == 0 || cfg == 3 ? "cmp=less" : cfg == 1 || cfg == 4 ? "cmp=greater" : "cmp=projection");
    pbt::label(cfg < 3 ? "elem=int" : "elem=record");
    size_t lo = SIZE_MAX, hi = 0;
    bool edge = false;
    for (auto& k : sh.keys) {
        lo = std::min(lo, k.size());
        hi = std::max(hi, k.size());
    }
    for (int j = 1; j <= 6; ++j)
        if (hi + 1 >= (1u << j) && hi <= (1u << j) + 1) edge = true;
    if (edge) pbt::label("nmax_at_pow2_edge");
    if (m >= 2 && hi >= 8 * lo) pbt::label("lengths_very_unequal");
    if (lo == 1 && m >= 2) pbt::label("has_len1_seq");
    if (hi >= 64) pbt::label("nmax>=64");
    if (sh.m >= 17) pbt::label("m>=17");
    if (sh.wide) pbt::label("keys_wide");
    else if (sh.distinct == 1) pbt::label("keys_all_equal");
    else pbt::label("keys_few_distinct");
}

//! some key occurs in >= 2 sequences
bool key_in_two_seqs(const Shape& sh) {
    std::vector<std::pair<int, int>> ks;
    for (int i = 0; i < sh.m; ++i)
        for (int a : sh.keys[i]) ks.emplace_back(a, i);
    std::sort(ks.begin(), ks.end());
    for (size_t i = 1; i < ks.size(); ++i)
        if (ks[i].first == ks[i - 1].first && ks[i].second != ks[i - 1].second) return true;
    return false;
}

void scale_labels(const ScaleShape& sh, int cfg) {
    static const char* const CLS[] = {"scale:long+short", "scale:many-short", "scale:several-long", "scale:big-N", "scale:many-mid"};
    pbt::label(CLS[sh.cls]);
    pbt::label(cfg == 0 || cfg == 3 ? "cmp=less" : cfg == 1 || cfg == 4 ? "cmp=greater" : "cmp=projection");
    pbt::label(cfg < 3 ? "elem=int" : "elem=record");
    size_t lo = SIZE_MAX, hi = 0, N = 0;
    for (auto& k : sh.keys) {
        lo = std::min(lo, k.size());
        hi = std::max(hi, k.size());
        N += k.size();
    }
    int m = sh.m;
    pbt::label(m == 1 ? "m=1" : m <= 8 ? "m=2..8" : m <= 16 ? "m=9..16" : m <= 99 ? "m=17..99" : m <= 255 ? "m=100..255" : "m>=256");
    if (m >= 127 && m <= 129) pbt::label("m=127..129");
    if (m >= 255 && m <= 257) pbt::label("m=255..257");
    pbt::label(hi < 64 ? "nmax<64" : hi < 1000 ? "nmax=64..999" : hi < 4096 ? "nmax=1000..4095" : "nmax>=4096");
    for (int j = 7; j <= 14; ++j)
        if (hi + 1 >= (1u << j) && hi <= (1u << j) + 1) pbt::label("nmax_at_pow2_edge(>=127)");
    if (hi == 1) pbt::label("all_len1");
    if (m >= 2 && lo == 1 && hi >= 1000) pbt::label("len1_next_to_len>=1000");
    if (m >= 2 && hi >= 100 * lo) pbt::label("lengths_ratio>=100");
    pbt::label(N <= 600 ? "N<=600" : N < 10000 ? "N=601..9999" : N < 50000 ? "N=10000..49999" : "N>=50000");
    if (sh.distinct == 1) pbt::label("keys_all_equal");
    else if (sh.distinct <= 6) pbt::label("keys_few_distinct");
    else if (sh.distinct == 1000) pbt::label("keys_1000");
    else if (sh.distinct == (1 << 20)) pbt::label("keys_nearly_unique");
    else pbt::label("keys_N/8_distinct");
    if (sh.stagger == 1) pbt::label("staggered_half");
    if (sh.stagger == 2) pbt::label("staggered_disjoint");
}

void run_generated(pbt::Source& src, bool dp, bool ds, bool scale = false) {
    int cfg = (int)src.range(0, 5);
    int rsel = (int)src.weighted({3, 2, 1});
    bool ptr = src.boolean();
    Stats st;
    Shape sh;
    if (!scale) {
        sh = gen_shape(src);
        shape_labels(sh, cfg);
    } else {
        ScaleShape ss = gen_shape_scale(src);
        scale_labels(ss, cfg);
        st.sample_ranks = true;
        st.rank_seed = ss.rank_seed;
        sh = ss;
    }
    PBT_LOG("cfg=" << cfg << " (0 int/less(default) 1 int/greater 2 int/key/4 3 rec/less 4 rec/greater 5 rec/key/4) rank_t=" << rsel
                   << " (0 ptrdiff_t 1 size_t 2 int) iterator=" << (ptr ? "T*" : "vector::iterator") << " m=" << sh.m << "\n");
    pbt::label(rsel == 0 ? "rank_t=ptrdiff_t" : rsel == 1 ? "rank_t=size_t" : "rank_t=int");
    dispatch(cfg, rsel, ptr, sh.keys, dp, ds, st);
    if (scale) {
        pbt::label(st.sampled ? "ranks_sampled" : "ranks_all");
        if (st.sampled) pbt::label(st.ranks_checked < 300 ? "ranks_checked<300" : st.ranks_checked < 500 ? "ranks_checked=300..499" : "ranks_checked>=500");
        PBT_LOG("ranks checked: " << st.ranks_checked << (st.sampled ? " (sampled)" : " (all)") << "\n");
    }
    if (st.cut_multi) pbt::label("cut_class_in>=2_seqs");
    if (st.cut3) pbt::label("cut_class_in>=3_seqs");
    if (dp) {
        if (sh.m >= 2 && st.cut_multi) pbt::nontrivial();
    } else {
        // selection: some key present in >= 2 sequences (offset computation over several sequences)
        if (key_in_two_seqs(sh)) {
            pbt::label("key_in>=2_seqs");
            pbt::nontrivial();
        }
    }
}

} // namespace

PBT_PROPERTY(partition) { run_generated(src, true, false); }
PBT_PROPERTY(selection) { run_generated(src, false, true); }
// scale classes (gen_shape_scale): up to 400 sequences, lengths up to ~19000, N up to ~10^5; tuples with more than
// 600 elements get a bounded rank sample (sample_ranks) instead of every rank
PBT_PROPERTY(partition_scale) { run_generated(src, true, false, true); }
PBT_PROPERTY(selection_scale) { run_generated(src, false, true, true); }

// Exhaustive small scope: every tuple of m = 1..3 sorted sequences over the
// keys {0,1,2}; lengths 1..9 for m <= 2, 1..6 for m = 3; every rank; both
// routines.  int / std::less / ptrdiff_t / vector iterators.
namespace {
std::vector<std::vector<int>> all_sorted(int maxlen) {
    std::vector<std::vector<int>> out;
    for (int l = 1; l <= maxlen; ++l)
        for (int c0 = 0; c0 <= l; ++c0)
            for (int c1 = 0; c0 + c1 <= l; ++c1) {
                std::vector<int> v;
                v.insert(v.end(), c0, 0);
                v.insert(v.end(), c1, 1);
                v.insert(v.end(), l - c0 - c1, 2);
                out.push_back(v);
            }
    return out;
}
} // namespace

PBT_PROPERTY(small_scope) {
    uint64_t chunk = src.bits(8), nchunks = src.bits(8);
    if (nchunks == 0) nchunks = 1, chunk = 0;
    static const std::vector<std::vector<int>> A = all_sorted(9), B = all_sorted(6);
    const uint64_t n1 = A.size(), n2 = n1 * n1, n3 = (uint64_t)B.size() * B.size() * B.size();
    const uint64_t total = n1 + n2 + n3;
    uint64_t lo = total * chunk / nchunks, hi = total * (chunk + 1) / nchunks;
    Stats st;
    st.quiet = true; // the failure message names the tuple
    for (uint64_t i = lo; i < hi; ++i) {
        std::vector<std::vector<int>> keys;
        if (i < n1) keys = {A[i]};
        else if (i < n1 + n2) keys = {A[(i - n1) / n1], A[(i - n1) % n1]};
        else {
            uint64_t j = i - n1 - n2, b = B.size();
            keys = {B[j / (b * b)], B[(j / b) % b], B[j % b]};
        }
        run_cfg0(0, false, keys, true, true, st);
    }
    pbt::count(hi - lo); // tuples enumerated by this chunk (each with every rank)
    if (st.cut_multi) pbt::nontrivial();
    pbt::label("small_scope_chunk");
}
