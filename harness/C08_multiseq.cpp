// C08 — multisequence_partition / multisequence_selection split sorted runs at
// the exact global rank.
//
// One case = one tuple of m non-empty sorted sequences + one configuration
// (element type, comparator, iterator type, rank type); EVERY rank 0..N of the
// tuple is checked.  Oracle (DESIGN §4 C08):
//   partition: offsets inside their sequences, sum == rank, max(left) <=
//   min(right) under the comparator, tie rule (among equivalent elements cut by
//   the split the left side takes them from lower-numbered sequences first).
//   These four together determine the split uniquely (= the first `rank`
//   elements of the stable merge), which is cross-checked as a safety net.
//   selection (ranks 0..N-1): value equivalent to merged[rank];
//   offset == rank - lower_bound(merged, value).
// Rank N for selection is documented as "throws / undefined" and not asserted.
#include "C08_common.hpp"

namespace {
using namespace c08;

void dispatch(int cfg, int rsel, bool ptr, const std::vector<std::vector<int>>& keys, bool dp, bool ds, Stats& st) {
    switch (cfg) {
    case 0: run_cfg0(rsel, ptr, keys, dp, ds, st); break;
    case 1: run_cfg1(rsel, ptr, keys, dp, ds, st); break;
    case 2: run_cfg2(rsel, ptr, keys, dp, ds, st); break;
    case 3: run_cfg3(rsel, ptr, keys, dp, ds, st); break;
    case 4: run_cfg4(rsel, ptr, keys, dp, ds, st); break;
    default: run_cfg5(rsel, ptr, keys, dp, ds, st); break;
    }
}

void shape_labels(const Shape& sh, int cfg) {
    int m = sh.m;
    pbt::label(m == 1 ? "m=1" : m == 2 ? "m=2" : m <= 4 ? "m=3..4" : "m>=5");
    pbt::label(cfg == 0 || cfg == 3 ? "cmp=less" : cfg == 1 || cfg == 4 ? "cmp=greater" : "cmp=projection");
    pbt::label(cfg < 3 ? "elem=int" : "elem=record");
    size_t lo = SIZE_MAX, hi = 0;
    bool edge = false;
    for (auto& k : sh.keys) {
        lo = std::min(lo, k.size());
        hi = std::max(hi, k.size());
    }
    for (int j = 1; j <= 6; ++j)
        if (hi + 1 >= (1u << j) && hi <= (1u << j) + 1) edge = true;
    if (edge) pbt::label("nmax_at_pow2_edge");
    if (m >= 2 && hi >= 8 * lo) pbt::label("lengths_very_unequal");
    if (lo == 1 && m >= 2) pbt::label("has_len1_seq");
    if (hi >= 64) pbt::label("nmax>=64");
    if (sh.m >= 17) pbt::label("m>=17");
    if (sh.wide) pbt::label("keys_wide");
    else if (sh.distinct == 1) pbt::label("keys_all_equal");
    else pbt::label("keys_few_distinct");
}

void run_generated(pbt::Source& src, bool dp, bool ds) {
    int cfg = (int)src.range(0, 5);
    int rsel = (int)src.weighted({3, 2, 1});
    bool ptr = src.boolean();
    Shape sh = gen_shape(src);
    PBT_LOG("cfg=" << cfg << " (0 int/less(default) 1 int/greater 2 int/key/4 3 rec/less 4 rec/greater 5 rec/key/4) rank_t=" << rsel
                   << " (0 ptrdiff_t 1 size_t 2 int) iterator=" << (ptr ? "T*" : "vector::iterator") << " m=" << sh.m << "\n");
    shape_labels(sh, cfg);
    pbt::label(rsel == 0 ? "rank_t=ptrdiff_t" : rsel == 1 ? "rank_t=size_t" : "rank_t=int");
    Stats st;
    dispatch(cfg, rsel, ptr, sh.keys, dp, ds, st);
    if (st.cut_multi) pbt::label("cut_class_in>=2_seqs");
    if (st.cut3) pbt::label("cut_class_in>=3_seqs");
    if (dp) {
        if (sh.m >= 2 && st.cut_multi) pbt::nontrivial();
    } else {
        // selection: some key present in >= 2 sequences (offset computation over several sequences)
        bool dup = false;
        for (int i = 0; i < sh.m && !dup; ++i)
            for (int j = i + 1; j < sh.m && !dup; ++j)
                for (int a : sh.keys[i])
                    if (std::find(sh.keys[j].begin(), sh.keys[j].end(), a) != sh.keys[j].end()) {
                        dup = true;
                        break;
                    }
        if (dup) {
            pbt::label("key_in>=2_seqs");
            pbt::nontrivial();
        }
    }
}

} // namespace

PBT_PROPERTY(partition) { run_generated(src, true, false); }
PBT_PROPERTY(selection) { run_generated(src, false, true); }

// Exhaustive small scope: every tuple of m = 1..3 sorted sequences over the
// keys {0,1,2}; lengths 1..9 for m <= 2, 1..6 for m = 3; every rank; both
// routines.  int / std::less / ptrdiff_t / vector iterators.
namespace {
std::vector<std::vector<int>> all_sorted(int maxlen) {
    std::vector<std::vector<int>> out;
    for (int l = 1; l <= maxlen; ++l)
        for (int c0 = 0; c0 <= l; ++c0)
            for (int c1 = 0; c0 + c1 <= l; ++c1) {
                std::vector<int> v;
                v.insert(v.end(), c0, 0);
                v.insert(v.end(), c1, 1);
                v.insert(v.end(), l - c0 - c1, 2);
                out.push_back(v);
            }
    return out;
}
} // namespace

PBT_PROPERTY(small_scope) {
    uint64_t chunk = src.bits(8), nchunks = src.bits(8);
    if (nchunks == 0) nchunks = 1, chunk = 0;
    static const std::vector<std::vector<int>> A = all_sorted(9), B = all_sorted(6);
    const uint64_t n1 = A.size(), n2 = n1 * n1, n3 = (uint64_t)B.size() * B.size() * B.size();
    const uint64_t total = n1 + n2 + n3;
    uint64_t lo = total * chunk / nchunks, hi = total * (chunk + 1) / nchunks;
    Stats st;
    st.quiet = true; // the failure message names the tuple
    for (uint64_t i = lo; i < hi; ++i) {
        std::vector<std::vector<int>> keys;
        if (i < n1) keys = {A[i]};
        else if (i < n1 + n2) keys = {A[(i - n1) / n1], A[(i - n1) % n1]};
        else {
            uint64_t j = i - n1 - n2, b = B.size();
            keys = {B[j / (b * b)], B[(j / b) % b], B[j % b]};
        }
        run_cfg0(0, false, keys, true, true, st);
    }
    pbt::count(hi - lo); // tuples enumerated by this chunk (each with every rank)
    if (st.cut_multi) pbt::nontrivial();
    pbt::label("small_scope_chunk");
}
