// C15 (types) — family 1, configurations 3..5 (see C15_types_impl.hpp)
#include "C15_types_impl.hpp"
void c15_types_fam1_b(int cfg, const c15t::Case& c) { c15t::types_family_b<1>(cfg, c); }
