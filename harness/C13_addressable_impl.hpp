// C13 (part 2) — type-erased wrapper around tlx::DAryAddressableIntHeap<uint32_t, Arity, Compare>; the history in
// C13_addressable.cpp is compiled once, the 8 x 3 instantiations live in C13_addressable_a.cpp / _b.cpp.
#pragma once
#include <cstddef>
#include <cstdint>
#include <cstdlib>
#include <functional>
#include <vector>

#include <tlx/container/d_ary_addressable_int_heap.hpp>

namespace c13 {

typedef uint32_t AKey;

//! comparator reading priorities from an external table (keys are indices)
struct APrioCmp {
    const std::vector<int>* prio;
    bool operator()(AKey a, AKey b) const { return (*prio)[a] < (*prio)[b]; }
};

struct IAddr {
    virtual ~IAddr() {}
    virtual void push(const AKey& k) = 0;
    virtual void push_move(AKey&& k) = 0;
    virtual void remove(AKey k) = 0;
    virtual AKey top() = 0;
    virtual void pop() = 0;
    virtual AKey extract_top() = 0;
    virtual void update(AKey k) = 0;
    virtual bool contains(AKey k) = 0;
    virtual void clear() = 0;
    virtual size_t size() = 0;
    virtual bool empty() = 0;
    virtual void reserve(size_t n) = 0;
    virtual void build_iter(std::vector<AKey>& v) = 0;
    virtual void build_copy(const std::vector<AKey>& v) = 0;
    virtual void build_move(std::vector<AKey>&& v) = 0;
    virtual void update_all() = 0;
    virtual bool sanity_check() = 0;
    virtual void copy_move(unsigned how, AKey extra) = 0;
    // (types target only, implemented in C13_addressable_types_impl.hpp)
    virtual void set_prio(AKey, int) {}             // comparators that own a copy of the priority table
    virtual void remove_top_alias(unsigned) { abort(); } // h.remove(h.top()) / const key_type& r = h.top(); h.remove(r)
    virtual void update_top_alias() { abort(); }    // h.update(h.top())
    virtual void push_extracted() { abort(); }      // h.push(h.extract_top())
    virtual void build_ext(unsigned, const std::vector<AKey>&) { abort(); } // deque / list / reverse iterators, reused vectors
};

template <unsigned A, class Cmp>
struct AddrImpl : IAddr {
    typedef tlx::DAryAddressableIntHeap<AKey, A, Cmp> Heap;
    Cmp cmp;
    Heap h;
    explicit AddrImpl(Cmp c) : cmp(c), h(c) {}
    void push(const AKey& k) override { h.push(k); }
    void push_move(AKey&& k) override { h.push(std::move(k)); }
    void remove(AKey k) override { h.remove(k); }
    AKey top() override { return h.top(); }
    void pop() override { h.pop(); }
    AKey extract_top() override { return h.extract_top(); }
    void update(AKey k) override { h.update(k); }
    bool contains(AKey k) override { return h.contains(k); }
    void clear() override { h.clear(); }
    size_t size() override { return h.size(); }
    bool empty() override { return h.empty(); }
    void reserve(size_t n) override { h.reserve(n); }
    void build_iter(std::vector<AKey>& v) override { h.build_heap(v.begin(), v.end()); }
    void build_copy(const std::vector<AKey>& v) override { h.build_heap(v); }
    void build_move(std::vector<AKey>&& v) override { h.build_heap(std::move(v)); }
    void update_all() override { h.update_all(); }
    bool sanity_check() override { return h.sanity_check(); }
    void copy_move(unsigned how, AKey extra) override {
        if (how == 0) {
            Heap c(h); // copy-construct, continue with the copy
            h.clear();
            h = std::move(c);
        } else if (how == 1) {
            Heap m(std::move(h)); // move-construct, copy-assign back into the moved-from heap
            h = m;
        } else if (how == 2) {
            Heap c(cmp);
            c.push(extra);
            c = h; // copy-assign over a non-empty heap
            h = c;
        } else {
            Heap& self = h;
            h = self; // self copy-assignment
        }
    }
};

template <unsigned A>
IAddr* make_addr_a(unsigned ck, const std::vector<int>* prio) {
    switch (ck) {
    case 0: return new AddrImpl<A, std::less<AKey>>(std::less<AKey>());
    case 1: return new AddrImpl<A, std::greater<AKey>>(std::greater<AKey>());
    default: return new AddrImpl<A, APrioCmp>(APrioCmp{prio});
    }
}
IAddr* make_addr_lo(unsigned arity, unsigned ck, const std::vector<int>* prio); // arity 1..4
IAddr* make_addr_hi(unsigned arity, unsigned ck, const std::vector<int>* prio); // arity 5..8

} // namespace c13
