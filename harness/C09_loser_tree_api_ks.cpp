// C09 — target loser_tree_api, value type KS (see C09_loser_tree_api.hpp)
#include "C09_loser_tree_api.hpp"

namespace c09api {
void run_ks(pbt::Source& src, int tc) { run_api<KS>(src, tc, "type=KS(owns_string)"); }
} // namespace c09api
