#include "C04_ps5_sched.hpp"
C04_CONFIG(P4, 4, 4, uint64_t, ClsEqual, 3, false, true);
C04_CONFIG(P5, 32, 2, uint32_t, ClsTree, 1, true, true);
