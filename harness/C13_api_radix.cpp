// C13 (api, part 3) — target radix_api (see C13_api_radix_impl.hpp); configurations 0..2, 3..5 are in C13_api_radix_b.cpp
#include "C13_api_radix_impl.hpp"

void c13_radix_api_hi(pbt::Source& src, unsigned cfg, const char* name);

PBT_PROPERTY(radix_api) {
    unsigned cfg = (unsigned)src.range(0, 5);
    static const char* const CL[6] = {"cfg=RadixHeapPair<uint32,int>",             "cfg=RadixHeapPair<int16,string>",         "cfg=make_radix_heap<uint32>(closure)",
                                      "cfg=make_radix_heap<rec,16>(lvalue:llong)", "cfg=make_radix_heap<rec,2>(rvalue:char)", "cfg=RadixHeap<rec,functor,ullong,32>"};
    pbt::label(CL[cfg]);
    switch (cfg) {
    case 0: {
        typedef tlx::RadixHeapPair<uint32_t, int> H; // default radix
        history<H, PairIntP<uint32_t>>(src, [] { return H(); }, 8, CL[cfg]);
        break;
    }
    case 1: {
        typedef tlx::RadixHeapPair<int16_t, std::string> H; // default radix
        history<H, PairStrP<int16_t>>(src, [] { return H(); }, 8, CL[cfg]);
        break;
    }
    case 2: {
        auto self = [](const uint32_t& v) { return v; };
        typedef decltype(tlx::make_radix_heap<uint32_t>(std::move(self))) H; // default radix, value type == key type
        static_assert(std::is_same<H::key_type, uint32_t>::value, "key type deduced from the closure's return type");
        history<H, SelfP<uint32_t>>(src, [self] { auto f = self; return tlx::make_radix_heap<uint32_t>(std::move(f)); }, 8, CL[cfg]);
        break;
    }
    default: c13_radix_api_hi(src, cfg, CL[cfg]); break;
    }
}
