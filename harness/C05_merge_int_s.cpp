// C05 — plain int, std::vector iterators, less/greater (and the defaulted std::less<int> comparator argument), stable entry points
#include "C05_merge.hpp"

namespace c05 {
void run_int_s(pbt::Source& src, const Cfg& cfg) { run_case<int, false, true>(src, cfg, DirCmp<int>(cfg.desc)); }
} // namespace c05
