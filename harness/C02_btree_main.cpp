// C02 — B+ tree keeps its balance/order invariants and frees exactly what it allocates.
// Same history generator as C01 (C01_btree_history.cpp, model switched off); after every mutating
// call: independent BTreeInspector walk (C01_btree_common.hpp), BTree::verify() with
// tlx::set_die_with_exception(true), allocator ledger; at the end of the history the containers
// die (destroy / clear+reuse / swap-out) and both ledgers must be empty.
// Configurations (CountingAllocator, mostly Tracked elements): C02_btree_cfg_*.cpp.
#include "C01_btree_common.hpp"

PBT_PROPERTY(btree_invariants) { verif::bt::run_property(src, false); }

// Alias / destructive-move classes (see C01_btree_main.cpp: btree_alias), without the std model: structure walk, verify(), allocator
// and element ledgers after every mutating call; configurations C02_btree_cfga_*.cpp (+ C02_btree_cfgat_*.cpp), including tlx::BTree
// used directly.
PBT_PROPERTY(btree_alias_invariants) { verif::bt::run_alias_property(src, false); }

// API-audit classes: public members / overloads / iterator types / value categories that no other target calls (operator[], writes
// through iterators, iterator-flavour conversions, std iterator algorithms, key_comp / value_comp / max_size / get_allocator /
// get_stats, ranges through input iterators / pointers / list / deque iterators / convertible element types, empty ranges,
// (cmp, alloc) constructor forms, rvalue copy arguments, generic std::swap), see run_api_property in C01_btree_history.cpp.
PBT_PROPERTY(btree_api_invariants) { verif::bt::run_api_property(src, false); }
