// C02 — B+ tree keeps its balance/order invariants and frees exactly what it allocates.
// Same history generator as C01 (C01_btree_history.cpp, model switched off); after every mutating
// call: independent BTreeInspector walk (C01_btree_common.hpp), BTree::verify() with
// tlx::set_die_with_exception(true), allocator ledger; at the end of the history the containers
// die (destroy / clear+reuse / swap-out) and both ledgers must be empty.
// Configurations (CountingAllocator, mostly Tracked elements): C02_btree_cfg_*.cpp.
#include "C01_btree_common.hpp"

PBT_PROPERTY(btree_invariants) { verif::bt::run_property(src, false); }
