// C03 — generic runner: builds one string-set representation, calls one entry point, applies the oracle.
// Included by the per-representation TUs harness/C03_rep_*.cpp (one TU each so they compile in parallel).
#pragma once
#include "C03_common.hpp"

#include <type_traits>
#include <tlx/sort/strings.hpp>
#include <tlx/sort/strings/insertion_sort.hpp>
#include <tlx/sort/strings/multikey_quicksort.hpp>
#include <tlx/sort/strings/radix_sort.hpp>
#include <tlx/sort/strings/string_ptr.hpp>
#include <tlx/sort/strings/string_set.hpp>

namespace c03 {

namespace ssd = tlx::sort_strings_detail;

//! the code's own memory estimates, by sizeof of the very types it uses
template <class SP>
struct Sizes {
    typedef typename SP::StringSet SS;
    typedef typename SP::WithShadow WS;
    // a: 0..4 = CE0, CE2, CE3, CI2, CI3
    static size_t step(unsigned a) {
        switch (a) {
        case 0: return sizeof(ssd::RadixStep_CE0<WS>);
        case 1: return sizeof(ssd::RadixStep_CE2<WS>);
        case 2: return sizeof(ssd::RadixStep_CE3<WS>);
        case 3: return sizeof(ssd::RadixStep_CI2<SP>);
        default: return sizeof(ssd::RadixStep_CI3<SP>);
        }
    }
    static size_t use(unsigned a, size_t n) {
        size_t base = 2 * sizeof(size_t) + sizeof(SS);
        size_t str = n * sizeof(typename SS::String);
        switch (a) {
        case 0: return base + str;
        case 1: return base + n + str;
        case 2: return base + 2 * n + str;
        case 3: return base + n;
        default: return base + 2 * n;
        }
    }
    static size_t mk() { return 2 * sizeof(size_t) + sizeof(SS) + 5 * sizeof(typename SS::Iterator); }
};

//! which estimate applies first for entry point `algo` on n strings (-1: none / mkqs)
inline int own_index(int algo, size_t n) {
    switch (algo) {
    case A_CE0: return 0;
    case A_CE2: return 1;
    case A_CE3:
    case A_FRONT: return n < 0x10000 ? 1 : 2;
    case A_CI2: return 3;
    case A_CI3: return n < 0x10000 ? 3 : 4;
    default: return -1;
    }
}

template <class SP>
size_t compute_memory(const Case& c, size_t n) {
    typedef Sizes<SP> Z;
    switch (c.memclass) {
    case M_ZERO: return 0;
    case M_TINY: return 1 + c.mem_raw % 4096;
    case M_MKQS: return Z::mk() * (1 + c.mem_raw % 48) + c.mem_rsel % 3;
    case M_LARGE: return (c.mem_rsel & 1) ? SIZE_MAX : (((size_t)1 << 40) + c.mem_raw);
    default: break;
    }
    static const unsigned Y8[] = {0, 1, 3};
    unsigned x = c.mem_x % 5, y = c.big ? c.mem_y % 5 : Y8[c.mem_y % 3];
    int own = own_index(c.algo, n);
    if (c.mem_own && own >= 0) x = y = (unsigned)own;
    long r;
    if (c.mem_safe_only) r = 131072 + 4 * (long)c.mem_raw;
    else
        switch (c.mem_rsel % 8) {
        case 0: r = 0; break;
        case 1: r = 1; break;
        case 2: r = -1; break;
        case 3: r = 2; break;
        case 4: r = (long)Z::mk(); break;
        case 5: r = (long)Z::mk() + 1; break;
        case 6: r = (long)(c.mem_raw % (c.big ? 2000 : 4096)); break;
        default: r = c.big ? 131072 + 4 * (long)c.mem_raw : 8 * (long)c.mem_raw; break;
        }
    size_t m = (size_t)((long)(Z::use(x, n) + c.mem_j * Z::step(y)) + r);
    if (c.big) {
        // Cost bound for big collections: if an 8-bit radix loop accepts this limit with only a few RadixSteps of
        // head-room it ends (via multikey quicksort with no memory left) in insertion sort of the bucket that is current
        // at that level - thousands of strings, i.e. many seconds. Follow the code's own fall-back chain and give such
        // a loop enough levels that the bucket is small by then: 160 when buckets do not shrink geometrically, else
        // about log_k(512) (all k^level buckets of that level fall back, total cost ~ n^2 / k^level). The stack-limited 8-bit paths with fewer levels are exercised by sort_small.
        size_t need = c.mem_safe_only ? 160 : c.geo_k == 2 ? 9 : c.geo_k == 3 ? 6 : c.geo_k == 4 ? 5 : 3;
        int a = own_index(c.algo, n);
        while (a >= 0) {
            if (m >= Z::use((unsigned)a, n) + 3 * Z::step((unsigned)a) + 1) break; // accepted by algorithm a
            switch (a) {
            case 2: a = 1; break;                  // CE3 -> CE2
            case 1: a = n < 0x10000 ? 3 : 4; break; // CE2 -> CI3 (-> CI2 below 65536 strings)
            case 4: a = 3; break;                  // CI3 -> CI2
            default: a = -1; break;                // CE0, CI2 -> multikey quicksort
            }
        }
        if (a == 0 || a == 1 || a == 3) {
            size_t st = Z::step((unsigned)a), mp = m - Z::use((unsigned)a, n);
            if (mp < need * st) m = Z::use((unsigned)a, n) + need * st + mp % st;
        }
    }
    return m;
}

template <class SP>
void label_memory(const Case& c, size_t n) {
    typedef Sizes<SP> Z;
    static const char* const MC[] = {"mem:0", "mem:tiny", "mem:mkqs-edge", "mem:threshold", "mem:large"};
    pbt::label(MC[c.memclass]);
    if (c.memory == 0 || n < 32) return;
    int own = own_index(c.algo, n);
    if (own >= 0) {
        size_t first = Z::use((unsigned)own, n) + 3 * Z::step((unsigned)own) + 1;
        if (c.memory < first) pbt::label("mem_fallback_expected");
        else if (c.memory - Z::use((unsigned)own, n) < 12 * Z::step((unsigned)own)) pbt::label("mem_stack_limited");
    } else if (c.algo == A_MKQS) {
        if (c.memory < Z::mk() + 1) pbt::label("mem_fallback_expected");
        else if (c.memory < 40 * Z::mk()) pbt::label("mem_stack_limited");
    }
}

template <class SP>
void call_detail(int algo, const SP& sp, size_t mem) {
    switch (algo) {
    case A_INS: ssd::insertion_sort(sp, 0, mem); break;
    case A_MKQS: ssd::multikey_quicksort(sp, 0, mem); break;
    case A_CE0: ssd::radixsort_CE0(sp, 0, mem); break;
    case A_CE2: ssd::radixsort_CE2(sp, 0, mem); break;
    case A_CE3: ssd::radixsort_CE3(sp, 0, mem); break;
    case A_CI2: ssd::radixsort_CI2(sp, 0, mem); break;
    default: ssd::radixsort_CI3(sp, 0, mem); break;
    }
}

template <class Set>
ssd::StringPtr<Set> make_ptr(const Set& ss, uint32_t*, std::false_type) { return ssd::StringPtr<Set>(ss); }
template <class Set>
ssd::StringLcpPtr<Set, uint32_t> make_ptr(const Set& ss, uint32_t* lcp, std::true_type) {
    return ssd::StringLcpPtr<Set, uint32_t>(ss, lcp);
}

inline void label_case(const Case& c, size_t n) {
    static const char* const RL[] = {"rep:uchar", "rep:cuchar", "rep:std", "rep:uptr", "rep:suffix"};
    static const char* const AL[] = {"algo:insertion", "algo:mkqs", "algo:CE0", "algo:CE2", "algo:CE3", "algo:CI2", "algo:CI3",
                                     "algo:frontend"};
    pbt::label(RL[c.rep]);
    pbt::label(AL[c.algo]);
    pbt::label(c.lcp ? "lcp:on" : "lcp:off");
    if (n <= 1) pbt::label("n<=1");
    else if (n < 32) pbt::label("n<32");
    else if (n < 300) pbt::label("n>=32");
    else if (n < 65536) pbt::label("n>=300");
    else pbt::label("n>=65536");
    if (n == 31 || n == 32 || n == 65535 || n == 65536) pbt::label("n=threshold");
}

/*!
 * RepT interface:
 *   typedef Set;                         tlx string set type
 *   void build(const Case&);             allocate the collection (exact-size heap objects)
 *   size_t size();  Set set();
 *   bool call_front(const Case&, uint32_t* lcp, size_t mem);   public front-end (false: none for this rep)
 *   void check_before_order(const Case&); permutation of the original objects (pointers/indices) - makes view() safe
 *   std::pair<const unsigned char*, size_t> view(size_t i);
 *   void check_after_order(const Case&);  contents unchanged / content multiset
 */
template <class RepT, bool LCP>
void run_rep(const Case& c) {
    typedef typename RepT::Set Set;
    typedef typename std::conditional<LCP, ssd::StringLcpPtr<Set, uint32_t>, ssd::StringPtr<Set>>::type SP;
    RepT rep;
    rep.build(c);
    const size_t n = rep.size();
    std::unique_ptr<uint32_t[]> lcp;
    if (LCP) {
        lcp.reset(new uint32_t[n]); // exact size: a write to lcp[n] is an ASan error
        std::fill(lcp.get(), lcp.get() + n, LCP_POISON);
    }
    c.memory = compute_memory<SP>(c, n);
    label_case(c, n);
    label_memory<SP>(c, n);
    PBT_LOG("call: " << describe(c, n) << "\n");

    if (c.algo == A_FRONT) {
        bool ok = rep.call_front(c, lcp.get(), c.memory);
        if (!ok) {
            pbt::inconclusive();
            return;
        }
    } else {
        call_detail(c.algo, make_ptr<Set>(rep.set(), lcp.get(), std::integral_constant<bool, LCP>()), c.memory);
    }

    rep.check_before_order(c);
    check_order_lcp(c, n, [&](size_t i) { return rep.view(i); }, lcp.get());
    rep.check_after_order(c);
}

// each rep TU is compiled twice (with and without LCP output) so that the template matrix builds in parallel
#ifdef C03_WITH_LCP
#define C03_DEFINE_RUN(NAME, REP) \
    void NAME##_lcp(const Case& c) { run_rep<REP, true>(c); }
#else
#define C03_DEFINE_RUN(NAME, REP) \
    void NAME##_nolcp(const Case& c) { run_rep<REP, false>(c); }
#endif
// public front-end call, with the memory argument defaulted when `dflt`
#ifdef C03_WITH_LCP
#define C03_FRONT(...) (dflt ? tlx::sort_strings_lcp(__VA_ARGS__, lcp) : tlx::sort_strings_lcp(__VA_ARGS__, lcp, mem))
#else
#define C03_FRONT(...) ((void)lcp, dflt ? tlx::sort_strings(__VA_ARGS__) : tlx::sort_strings(__VA_ARGS__, mem))
#endif

} // namespace c03
