// C07 — target pmerge_api, form 5: the transparent standard functor std::greater<> (descending order through
// operator> of Rec); inputs AND output through the same iterator type std::vector<Rec>::iterator; pairs in a vector.
#include "C07_api.hpp"

namespace c07 {
struct ApiForm5 {
    using El = ElRec;
    using InK = InVecIt<Rec>;
    using PairsK = PairsVec<InK::In>;
    using OutK = OutVecIt<Rec>;
    using Cmp = std::greater<>;
    static constexpr bool has_default = false;
    static Cmp make_cmp(bool) { return Cmp(); }
    static bool cmp_intact(const Cmp&, bool) { return true; }
};
ApiResult run_api_f5(const ApiCase& c) { return run_form_both<ApiForm5>(c); }
} // namespace c07
