// C19 / quoted — split_quoted(join_quoted(v, sep, quote, esc), sep, quote, esc) == v for every vector of strings.
#include "C19_common.hpp"

#include <stdexcept>

#include <tlx/string/join_quoted.hpp>
#include <tlx/string/split_quoted.hpp>

using namespace c19;

void c19_quoted(pbt::Source& src) {
    // separator / quote / escape: pairwise distinct, quote and escape not one of n, r, t (those letters name the
    // escape sequences)
    static const char SEP[] = {' ', ',', ';', '\n', 'n', '\0', (char)0xFF};
    static const char QUO[] = {'"', '\'', 'q', '|'};
    static const char ESC[] = {'\\', '^', 'e', '%'};
    bool defaults = src.chance(64); // the overloads without sep/quote/escape arguments
    char sep = SEP[src.range(0, 6)], quote = QUO[src.range(0, 3)], esc = ESC[src.range(0, 3)];
    if (defaults) sep = ' ', quote = '"', esc = '\\';

    std::string alphabet;
    alphabet += sep, alphabet += quote, alphabet += esc;
    alphabet += "anrt";
    alphabet += "\n\r\t ";
    alphabet += '\0';
    alphabet += (char)0x80;
    alphabet += "\"\\,";
    size_t k = (size_t)src.range(0, 6);
    std::vector<std::string> v;
    for (size_t i = 0; i < k; ++i) v.push_back(gen_over(src, alphabet, src.chance(16) ? 30 : 5));

    bool has_empty = false, quote_leading = false, needs_quotes = false, has_escapable = false, plain_special = false;
    for (const std::string& s : v) {
        has_empty = has_empty || s.empty();
        quote_leading = quote_leading || (!s.empty() && s[0] == quote);
        bool q = s.find(sep) != std::string::npos;
        needs_quotes = needs_quotes || q;
        for (char c : s) {
            bool e = c == quote || c == esc || c == '\n' || c == '\r' || c == '\t';
            if (q && e) has_escapable = true;
            if (!q && e) plain_special = true;
        }
    }
    pbt::label(defaults ? "quoted:default-arguments" : "quoted:explicit-arguments");
    if (v.empty()) pbt::label("quoted:empty-vector");
    if (has_empty) pbt::label("quoted:empty-field");
    if (quote_leading) pbt::label("quoted:quote-leading-field");
    if (needs_quotes) pbt::label("quoted:field-with-separator");
    if (has_escapable) pbt::label("quoted:escape-sequences-in-quoted-field");
    if (plain_special) pbt::label("quoted:quote/escape/newline-in-unquoted-field");
    if (has_empty || quote_leading || needs_quotes || plain_special) pbt::nontrivial();

    std::string joined = defaults ? tlx::join_quoted(v) : tlx::join_quoted(v, sep, quote, esc);
    PBT_LOG("join_quoted(" << show(v) << ", sep=" << show_char(sep) << ", quote=" << show_char(quote) << ", esc=" << show_char(esc)
                           << ") = " << show(joined) << "\n");
    Buf jb(joined);
    std::vector<std::string> back;
    try {
        back = defaults ? tlx::split_quoted(jb.view()) : tlx::split_quoted(jb.view(), sep, quote, esc);
    } catch (const std::runtime_error& e) {
        pbt::fail("C19/quoted-roundtrip", "split_quoted(join_quoted(" + show(v) + ", sep=" + show_char(sep) + ", quote=" + show_char(quote) +
                                              ", esc=" + show_char(esc) + ") = " + show(joined) + ") throws \"" + e.what() + "\"");
    }
    PBT_CHECK(back == v, "C19/quoted-roundtrip",
              "split_quoted(join_quoted(" << show(v) << ", sep=" << show_char(sep) << ", quote=" << show_char(quote)
                                          << ", esc=" << show_char(esc) << ") = " << show(joined) << ") = " << show(back));
}
