// C19 / quoted — split_quoted(join_quoted(v, sep, quote, esc), sep, quote, esc) == v for every vector of strings.
#include "C19_common.hpp"

#include <stdexcept>

#include <tlx/string/join_quoted.hpp>
#include <tlx/string/split_quoted.hpp>

using namespace c19;

void c19_quoted(pbt::Source& src) {
    // separator / quote / escape: pairwise distinct, quote and escape not one of n, r, t (those letters name the
    // escape sequences)
    static const char SEP[] = {' ', ',', ';', '\n', 'n', '\0', (char)0xFF};
    static const char QUO[] = {'"', '\'', 'q', '|'};
    static const char ESC[] = {'\\', '^', 'e', '%'};
    bool defaults = src.chance(64); // the overloads without sep/quote/escape arguments
    char sep = SEP[src.range(0, 6)], quote = QUO[src.range(0, 3)], esc = ESC[src.range(0, 3)];
    if (defaults) sep = ' ', quote = '"', esc = '\\';

    std::string alphabet;
    alphabet += sep, alphabet += quote, alphabet += esc;
    alphabet += "anrt";
    alphabet += "\n\r\t ";
    alphabet += '\0';
    alphabet += (char)0x80;
    alphabet += "\"\\,";
    size_t k = (size_t)src.range(0, 6);
    std::vector<std::string> v;
    if (long_mode()) {
        // scale classes: few long fields (13..5000 bytes) / hundreds to thousands (rarely > 65536) of short fields with
        // now and then a long one; lengths and letters expanded from a drawn seed
        int cls = (int)src.weighted({40, 30, 30, 30, 2});
        if (cls == 0) {
            for (size_t i = 0; i < k; ++i) v.push_back(src.chance(160) ? gen_long(src, alphabet) : gen_over(src, alphabet, 5));
        } else {
            k = cls == 1 ? 255 + (size_t)src.range(0, 2) : cls == 2 ? (size_t)src.range(7, 300) : cls == 3 ? (size_t)src.range(300, 4000)
                                                                                                          : 65535 + (size_t)src.range(0, 300);
            size_t maxfield = (size_t)src.range(0, 6);
            unsigned long_rate = cls == 4 ? 0 : 16u << src.range(0, 6);
            Rng rng(src.bits(4));
            v.resize(k);
            for (std::string& f : v) {
                size_t n = long_rate && rng.one_in(long_rate) ? 250 + rng.below(300) : rng.below(maxfield + 1);
                for (size_t i = 0; i < n; ++i) f += alphabet[rng.below(alphabet.size())];
            }
        }
        size_t longest = 0, total = 0;
        for (const std::string& f : v) longest = std::max(longest, f.size()), total += f.size();
        pbt::label(k <= 6 ? "quoted:<=6-fields" : k < 255 ? "quoted:7..254-fields" : k <= 257 ? "quoted:255..257-fields"
                   : k < 65535 ? "quoted:258..4000-fields" : "quoted:>=65535-fields");
        if (longest >= 255) pbt::label("quoted:field>=255-bytes");
        label_len(total + (k ? k - 1 : 0));
        PBT_LOG("  [" << k << " fields, longest " << longest << " bytes]\n");
    } else
        for (size_t i = 0; i < k; ++i) v.push_back(gen_over(src, alphabet, src.chance(16) ? 30 : 5));

    bool has_empty = false, quote_leading = false, needs_quotes = false, has_escapable = false, plain_special = false;
    for (const std::string& s : v) {
        has_empty = has_empty || s.empty();
        quote_leading = quote_leading || (!s.empty() && s[0] == quote);
        bool q = s.find(sep) != std::string::npos;
        needs_quotes = needs_quotes || q;
        for (char c : s) {
            bool e = c == quote || c == esc || c == '\n' || c == '\r' || c == '\t';
            if (q && e) has_escapable = true;
            if (!q && e) plain_special = true;
        }
    }
    pbt::label(defaults ? "quoted:default-arguments" : "quoted:explicit-arguments");
    if (v.empty()) pbt::label("quoted:empty-vector");
    if (has_empty) pbt::label("quoted:empty-field");
    if (quote_leading) pbt::label("quoted:quote-leading-field");
    if (needs_quotes) pbt::label("quoted:field-with-separator");
    if (has_escapable) pbt::label("quoted:escape-sequences-in-quoted-field");
    if (plain_special) pbt::label("quoted:quote/escape/newline-in-unquoted-field");
    if (has_empty || quote_leading || needs_quotes || plain_special) pbt::nontrivial();

    std::string joined = defaults ? tlx::join_quoted(v) : tlx::join_quoted(v, sep, quote, esc);
    PBT_LOG("join_quoted(" << show(v) << ", sep=" << show_char(sep) << ", quote=" << show_char(quote) << ", esc=" << show_char(esc)
                           << ") = " << show(joined) << "\n");
    Buf jb(joined);
    std::vector<std::string> back;
    try {
        back = defaults ? tlx::split_quoted(jb.view()) : tlx::split_quoted(jb.view(), sep, quote, esc);
    } catch (const std::runtime_error& e) {
        pbt::fail("C19/quoted-roundtrip", "split_quoted(join_quoted(" + show(v) + ", sep=" + show_char(sep) + ", quote=" + show_char(quote) +
                                              ", esc=" + show_char(esc) + ") = " + show(joined) + ") throws \"" + e.what() + "\"");
    }
    PBT_CHECK(back == v, "C19/quoted-roundtrip",
              "split_quoted(join_quoted(" << show(v) << ", sep=" << show_char(sep) << ", quote=" << show_char(quote)
                                          << ", esc=" << show_char(esc) << ") = " << show(joined) << ") = " << show(back));
}
