// C06 — target mergesort_forms, comparator forms std::less (defaulted = the 2-argument call form, or spelled) on a
// raw-pointer range of a trivially copyable element, and pointer-to-function on a std::vector range.
#include "C06_types_forms.hpp"

#include <functional>

namespace c06 {

namespace {
using forms::KL;
bool kl_less(const KL& a, const KL& b) { return a.key < b.key; }
bool kl_greater(const KL& a, const KL& b) { return b.key < a.key; }
} // namespace

Lifetime sort_ptr_kl_less(const Params& p, std::vector<Item>& items) {
    const size_t n = items.size();
    std::vector<KL> v;
    v.reserve(n + 2);
    forms::fill_guarded(v, items);
    KL* b = v.data() + 1;
    if (p.nargs == 2) run_tlx_default_comparator(p, b, b + n);
    else if (p.greater) pbt::fail("C06/harness", "std::less is ascending");
    else run_tlx_range(p, b, b + n, std::less<KL>());
    forms::read_back_guarded(v, items, "pointer");
    return Lifetime();
}

Lifetime sort_vec_kl_fnptr(const Params& p, std::vector<Item>& items) {
    const size_t n = items.size();
    std::vector<KL> v;
    v.reserve(n + 2);
    forms::fill_guarded(v, items);
    bool (*cmp)(const KL&, const KL&) = p.greater ? &kl_greater : &kl_less;
    run_tlx_range(p, v.begin() + 1, v.begin() + 1 + (std::ptrdiff_t)n, cmp);
    forms::read_back_guarded(v, items, "vector");
    return Lifetime();
}

} // namespace c06
