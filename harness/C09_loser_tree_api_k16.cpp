// C09 — target loser_tree_api, value type K16 (see C09_loser_tree_api.hpp)
#include "C09_loser_tree_api.hpp"

namespace c09api {
void run_k16(pbt::Source& src, int tc) { run_api<K16>(src, tc, "type=K16(exactly_2*sizeof(size_t))"); }
} // namespace c09api
