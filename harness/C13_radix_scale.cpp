// C13 (part 3, scale classes) — tlx::RadixHeap with MANY elements and MANY simultaneously filled buckets: up to
// ~20000 stored pairs, keys spread over all rows (log-uniform distance from the frontier, so that for 64-bit keys
// hundreds of buckets are non-empty at once: multi-level BitArray), few distinct keys with thousands of duplicates
// (huge buckets that are redistributed in one reorganisation), dense runs above the frontier, keys at the type maximum.
// Monotone histories only (every inserted key >= the minimum most recently extracted by top/pop/swap_top_bucket since
// construction or clear()).  A case = selectors + burst list from the choice bytes; the keys of a burst come from a
// local PRNG seeded by the case.  Oracle as in C13_radix.cpp: size, empty, peak_top_key, key of top() and the identity
// of its payload after every elementary operation, swap_top_bucket returns exactly the live payloads of the minimal
// key, drain in non-decreasing key order with every payload accounted for (model: map key-rank -> set of payload ids
// + number of pop()s whose payload could not be observed).
#include "../engine/pbt.hpp"

#include <algorithm>
#include <map>
#include <memory>
#include <set>

#include "C13_radix_impl.hpp"

namespace {

using c13::IRadix;
using c13::RV;
typedef uint64_t UK;

struct Rng {
    uint64_t s;
    uint64_t next() {
        uint64_t z = (s += 0x9E3779B97F4A7C15ull);
        z = (z ^ (z >> 30)) * 0xBF58476D1CE4E5B9ull;
        z = (z ^ (z >> 27)) * 0x94D049BB133111EBull;
        return z ^ (z >> 31);
    }
    uint64_t below(uint64_t n) { return n ? next() % n : 0; }
};

struct KeyState {
    std::set<int> ids; // payloads pushed under this key and not yet handed back by swap_top_bucket
    size_t unknown = 0; // pop()s of this key (payload not observable)
};

} // namespace

PBT_PROPERTY(radix_scale) {
    unsigned ksel = (unsigned)src.range(0, 7); // width x signedness
    const unsigned rsel = (unsigned)src.range(0, 5);
    const unsigned dist = (unsigned)src.weighted({4, 3, 2, 2, 1});
    static const unsigned BURSTV[] = {64, 512, 4096};
    const unsigned bmax = BURSTV[src.weighted({3, 2, 1})];
    Rng rng{src.bits(4) * 0x9E3779B97F4A7C15ull + 1};
    if (ksel < 4 && pbt::excluded("radix-narrow-keys")) ksel += 4;
    const bool is_signed = (ksel & 1) == 0;
    static const char* const KL[] = {"key=int8", "key=uint8", "key=int16", "key=uint16", "key=int32", "key=uint32", "key=int64", "key=uint64"};
    static const char* const RL[] = {"radix=2", "radix=4", "radix=8", "radix=16", "radix=32", "radix=64"};
    static const char* const DL[] = {"keys=log_uniform_above_frontier", "keys=uniform", "keys=few_distinct", "keys=dense_run", "keys=near_type_max"};
    static const char* const BL[] = {"burst<=64", "burst<=512", "burst<=4096"};
    pbt::label(KL[ksel]);
    pbt::label(RL[rsel]);
    pbt::label(DL[dist]);
    pbt::label(BL[bmax == 64 ? 0 : bmax == 512 ? 1 : 2]);
    std::unique_ptr<IRadix> hp;
    const unsigned BITS = 8u << (ksel >> 1);
    switch (ksel >> 1) {
    case 0: hp.reset(c13::make_radix_w8(is_signed, rsel)); break;
    case 1: hp.reset(c13::make_radix_w16(is_signed, rsel)); break;
    case 2: hp.reset(c13::make_radix_w32(is_signed, rsel)); break;
    default: hp.reset(c13::make_radix_w64(is_signed, rsel)); break;
    }
    IRadix& h = *hp;
    const UK RMAX = BITS == 64 ? ~(UK)0 : (((UK)1 << BITS) - 1);
    PBT_LOG("RadixHeapPair<" << (KL[ksel] + 4) << "_t, int, " << (2u << rsel) << "> key class " << (DL[dist] + 5) << " bursts <= " << bmax << " seed state "
                             << rng.s << "\n");

    std::map<UK, KeyState> live;
    size_t msize = 0;
    UK limit = 0; // rank of the most recently extracted minimum (0 after construction / clear)
    int next_id = 1;
    bool cleared = false, nt = false;
    std::vector<UK> pool; // keys=few_distinct: the current small set of keys (refreshed when below the frontier)
    std::set<size_t> buckets_used;

    auto gen_rank = [&]() -> UK {
        const UK room = RMAX - limit;
        switch (dist) {
        case 0: { // distance from the frontier with a uniformly chosen bit length: reaches every row of buckets
            unsigned b = (unsigned)rng.below(BITS + 1);
            UK d = b == 0 ? 0 : (rng.next() >> (64 - b));
            return d <= room ? limit + d : RMAX - d % (room + 1);
        }
        case 1: return room == ~(UK)0 ? rng.next() : limit + rng.next() % (room + 1);
        case 2: {
            if (pool.empty() || rng.below(64) == 0) {
                pool.clear();
                size_t c = 1 + (size_t)rng.below(5);
                for (size_t i = 0; i < c; ++i) pool.push_back(room == ~(UK)0 ? rng.next() : limit + rng.next() % (room + 1));
            }
            UK x = pool[rng.below(pool.size())];
            return x >= limit ? x : limit;
        }
        case 3: {
            UK d = rng.below(600);
            return d <= room ? limit + d : RMAX;
        }
        default: {
            UK d = rng.below(300);
            return d <= room ? RMAX - d : limit;
        }
        }
    };
    auto model_min = [&]() -> UK { return live.begin()->first; };
    auto check = [&](const char* after) {
        PBT_CHECK(h.size() == msize, "C13/radix-size", "after " << after << ": size() " << h.size() << " but model has " << msize);
        PBT_CHECK(h.empty() == (msize == 0), "C13/radix-empty", "after " << after << ": empty() " << h.empty() << ", model size " << msize);
        if (msize) {
            UK want = model_min(), got = h.peak_top_rank();
            PBT_CHECK(got == want, "C13/radix-peak", "after " << after << ": peak_top_key() " << h.show(got) << " but the minimum key is " << h.show(want));
        }
        if (msize >= 1000) pbt::label("size>=1000");
        if (msize >= 10000) pbt::label("size>=10000");
    };
    auto observe_min = [&](UK m) {
        if (m != limit && (cleared || m == 0 || m == RMAX)) nt = true;
        if (m != limit) pbt::label("frontier_advanced");
        if (m == RMAX) pbt::label("extracted_type_max");
        limit = m;
    };
    //! one pop() of key m happened
    auto model_pop = [&](UK m) {
        KeyState& ks = live[m];
        ++ks.unknown, --msize;
        if (ks.unknown == ks.ids.size()) live.erase(m); // every payload of this key is gone (which pop took which is unobservable)
    };
    auto do_top = [&](const char* what) {
        UK m = model_min();
        RV t = h.top();
        PBT_CHECK(t.first == m, "C13/radix-top", what << ": top() has key " << h.show(t.first) << " but the minimum key is " << h.show(m) << " (size " << msize << ")");
        PBT_CHECK(live[m].ids.count(t.second) == 1, "C13/radix-payload",
                  what << ": top() returned {" << h.show(t.first) << "," << t.second << "} which is not a stored element");
        observe_min(m);
        return m;
    };
    auto do_swap = [&](const char* what) {
        UK m = model_min();
        std::vector<RV> out;
        h.swap_top_bucket(out);
        PBT_LOG(what << ": swap_top_bucket() -> " << out.size() << " elements, minimum key " << h.show(m) << "\n");
        KeyState& ks = live[m];
        PBT_CHECK(out.size() == ks.ids.size() - ks.unknown, "C13/radix-swap-bucket",
                  what << ": swap_top_bucket returned " << out.size() << " elements but " << (ks.ids.size() - ks.unknown) << " elements have the minimal key "
                       << h.show(m));
        for (const RV& v : out) {
            PBT_CHECK(v.first == m, "C13/radix-swap-bucket", what << ": swap_top_bucket returned key " << h.show(v.first) << ", the minimal key is " << h.show(m));
            PBT_CHECK(ks.ids.erase(v.second) == 1, "C13/radix-payload",
                      what << ": swap_top_bucket returned {" << h.show(v.first) << "," << v.second << "} which is not a stored element (or was returned twice)");
        }
        PBT_CHECK(ks.ids.size() == ks.unknown, "C13/radix-payload",
                  what << ": key " << h.show(m) << " has " << ks.ids.size() << " payloads unaccounted for after " << ks.unknown << " pops");
        msize -= out.size();
        if (out.size() >= 100) pbt::label("swap_bucket>=100");
        live.erase(m);
        observe_min(m);
    };

    unsigned nops = 0;
    size_t nsub = 0;
    check("construction");
    while (src.more() && nops < 40 && nsub < 30000) {
        ++nops;
        unsigned op = (unsigned)src.weighted({6, 4, 3, 2, 1, 1});
        size_t m = 1 + (size_t)src.range(0, 255) * bmax / 256;
        switch (op) {
        case 0: { // burst of insertions (all five ways)
            pbt::label("burst_push");
            PBT_LOG("burst of " << m << " insertions\n");
            for (size_t j = 0; j < m && msize < 20000; ++j, ++nsub) {
                unsigned how = (unsigned)rng.below(5);
                UK r = gen_rank();
                int id = next_id++;
                PBT_LOG("insert[" << how << "]({" << h.show(r) << "," << id << "})\n");
                size_t idx = h.insert(how, r, id);
                live[r].ids.insert(id), ++msize;
                buckets_used.insert(idx);
                if (idx >= 64) pbt::label("bucket_index>=64");
                if (idx >= 256) pbt::label("bucket_index>=256");
                if (r == RMAX) pbt::label("pushed_type_max");
                check("insert");
            }
            if (buckets_used.size() > 64) pbt::label("distinct_buckets_used>64");
            break;
        }
        case 1: { // burst of top()+pop()
            pbt::label("burst_top_pop");
            PBT_LOG("burst of " << m << " top+pop\n");
            for (size_t j = 0; j < m && msize; ++j, ++nsub) {
                UK k = do_top("top");
                h.pop();
                model_pop(k);
                check("pop");
            }
            break;
        }
        case 2: { // steady state: extract the minimum, insert a few keys above it
            pbt::label("burst_pop_push");
            PBT_LOG("burst of " << m << " pop + insertions\n");
            for (size_t j = 0; j < m && msize; ++j, ++nsub) {
                UK k = model_min();
                if (j & 1) k = do_top("top");
                h.pop();
                model_pop(k);
                observe_min(k);
                check("pop");
                size_t c = rng.below(3);
                for (size_t i = 0; i < c && msize < 20000; ++i) {
                    UK r = gen_rank();
                    int id = next_id++;
                    size_t idx = h.insert((unsigned)rng.below(5), r, id);
                    live[r].ids.insert(id), ++msize;
                    buckets_used.insert(idx);
                    check("insert");
                }
            }
            break;
        }
        case 3: {
            if (!msize) continue;
            do_swap("swap_top_bucket");
            pbt::label("swap_top_bucket");
            check("swap_top_bucket");
            break;
        }
        case 4: {
            PBT_LOG("clear()\n");
            h.clear();
            if (msize) pbt::label("clear_nonempty");
            if (msize >= 1000) pbt::label("clear_size>=1000");
            live.clear(), msize = 0, pool.clear(), buckets_used.clear();
            limit = 0;
            cleared = true;
            pbt::label("clear");
            check("clear");
            break;
        }
        default: {
            unsigned how = (unsigned)(m % 3);
            PBT_LOG("copy/move variant " << how << "\n");
            h.copy_move(how);
            pbt::label("copy_move");
            check("copy/move");
            break;
        }
        }
    }
    const bool by_bucket = src.boolean();
    PBT_LOG("drain of " << msize << (by_bucket ? " by swap_top_bucket" : " by top/pop") << "\n");
    while (msize) {
        PBT_CHECK(!h.empty(), "C13/radix-size", "heap empty during drain but the model still has " << msize);
        if (by_bucket) do_swap("drain");
        else {
            UK k = do_top("drain");
            h.pop();
            model_pop(k);
        }
        PBT_CHECK(h.size() == msize, "C13/radix-size", "drain: size() " << h.size() << " but model has " << msize);
    }
    PBT_CHECK(h.empty(), "C13/radix-size", "heap not empty after draining the model: size " << h.size());
    PBT_CHECK(live.empty(), "C13/radix-payload", "payload bookkeeping at the end: " << live.size() << " keys left in the model");
    if (nt) pbt::nontrivial();
}
