// C17 (part 4) — LruCacheSet / LruCacheMap with key and value TYPES whose move is destructive and with ALIASING
// call patterns (target lru_types).  Same reference as C17_lru.cpp (recency list, front = most recently put /
// touched); what is new is the domain:
//   * keys / values: std::string (short = SSO incl. the empty string, long = heap), verif::Tracked (moved-from
//     value = poison), KeyRec (record owning a std::string and a Tracked, no default constructor);
//   * every key passed to the cache is a distinct object equal to the stored one; caller-owned key/value objects
//     are overwritten / moved away right after put(): the cache must hold its own copies;
//   * value references INTO the cache as arguments: put(k, get(k')) / put(k, get_touch(k')) with k' == k or not;
//   * for caches with Key == Value type, a stored VALUE used by reference as the KEY argument of
//     put / touch / touch_if_exists / erase / erase_if_exists / get / get_touch / exists;
//   * pop() results put back (the popped object must be intact, the popped key must be gone), use after clear().
// Exact oracle after every step: size(), exists() for every key of the universe, get() of every stored key ==
// latest value, exception iff absent, pop() == least recent entry; final drain == complete recency order; nothing
// alive after destruction.
#include "../engine/pbt.hpp"
#include "../engine/tracked.hpp"

#include <cstdio>
#include <functional>
#include <list>
#include <memory>
#include <stdexcept>
#include <string>
#include <type_traits>
#include <utility>

#include <tlx/container/lru_cache.hpp>

namespace c17t {

using verif::Tracked;

//! idx -> string; style 0 = short strings (index 0 is the EMPTY string), 1 = long (heap buffer), 2 = mixed
inline std::string mkstr(int idx, int style) {
    bool lng = style == 1 || (style == 2 && (idx & 1));
    if (!lng) return idx == 0 ? std::string() : std::string(1, char('a' + (idx - 1) % 26));
    char buf[16];
    snprintf(buf, sizeof buf, "%03d", idx);
    return std::string("a-key-that-does-not-fit-the-small-buffer-") + buf;
}

//! record owning a string and a Tracked; no default constructor; the implicit move leaves {"" , poison}
struct KeyRec {
    std::string s;
    Tracked t;
    KeyRec(const std::string& s_, int v) : s(s_), t(v) {}
    friend bool operator==(const KeyRec& a, const KeyRec& b) { return a.t == b.t && a.s == b.s; }
};

template <class T>
struct Mk;
template <>
struct Mk<std::string> {
    static std::string make(int i, int st) { return mkstr(i, st); }
    static std::string show(const std::string& x) { return pbt::show_bytes(x); }
};
template <>
struct Mk<Tracked> {
    static Tracked make(int i, int) { return Tracked(i); }
    static std::string show(const Tracked& x) { return std::to_string(x.value()); }
};
template <>
struct Mk<KeyRec> {
    static KeyRec make(int i, int st) { return KeyRec(mkstr(i, st), i); }
    static std::string show(const KeyRec& x) { return "{" + pbt::show_bytes(x.s) + "," + std::to_string(x.t.value()) + "}"; }
};

} // namespace c17t

namespace std {
template <>
struct hash<c17t::KeyRec> {
    size_t operator()(const c17t::KeyRec& k) const { return std::hash<std::string>()(k.s) * 31u + std::hash<int>()(k.t.value()); }
};
} // namespace std

namespace {

using namespace c17t;

typedef std::list<std::pair<int, int>> Ref;

std::string show(const Ref& r) {
    std::ostringstream os;
    os << "[";
    bool first = true;
    for (auto& e : r) {
        os << (first ? "" : " ") << e.first << ":" << e.second;
        first = false;
    }
    os << "] (indices key:value, most recent first)";
    return os.str();
}

template <class K, class V, bool IsMap>
struct CacheT {
    typedef tlx::LruCacheMap<K, V, verif::CountingAllocator<std::pair<K, V>>> type;
};
template <class K, class V>
struct CacheT<K, V, false> {
    typedef tlx::LruCacheSet<K, verif::CountingAllocator<K>> type;
};

template <class K, class V, bool IsMap>
void lru_types_history(pbt::Source& src) {
    typedef typename CacheT<K, V, IsMap>::type Cache;
    constexpr bool same = IsMap && std::is_same<K, V>::value;
    verif::Ledger::get().reset();
    verif::AllocLedger::get().reset();
    const int U = (int)src.range(1, 8);
    const int st = (int)src.range(0, 2);
    static const char* const SL[] = {"strings=short(incl. empty)", "strings=long", "strings=mixed"};
    pbt::label(SL[st]);
    PBT_LOG("universe " << U << " keys, " << SL[st] << "\n");
    const int KMAX = 10; // keys 0..9 are probed after every step (values 0..9 double as keys when Key == Value)
    auto mk = [&](int k) { return Mk<K>::make(k, st); };
    auto mv = [&](int v) { return Mk<V>::make(v, st); };
    {
        Cache c;
        Ref ref;
        bool reordered = false, special = false, nt = false;
        auto find = [&](int k) {
            auto it = ref.begin();
            while (it != ref.end() && it->first != k) ++it;
            return it;
        };
        auto to_front = [&](Ref::iterator it) {
            if (it != ref.begin()) reordered = true;
            ref.splice(ref.begin(), ref, it);
        };
        auto model_put = [&](int k, int v) {
            auto it = find(k);
            if (it != ref.end()) {
                if (it != ref.begin()) reordered = true;
                ref.erase(it);
                pbt::label("put_replace");
            }
            ref.emplace_front(k, v);
        };
        auto check = [&](const char* after) {
            PBT_CHECK(c.size() == ref.size(), "C17/lru-size", "after " << after << ": size() " << c.size() << " but reference " << show(ref));
            const Cache& cc = c;
            for (int k = 0; k < KMAX; ++k) {
                auto it = find(k);
                bool want = it != ref.end();
                bool got = cc.exists(mk(k));
                PBT_CHECK(got == want, "C17/lru-exists", "after " << after << ": exists(key " << k << " = " << Mk<K>::show(mk(k)) << ") = " << got << " but reference " << show(ref));
                if constexpr (IsMap) {
                    if (want) {
                        const V& v = c.get(mk(k));
                        PBT_CHECK(v == mv(it->second), "C17/lru-value", "after " << after << ": get(key " << k << ") = " << Mk<V>::show(v) << " but the latest value is " << Mk<V>::show(mv(it->second)) << "; reference " << show(ref));
                    }
                }
            }
        };
        //! pop() and compare with the least recent entry of the reference (which is removed); returns the popped object(s)
        auto pop_checked = [&](const char* what) {
            std::pair<int, int> want = ref.back();
            if constexpr (IsMap) {
                std::pair<K, V> p = c.pop();
                PBT_LOG(what << " pop() -> " << Mk<K>::show(p.first) << ":" << Mk<V>::show(p.second) << "\n");
                PBT_CHECK(p.first == mk(want.first) && p.second == mv(want.second), "C17/lru-pop-order",
                          what << ": pop() returned " << Mk<K>::show(p.first) << ":" << Mk<V>::show(p.second) << " but the least recently used entry is " << Mk<K>::show(mk(want.first)) << ":"
                               << Mk<V>::show(mv(want.second)) << "; reference " << show(ref));
                ref.pop_back();
                return p;
            } else {
                K k = c.pop();
                PBT_LOG(what << " pop() -> " << Mk<K>::show(k) << "\n");
                PBT_CHECK(k == mk(want.first), "C17/lru-pop-order",
                          what << ": pop() returned " << Mk<K>::show(k) << " but the least recently used key is " << Mk<K>::show(mk(want.first)) << "; reference " << show(ref));
                ref.pop_back();
                return k;
            }
        };
        auto put_plain = [&](const K& k, const V& v) {
            if constexpr (IsMap) c.put(k, v);
            else (void)v, c.put(k);
        };

        unsigned nops = 0;
        check("construction");
        while (src.more() && nops < 120) {
            ++nops;
            //                                    put tch tie era eie get gtt pop clr own val key re-put
            unsigned op = (unsigned)src.weighted({16, 4, 2, 2, 2, 2, 2, 4, 1, 5, 7, 6, 4});
            int k;
            if (op != 0 && op != 9 && !ref.empty() && src.chance(150)) { // mostly keys that are stored
                auto pit = ref.begin();
                std::advance(pit, src.index(ref.size()));
                k = pit->first;
            } else k = (int)src.range(0, U); // U itself is never put directly: usually absent
            if (k == U && (op == 0 || op == 9)) k = 0;
            auto it = find(k);
            bool present = it != ref.end();
            if (ref.empty() && op != 0 && op != 9) pbt::label("op_on_empty");
            switch (op) {
            case 0: {
                int v = IsMap ? (int)src.range(0, 9) : 0;
                PBT_LOG("put(" << k << "," << v << ")" << (present ? " [replace]" : "") << "\n");
                put_plain(mk(k), mv(v));
                model_put(k, v);
                pbt::label("put");
                break;
            }
            case 1: {
                PBT_LOG("touch(" << k << ")" << (present ? "" : " [absent]") << "\n");
                bool threw = false;
                try {
                    c.touch(mk(k));
                } catch (const std::range_error&) {
                    threw = true;
                }
                PBT_CHECK(threw == !present, "C17/lru-exception", "touch(" << k << ") " << (threw ? "threw" : "did not throw") << " std::range_error; reference " << show(ref));
                if (present) to_front(it);
                pbt::label(present ? "touch" : "touch_absent");
                break;
            }
            case 2: {
                PBT_LOG("touch_if_exists(" << k << ")\n");
                bool r = c.touch_if_exists(mk(k));
                PBT_CHECK(r == present, "C17/lru-touch_if_exists", "touch_if_exists(" << k << ") = " << r << "; reference " << show(ref));
                if (present) to_front(it);
                pbt::label("touch_if_exists");
                break;
            }
            case 3: {
                PBT_LOG("erase(" << k << ")" << (present ? "" : " [absent]") << "\n");
                bool threw = false;
                try {
                    c.erase(mk(k));
                } catch (const std::range_error&) {
                    threw = true;
                }
                PBT_CHECK(threw == !present, "C17/lru-exception", "erase(" << k << ") " << (threw ? "threw" : "did not throw") << " std::range_error; reference " << show(ref));
                if (present) ref.erase(it);
                pbt::label(present ? "erase" : "erase_absent");
                break;
            }
            case 4: {
                PBT_LOG("erase_if_exists(" << k << ")\n");
                bool r = c.erase_if_exists(mk(k));
                PBT_CHECK(r == present, "C17/lru-erase_if_exists", "erase_if_exists(" << k << ") = " << r << "; reference " << show(ref));
                if (present) ref.erase(it);
                pbt::label("erase_if_exists");
                break;
            }
            case 5:
            case 6: {
                if constexpr (IsMap) {
                    bool touch = op == 6;
                    PBT_LOG((touch ? "get_touch(" : "get(") << k << ")" << (present ? "" : " [absent]") << "\n");
                    bool threw = false;
                    try {
                        const V& v = touch ? c.get_touch(mk(k)) : c.get(mk(k));
                        PBT_CHECK(present && v == mv(it->second), "C17/lru-value", (touch ? "get_touch(" : "get(") << k << ") = " << Mk<V>::show(v) << "; reference " << show(ref));
                    } catch (const std::range_error&) {
                        threw = true;
                    }
                    PBT_CHECK(threw == !present, "C17/lru-exception", (touch ? "get_touch(" : "get(") << k << ") " << (threw ? "threw" : "did not throw") << " std::range_error; reference " << show(ref));
                    if (present && touch) to_front(it);
                    pbt::label(touch ? "get_touch" : "get");
                    break;
                } else continue;
            }
            case 7: {
                if (ref.empty()) continue;
                (void)pop_checked("");
                if (reordered && special) nt = true;
                if (reordered) pbt::label("pop_after_reorder");
                pbt::label("pop");
                break;
            }
            case 8: {
                PBT_LOG("clear()\n");
                c.clear();
                if (!ref.empty()) pbt::label("clear_nonempty");
                ref.clear();
                pbt::label("clear");
                break;
            }
            case 9: { // caller-owned objects, reused / destroyed by the caller right after the call
                int v = IsMap ? (int)src.range(0, 9) : 0;
                unsigned how = (unsigned)src.range(0, 2);
                PBT_LOG("put(caller's key object " << k << ", value object " << v << "), then the caller " << (how == 0 ? "overwrites" : how == 1 ? "moves away" : "destroys") << " its objects\n");
                {
                    std::unique_ptr<K> key(new K(mk(k)));
                    std::unique_ptr<V> value(new V(mv(v)));
                    put_plain(*key, *value);
                    if (how == 0) {
                        *key = mk(U), *value = mv(9 - v);
                    } else if (how == 1) {
                        K k2(std::move(*key));
                        V v2(std::move(*value));
                        (void)k2, (void)v2;
                    }
                }
                model_put(k, v);
                special = true;
                pbt::label("put_caller_objects");
                break;
            }
            case 10: { // a VALUE reference into the cache as the value argument of put
                if constexpr (IsMap) {
                    if (ref.empty()) continue;
                    auto it2 = ref.begin();
                    std::advance(it2, src.index(ref.size()));
                    int k2 = it2->first, v2 = it2->second;
                    bool touch = src.boolean();
                    int kk = src.chance(110) ? k2 : (k == U ? 0 : k);
                    PBT_LOG("put(" << kk << ", " << (touch ? "get_touch(" : "get(") << k2 << ")) [value reference into the cache" << (kk == k2 ? ", SAME key" : "") << "]\n");
                    const V& vr = touch ? c.get_touch(mk(k2)) : c.get(mk(k2));
                    if (touch) to_front(it2);
                    c.put(mk(kk), vr);
                    model_put(kk, v2);
                    special = true;
                    pbt::label(kk == k2 ? "put_value_alias_same_key" : "put_value_alias_other_key");
                    break;
                } else continue;
            }
            case 11: { // Key == Value: a stored value, by reference, as the KEY argument
                if constexpr (same) {
                    if (ref.empty()) continue;
                    auto it2 = ref.begin();
                    std::advance(it2, src.index(ref.size()));
                    int k2 = it2->first, ka = it2->second; // the aliased key has index ka
                    unsigned sub = (unsigned)src.weighted({6, 3, 2, 2, 3, 2, 1, 2, 1});
                    const K& kr = c.get(mk(k2));
                    auto ita = find(ka);
                    bool pa = ita != ref.end();
                    static const char* const SN[] = {"put(alias, v)", "put(alias, alias)", "touch(alias)", "touch_if_exists(alias)", "erase(alias)", "erase_if_exists(alias)", "get(alias)", "get_touch(alias)", "exists(alias)"};
                    PBT_LOG(SN[sub] << " with alias = get(" << k2 << ") = key " << ka << (pa ? "" : " [absent]") << (ka == k2 ? " [alias lives in the entry addressed]" : "") << "\n");
                    if (ka == k2) pbt::label("key_alias_in_addressed_entry");
                    bool threw = false;
                    switch (sub) {
                    case 0: {
                        int v = (int)src.range(0, 9);
                        c.put(kr, mv(v));
                        model_put(ka, v);
                        pbt::label("key_alias_put");
                        break;
                    }
                    case 1:
                        c.put(kr, kr);
                        model_put(ka, ka);
                        pbt::label("key_alias_put_both");
                        break;
                    case 2:
                        try {
                            c.touch(kr);
                        } catch (const std::range_error&) {
                            threw = true;
                        }
                        PBT_CHECK(threw == !pa, "C17/lru-exception", "touch(alias of key " << ka << ") " << (threw ? "threw" : "did not throw") << "; reference " << show(ref));
                        if (pa) to_front(ita);
                        pbt::label("key_alias_touch");
                        break;
                    case 3: {
                        bool r = c.touch_if_exists(kr);
                        PBT_CHECK(r == pa, "C17/lru-touch_if_exists", "touch_if_exists(alias of key " << ka << ") = " << r << "; reference " << show(ref));
                        if (pa) to_front(ita);
                        pbt::label("key_alias_touch");
                        break;
                    }
                    case 4:
                        try {
                            c.erase(kr);
                        } catch (const std::range_error&) {
                            threw = true;
                        }
                        PBT_CHECK(threw == !pa, "C17/lru-exception", "erase(alias of key " << ka << ") " << (threw ? "threw" : "did not throw") << "; reference " << show(ref));
                        if (pa) ref.erase(ita);
                        pbt::label("key_alias_erase");
                        break;
                    case 5: {
                        bool r = c.erase_if_exists(kr);
                        PBT_CHECK(r == pa, "C17/lru-erase_if_exists", "erase_if_exists(alias of key " << ka << ") = " << r << "; reference " << show(ref));
                        if (pa) ref.erase(ita);
                        pbt::label("key_alias_erase");
                        break;
                    }
                    case 6:
                    case 7:
                        try {
                            const V& v = sub == 7 ? c.get_touch(kr) : c.get(kr);
                            PBT_CHECK(pa && v == mv(ita->second), "C17/lru-value", "get(alias of key " << ka << ") = " << Mk<V>::show(v) << "; reference " << show(ref));
                        } catch (const std::range_error&) {
                            threw = true;
                        }
                        PBT_CHECK(threw == !pa, "C17/lru-exception", "get(alias of key " << ka << ") " << (threw ? "threw" : "did not throw") << "; reference " << show(ref));
                        if (pa && sub == 7) to_front(ita);
                        pbt::label("key_alias_get");
                        break;
                    default: {
                        bool r = static_cast<const Cache&>(c).exists(kr);
                        PBT_CHECK(r == pa, "C17/lru-exists", "exists(alias of key " << ka << ") = " << r << "; reference " << show(ref));
                        pbt::label("key_alias_exists");
                        break;
                    }
                    }
                    special = true;
                    break;
                } else continue;
            }
            default: { // pop, look, put the popped object(s) back (optionally touch with the popped key)
                if (ref.empty()) continue;
                std::pair<int, int> want = ref.back();
                auto popped = pop_checked("re-put:");
                check("pop");
                bool also_touch = src.boolean();
                if constexpr (IsMap) {
                    c.put(popped.first, popped.second);
                    if (also_touch) c.touch(popped.first);
                } else {
                    c.put(popped);
                    if (also_touch) c.touch(popped);
                }
                PBT_LOG("put(popped)" << (also_touch ? ", touch(popped key)" : "") << "\n");
                model_put(want.first, want.second);
                special = true;
                pbt::label("pop_reput");
                break;
            }
            }
            check("op");
            if (ref.size() >= 5) pbt::label("size>=5");
        }
        // drain: the complete recency order
        while (!ref.empty()) {
            PBT_CHECK(c.size() == ref.size(), "C17/lru-size", "drain: size() " << c.size() << " but reference " << show(ref));
            (void)pop_checked("drain:");
            check("drain pop");
        }
        PBT_CHECK(c.size() == 0, "C17/lru-size", "size() " << c.size() << " after draining the reference");
        if (src.boolean()) { // reuse after the drain, destroy non-empty
            put_plain(mk(0), mv(1));
            put_plain(mk(1), mv(0));
            model_put(0, 1), model_put(1, 0);
            check("reuse after drain");
            pbt::label("destroyed_nonempty");
        }
        if (nt) pbt::nontrivial();
    }
    PBT_CHECK(verif::Ledger::get().live_count() == 0, "C17/lru-leak", verif::Ledger::get().live_count() << " key/value objects alive after the cache was destroyed");
    PBT_CHECK(verif::AllocLedger::get().live_count() == 0, "C17/lru-leak", verif::AllocLedger::get().live_count() << " blocks not freed after the cache was destroyed");
}

} // namespace

PBT_PROPERTY(lru_types) {
    unsigned kind = (unsigned)src.range(0, 6);
    static const char* const L[] = {"LruCacheSet<string>",         "LruCacheMap<string,string>", "LruCacheMap<string,Tracked>", "LruCacheMap<Tracked,string>",
                                    "LruCacheSet<KeyRec>",         "LruCacheMap<KeyRec,KeyRec>", "LruCacheMap<Tracked,Tracked>"};
    pbt::label(L[kind]);
    PBT_LOG(L[kind] << "\n");
    switch (kind) {
    case 0: return lru_types_history<std::string, std::string, false>(src);
    case 1: return lru_types_history<std::string, std::string, true>(src);
    case 2: return lru_types_history<std::string, verif::Tracked, true>(src);
    case 3: return lru_types_history<verif::Tracked, std::string, true>(src);
    case 4: return lru_types_history<c17t::KeyRec, c17t::KeyRec, false>(src);
    case 5: return lru_types_history<c17t::KeyRec, c17t::KeyRec, true>(src);
    default: return lru_types_history<verif::Tracked, verif::Tracked, true>(src);
    }
}
