// C13 (part 2) — tlx::DAryAddressableIntHeap: contents, membership of every key, removal, priority updates and
// build_heap (on empty and non-empty heaps) vs. a "set of present keys + priority table" model; arity 1..8,
// comparators std::less, std::greater and an external priority table.
#include "../engine/pbt.hpp"

#include <algorithm>
#include <cstdint>
#include <functional>
#include <memory>
#include <vector>

#include "C13_addressable_impl.hpp"
#include "C13_addressable_types_impl.hpp"

namespace {

typedef c13::AKey Key;
using c13::IAddr;
IAddr* make_addr(unsigned arity, unsigned ck, const std::vector<int>* prio) {
    return arity <= 4 ? c13::make_addr_lo(arity, ck, prio) : c13::make_addr_hi(arity, ck, prio);
}

template <class V>
std::string show(const V& v) {
    std::ostringstream os;
    os << "{";
    bool first = true;
    for (auto x : v) {
        os << (first ? "" : ",") << x;
        first = false;
    }
    os << "}";
    return os.str();
}

//! ext (target addressable_types): ck 3..5 are comparators owning state, five more operations are drawn (aliasing calls,
//! other iterator types, more copy/move/swap round trips); the existing target calls with ext = false and keeps its
//! byte -> history mapping
void addr_history(pbt::Source& src, unsigned A, unsigned ck, bool ext = false) {
    const bool table = ck >= 2;
    const size_t U = (size_t)src.range(1, 20); // key universe 0..U-1
    std::vector<int> prio(U, 0);
    if (table)
        for (size_t i = 0; i < U; ++i) prio[i] = (int)src.range(0, 6);
    auto cmp = [&](Key a, Key b) { return ck == 0 ? a < b : ck == 1 ? a > b : prio[a] < prio[b]; };
    std::unique_ptr<IAddr> hp(ext ? (A <= 4 ? c13::make_addr_x_lo(A, ck, &prio) : c13::make_addr_x_hi(A, ck, &prio)) : make_addr(A, ck, &prio));
    IAddr& h = *hp;
    std::vector<char> present(U, 0);
    size_t msize = 0;
    PBT_LOG("DAryAddressableIntHeap arity=" << A << " cmp=" << (table ? "table" : (cmp(0, 1) ? "less" : "greater")) << " U=" << U
                                            << (table ? " prio=" + show(prio) : std::string()) << "\n");

    auto members = [&]() {
        std::vector<Key> v;
        for (size_t k = 0; k < U; ++k)
            if (present[k]) v.push_back((Key)k);
        return v;
    };
    auto is_min = [&](Key t) {
        for (size_t k = 0; k < U; ++k)
            if (present[k] && cmp((Key)k, t)) return false;
        return true;
    };
    auto pick_present = [&]() -> Key {
        std::vector<Key> m = members();
        return m[src.index(m.size())];
    };
    auto pick_absent = [&](bool* ok) -> Key {
        std::vector<Key> a;
        for (size_t k = 0; k < U; ++k)
            if (!present[k]) a.push_back((Key)k);
        *ok = !a.empty();
        return a.empty() ? 0 : a[src.index(a.size())];
    };
    //! random list of distinct keys of the universe, in random order
    auto gen_keys = [&]() {
        std::vector<Key> v;
        std::vector<char> used(U, 0);
        size_t n = (size_t)src.range(0, (int64_t)U);
        for (size_t i = 0; i < n; ++i) {
            Key k = (Key)src.index(U);
            if (used[k]) continue;
            used[k] = 1;
            v.push_back(k);
        }
        return v;
    };
    auto set_model = [&](const std::vector<Key>& v) {
        std::fill(present.begin(), present.end(), 0);
        for (Key k : v) present[k] = 1;
        msize = v.size();
    };
    static const Key BEYOND[] = {1000, 0x7fffffffu, 0xfffffffeu, 0xffffffffu};
    auto check = [&](const char* after) {
        PBT_CHECK(h.size() == msize, "C13/addr-size", "after " << after << ": size() " << h.size() << " but model has " << msize << " " << show(members()));
        PBT_CHECK(h.empty() == (msize == 0), "C13/addr-empty", "after " << after << ": empty() " << h.empty() << ", model size " << msize);
        for (size_t k = 0; k < U + 3; ++k) {
            bool want = k < U && present[k];
            PBT_CHECK(h.contains((Key)k) == want, "C13/addr-contains",
                      "after " << after << ": contains(" << k << ") = " << h.contains((Key)k) << " but model says " << want << "; model " << show(members()));
        }
        for (Key k : BEYOND) PBT_CHECK(!h.contains(k), "C13/addr-contains", "after " << after << ": contains(" << k << ") true for a key never inserted");
        if (msize) {
            Key t = h.top();
            PBT_CHECK(t < U && present[t], "C13/addr-top-member", "after " << after << ": top() = " << t << " is not stored; model " << show(members()));
            PBT_CHECK(is_min(t), "C13/addr-top-min", "after " << after << ": top() = " << t << " is not minimal; model " << show(members())
                                                              << (table ? " prio " + show(prio) : std::string()));
        }
        PBT_CHECK(h.sanity_check(), "C13/addr-sanity", "after " << after << ": sanity_check() false; model " << show(members()));
    };

    bool nt = false;
    unsigned nops = 0;
    check("construction");
    while (src.more() && nops < 200) {
        ++nops;
        unsigned op = ext ? (unsigned)src.weighted({10, 4, 3, 3, 8, 1, 2, 2, 2, 3, 1, 2, 4, 4, 2, 3, 3})
                          : (unsigned)src.weighted({10, 4, 3, 3, 8, 1, 2, 2, 2, 3, 1, 2});
        switch (op) {
        case 0: {
            bool ok;
            Key k = pick_absent(&ok);
            if (!ok) continue;
            if (src.boolean()) {
                PBT_LOG("push(" << k << ")\n");
                const Key ck = k;
                h.push(ck);
            } else {
                PBT_LOG("push(move " << k << ")\n");
                Key kk = k;
                h.push_move(std::move(kk));
            }
            present[k] = 1, ++msize;
            pbt::label("push");
            break;
        }
        case 1: {
            if (!msize) continue;
            Key k = pick_present();
            PBT_LOG("remove(" << k << ")" << (k == h.top() ? " [top]" : "") << "\n");
            h.remove(k);
            present[k] = 0, --msize;
            pbt::label("remove");
            break;
        }
        case 2: {
            if (!msize) continue;
            Key t = h.top();
            PBT_LOG("pop() [top " << t << "]\n");
            h.pop();
            PBT_CHECK(t < U && present[t], "C13/addr-top-member", "top() " << t << " not in model " << show(members()));
            present[t] = 0, --msize;
            pbt::label("pop");
            break;
        }
        case 3: {
            if (!msize) continue;
            Key t = h.extract_top();
            PBT_LOG("extract_top() -> " << t << "\n");
            PBT_CHECK(t < U && present[t], "C13/addr-extract-member", "extract_top() returned " << t << " which is not stored; model " << show(members()));
            PBT_CHECK(is_min(t), "C13/addr-extract-min", "extract_top() returned " << t << " which is not minimal; model " << show(members()));
            present[t] = 0, --msize;
            pbt::label("extract_top");
            break;
        }
        case 4: {
            // update(key): present key after raising / lowering its priority, or absent key (= push)
            Key k = (msize && src.chance(170)) ? pick_present() : (Key)src.index(U);
            if (table) {
                int p = (int)src.range(0, 6);
                PBT_LOG("prio[" << k << "] " << prio[k] << " -> " << p << "; ");
                if (present[k] && p != prio[k] && msize >= 2) {
                    nt = true;
                    pbt::label(p < prio[k] ? "update_lowered" : "update_raised");
                }
                prio[k] = p;
                h.set_prio(k, p);
            }
            PBT_LOG("update(" << k << ")" << (present[k] ? "" : " [absent: push]") << "\n");
            if (!present[k]) pbt::label("update_absent");
            h.update(k);
            if (!present[k]) present[k] = 1, ++msize;
            pbt::label("update");
            break;
        }
        case 5:
            PBT_LOG("clear()\n");
            h.clear();
            set_model({});
            pbt::label("clear");
            break;
        case 6: {
            std::vector<Key> v = gen_keys();
            PBT_LOG("build_heap(first,last) " << show(v) << (msize ? " on non-empty" : "") << "\n");
            if (msize) pbt::label("build_nonempty"), nt = true;
            h.build_iter(v);
            set_model(v);
            pbt::label("build_iter");
            break;
        }
        case 7: {
            std::vector<Key> v = gen_keys();
            PBT_LOG("build_heap(const vector&) " << show(v) << (msize ? " on non-empty" : "") << "\n");
            if (msize) pbt::label("build_nonempty"), nt = true;
            const std::vector<Key>& cv = v;
            h.build_copy(cv);
            set_model(v);
            pbt::label("build_copy");
            break;
        }
        case 8: {
            std::vector<Key> v = gen_keys();
            PBT_LOG("build_heap(vector&&) " << show(v) << (msize ? " on non-empty" : "") << "\n");
            if (msize) pbt::label("build_nonempty"), nt = true;
            set_model(v);
            h.build_move(std::move(v));
            pbt::label("build_move");
            break;
        }
        case 9: {
            if (table) {
                size_t n = (size_t)src.range(0, 4);
                for (size_t i = 0; i < n; ++i) {
                    size_t k = src.index(U);
                    int p = (int)src.range(0, 6);
                    PBT_LOG("prio[" << k << "] = " << p << "\n");
                    if (prio[k] != p && present[k]) pbt::label("update_all_changed");
                    prio[k] = p;
                    h.set_prio((Key)k, p);
                }
            }
            PBT_LOG("update_all()\n");
            h.update_all();
            pbt::label("update_all");
            break;
        }
        case 10: {
            size_t n = (size_t)src.range(0, (int64_t)U + 2); // never beyond the checked key range
            PBT_LOG("reserve(" << n << ")\n");
            h.reserve(n);
            pbt::label("reserve");
            break;
        }
        case 12: {
            // ext: remove() with the key read through the reference top() returns
            if (!msize) continue;
            unsigned how = (unsigned)src.range(0, 1);
            Key t = h.top();
            PBT_CHECK(t < U && present[t] && is_min(t), "C13/addr-top-min", "before remove(top()): top() = " << t << " is not a minimal stored key; model " << show(members()));
            PBT_LOG((how ? "const key_type& r = top(); remove(r)" : "remove(top())") << " [top " << t << "]\n");
            h.remove_top_alias(how);
            present[t] = 0, --msize;
            pbt::label("alias_remove_top");
            break;
        }
        case 13: {
            // ext: update(top()) after changing the top key's priority
            if (!msize) continue;
            Key t = h.top();
            PBT_CHECK(t < U && present[t] && is_min(t), "C13/addr-top-min", "before update(top()): top() = " << t << " is not a minimal stored key; model " << show(members()));
            if (table) {
                int p = (int)src.range(0, 6);
                PBT_LOG("prio[" << t << "] " << prio[t] << " -> " << p << "; ");
                if (p != prio[t] && msize >= 2) nt = true, pbt::label("alias_update_top_changed");
                prio[t] = p;
                h.set_prio(t, p);
            }
            PBT_LOG("update(top()) [top " << t << "]\n");
            h.update_top_alias();
            pbt::label("alias_update_top");
            break;
        }
        case 14: {
            if (!msize) continue;
            PBT_LOG("push(extract_top()) [top " << h.top() << "]\n");
            h.push_extracted();
            pbt::label("push_extracted");
            break;
        }
        case 15: {
            static const char* const BL[c13::N_ABUILD] = {"build_deque_iter", "build_list_iter", "build_reverse_iter", "build_reused_vectors"};
            unsigned how = (unsigned)src.index(c13::N_ABUILD);
            std::vector<Key> v = gen_keys();
            PBT_LOG(BL[how] << " " << show(v) << (msize ? " on non-empty" : "") << "\n");
            if (msize) pbt::label("build_nonempty"), nt = true;
            h.build_ext(how, v);
            set_model(v);
            pbt::label(BL[how]);
            break;
        }
        case 16: {
            static const char* const LL[c13::N_ALIFE] = {"life_independent_copy", "life_swap", "life_reuse_after_move", "life_move_moveassign", "life_copy_of_copy"};
            unsigned how = (unsigned)src.index(c13::N_ALIFE);
            Key extra = (Key)src.index(U);
            PBT_LOG(LL[how] << " extra " << extra << "\n");
            h.copy_move(4 + how, extra);
            pbt::label(LL[how]);
            break;
        }
        default: {
            unsigned how = (unsigned)src.range(0, 3);
            PBT_LOG("copy/move variant " << how << "\n");
            h.copy_move(how, (Key)src.index(U));
            pbt::label("copy_move");
            break;
        }
        }
        check("op");
        if (msize >= 9) pbt::label("size>=9");
    }
    bool have_prev = false;
    Key prev = 0;
    PBT_LOG("drain:");
    while (msize) {
        PBT_CHECK(!h.empty(), "C13/addr-size", "heap empty during drain but model still has " << show(members()));
        Key t = h.extract_top();
        PBT_LOG(" " << t);
        PBT_CHECK(t < U && present[t], "C13/addr-drain-perm", "drain produced " << t << " which is not (any more) in the model " << show(members()));
        present[t] = 0, --msize;
        PBT_CHECK(!have_prev || !cmp(t, prev), "C13/addr-drain-order", "drain produced " << t << " after " << prev);
        PBT_CHECK(!h.contains(t), "C13/addr-contains", "contains(" << t << ") still true after it was extracted");
        prev = t;
        have_prev = true;
    }
    PBT_LOG("\n");
    PBT_CHECK(h.empty() && h.size() == 0, "C13/addr-size", "heap not empty after draining the model: size " << h.size());
    if (nt) pbt::nontrivial();
}

} // namespace

PBT_PROPERTY(addressable) {
    unsigned arity = 1 + (unsigned)src.range(0, 7);
    unsigned ck = (unsigned)src.weighted({2, 1, 3}); // less, greater, external priority table
    static const char* const AL[] = {"", "arity=1", "arity=2", "arity=3", "arity=4", "arity=5", "arity=6", "arity=7", "arity=8"};
    static const char* const CL[] = {"cmp=less", "cmp=greater", "cmp=table"};
    pbt::label(AL[arity]);
    pbt::label(CL[ck]);
    addr_history(src, arity, ck);
}

// comparator objects owning state (shared_ptr table / std::function / owned vector), aliasing calls (remove and update
// with a key read through top()'s reference), build_heap from deque / list / reverse iterators and reused vectors,
// more copy / move / swap round trips, a moved-from heap reused after clear()
PBT_PROPERTY(addressable_types) {
    unsigned arity = 1 + (unsigned)src.range(0, 7);
    // less / pointer table (trivially copyable, as in target addressable) / the state-owning kind compiled for this arity
    unsigned csel = (unsigned)src.weighted({1, 1, 4});
    unsigned ck = csel == 0 ? 0u : csel == 1 ? 2u : c13::addr_stateful_kind(arity);
    static const char* const AL[] = {"", "arity=1", "arity=2", "arity=3", "arity=4", "arity=5", "arity=6", "arity=7", "arity=8"};
    static const char* const CL[] = {"cmp=less", "", "cmp=table", "cmp=shared_ptr_table", "cmp=std_function", "cmp=owned_vector_table"};
    pbt::label(AL[arity]);
    pbt::label(CL[ck]);
    try {
        addr_history(src, arity, ck, true);
    } catch (const pbt::Failure&) {
        throw;
    } catch (const std::exception& e) {
        pbt::fail("C13/exception", std::string("the heap operation threw ") + e.what() + " (std::bad_function_call = an empty, i.e. moved-from, std::function comparator was called)");
    }
}
