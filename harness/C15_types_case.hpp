// C15 (types) — one generated case, shared by C15_main.cpp (generator) and C15_types_impl.hpp (instantiations)
#pragma once
#include <array>
namespace c15t {
static const int KMAX = 16; // keys 0..KMAX-1 <-> letters 'a'..
typedef std::array<int, KMAX> RankTable;
struct Case {
    int entry;      // 0 sort(b,e,cmp)  1 sortN(.., CS_IfSwap<Cmp>)  2 sortN(.., user compare-exchange functor)  3 sort(b,e)
    int n, nkeys;   // n elements with keys 0..nkeys-1, element i carries identity tag i
    RankTable rank; // the order of the table comparators: rank[key(a)] < rank[key(b)]  (ties = equivalent keys)
    int keys[16];
    unsigned p, q;  // iterator-kind parameters (deque offset, scatter multiplier / shift)
    bool light;     // comparator state small enough to live inside the object (small string / in-place closure)
};
} // namespace c15t
