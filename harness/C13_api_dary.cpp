// C13 (api, part 1) — target dary_api (see C13_api_dary_impl.hpp); configurations 0..3, 4..7 are in C13_api_dary_b.cpp
#include "C13_api_dary_impl.hpp"

void c13_dary_api_hi(pbt::Source& src, unsigned cfg, const char* name);

PBT_PROPERTY(dary_api) {
    unsigned cfg = (unsigned)src.range(0, 7);
    static const char* const CL[8] = {"cfg=DAryHeap<int>",    "cfg=d_ary_heap<int,3>",   "cfg=DAryHeap<int,9,greater>",      "cfg=DAryHeap<int,16,fnptr>",
                                      "cfg=DAryHeap<int,64>", "cfg=DAryHeap<string,16>", "cfg=d_ary_heap<string,2,closure>", "cfg=DAryHeap<string,64,greater>"};
    pbt::label(CL[cfg]);
    auto int_less = [](int a, int b) { return a < b; };
    auto int_greater = [](int a, int b) { return a > b; };
    auto int_abs = [](int a, int b) { return std::llabs((long long)a) < std::llabs((long long)b); };
    switch (cfg) {
    case 0: {
        typedef tlx::DAryHeap<int> H; // every default: arity 2, std::less<int>, default-constructed comparator
        history<H, IntC>(src, int_less, [] { return H(); }, 2, CL[cfg]);
        break;
    }
    case 1: {
        typedef tlx::d_ary_heap<int, 3> H;
        history<H, IntC>(src, int_less, [] { return H(); }, 3, CL[cfg]);
        break;
    }
    case 2: {
        typedef tlx::DAryHeap<int, 9, std::greater<int>> H;
        history<H, IntC>(src, int_greater, [] { return H(std::greater<int>()); }, 9, CL[cfg]);
        break;
    }
    case 3: {
        typedef tlx::DAryHeap<int, 16, bool (*)(const int&, const int&)> H;
        history<H, IntC>(src, int_abs, [] { return H(&by_abs); }, 16, CL[cfg]);
        break;
    }
    default: c13_dary_api_hi(src, cfg, CL[cfg]); break;
    }
}
