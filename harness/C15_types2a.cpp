// C15 (types) — family 2, configurations 0..2 (see C15_types_impl.hpp)
#include "C15_types_impl.hpp"
void c15_types_fam2_a(int cfg, const c15t::Case& c) { c15t::types_family_a<2>(cfg, c); }
