// C05 — 40-byte (key,seq,pos) records compared by key only (pointer-based loser trees), raw pointers, unstable entry points
#include "C05_merge.hpp"

namespace c05 {
void run_rec40_u(pbt::Source& src, const Cfg& cfg) { run_case<Rec40, true, false>(src, cfg, DirCmp<Rec40>(cfg.desc)); }
} // namespace c05
