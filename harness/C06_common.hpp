// C06 — shared declarations of the parallel_mergesort harness.
// The template matrix (3 element types x stable/unstable) is split over three
// TUs so that it compiles in parallel; the generator and all oracles live in
// C06_mergesort.cpp and work on the type-neutral (key, tag) description.
#pragma once
#include "../engine/pbt.hpp"

#include <cstddef>
#include <vector>

namespace c06 {

struct Params {
    bool stable = false;
    bool sampling = false; // MWMSA_SAMPLING instead of MWMSA_EXACT
    bool greater = false;  // comparator direction
    unsigned threads = 1;
    size_t oversampling = 10;
    unsigned layout = 0; // target mergesort_iters only: deque front offset / guard margins / build order (not part of the statement's domain)
    // ---- target mergesort_forms only (defaults = the one call form the other targets use) ----------------------
    // call form: which of the public spellings of the same sort is used (C06_run.hpp)
    //   entry 0 = parallel_mergesort / stable_parallel_mergesort, 1 = parallel_mergesort_base<Stable> (the documented "main call")
    //   nargs 5 = (begin, end, comp, num_threads, mwmsa), 4 = mwmsa defaulted (MWMSA_DEFAULT, documented = exact),
    //         3 = num_threads defaulted as well (std::thread::hardware_concurrency()), 2 = comparator defaulted too (std::less<value_type>)
    //   mwmsa_default_spelled: 5-argument form with the enumerator MWMSA_DEFAULT instead of MWMSA_EXACT
    //   cmp_cat: value category of the comparator argument: 0 non-const lvalue, 1 const lvalue, 2 prvalue (fresh copy), 3 xvalue (std::move of a copy)
    //   threads_arg: if non-zero the num_threads argument actually passed (values far above n, up to SIZE_MAX; `threads` is then min(threads_arg, UINT_MAX))
    //   knobs: values for the tuning globals that (stable_)parallel_mergesort does NOT consult according to their documentation
    //          (parallel_multiway_merge_force_sequential / _force_parallel / _minimal_k / _minimal_n); bit 0 force_sequential, bit 1 force_parallel,
    //          bits 2-3 minimal_k in {2, 0, 1000000, SIZE_MAX}, bits 4-5 minimal_n in {1000, 0, 1, SIZE_MAX}
    unsigned entry = 0, nargs = 5, cmp_cat = 0, knobs = 0;
    bool mwmsa_default_spelled = false;
    size_t threads_arg = 0;
};

//! type-neutral element: key decides the order, tag = original index
struct Item {
    int key;
    int tag;
};

//! lifetime accounting of the heap-owning element type (zero for the others)
struct Lifetime {
    long live_before = 0; // live instances right before the sort call
    long live_after = 0;  // ... right after it returned
    long live_end = 0;    // ... after the caller's own vector was destroyed
    long copies = 0;      // instances constructed by the sort (temporaries)
};

//! sets the tlx globals for this case (defined once, in C06_mergesort.cpp)
void reset_globals(const Params& p);

// Each converts `items` to its element type, runs (stable_)parallel_mergesort
// on a std::vector of that type and writes the result back into `items`.
// sort_int loses the tags (sets them to -1).
Lifetime sort_int(const Params& p, std::vector<Item>& items);
Lifetime sort_kt(const Params& p, std::vector<Item>& items);
Lifetime sort_rec(const Params& p, std::vector<Item>& items);

// Target mergesort_iters (C06_types_iters_*.cpp): the same call on ranges that are NOT std::vector iterators, with a
// comparator that owns state. Each sorts a SUB-range [lead, lead + n) of a larger container whose other elements are
// guards that must stay untouched (C06/write-outside-range).
//   sort_deque_kt   (key,tag) in a std::deque (512-byte blocks, begin moved off the block start by pop_front)
//   sort_rev_kt     (key,tag) through std::reverse_iterator over a std::vector (the result is read back reversed)
//   sort_deque_str  record owning a std::string (destructive move, live-instance counter) in a std::deque
//   sort_ptr_str    the same record through raw pointers into the middle of a heap array
Lifetime sort_deque_kt(const Params& p, std::vector<Item>& items);
Lifetime sort_rev_kt(const Params& p, std::vector<Item>& items);
Lifetime sort_deque_str(const Params& p, std::vector<Item>& items);
Lifetime sort_ptr_str(const Params& p, std::vector<Item>& items);

// Target mergesort_forms: further comparator FORMS (the functions above use function objects with a direction flag).
// The std::less ones require !p.greater and are the only ones with the 2-argument call form (p.nargs == 2); the
// std::greater one requires p.greater.
//   sort_rec_less          the heap-owning record (live-instance counter) ordered by its operator<, std::less<Rec> (defaulted or spelled)
//   sort_ptr_kl_less       (key,tag) with operator< through raw pointers, std::less (defaulted or spelled)
//   sort_vec_kl_fnptr      (key,tag) in a std::vector, comparator = pointer to function
//   sort_vec_kl_lambda     (key,tag) in a std::vector, comparator = lambda capturing the direction
//   sort_deque_kl_greater  (key,tag) with operator> in a std::deque, std::greater
Lifetime sort_rec_less(const Params& p, std::vector<Item>& items);
Lifetime sort_ptr_kl_less(const Params& p, std::vector<Item>& items);
Lifetime sort_vec_kl_fnptr(const Params& p, std::vector<Item>& items);
Lifetime sort_vec_kl_lambda(const Params& p, std::vector<Item>& items);
Lifetime sort_deque_kl_greater(const Params& p, std::vector<Item>& items);

} // namespace c06
