// C06 — shared declarations of the parallel_mergesort harness.
// The template matrix (3 element types x stable/unstable) is split over three
// TUs so that it compiles in parallel; the generator and all oracles live in
// C06_mergesort.cpp and work on the type-neutral (key, tag) description.
#pragma once
#include "../engine/pbt.hpp"

#include <cstddef>
#include <vector>

namespace c06 {

struct Params {
    bool stable = false;
    bool sampling = false; // MWMSA_SAMPLING instead of MWMSA_EXACT
    bool greater = false;  // comparator direction
    unsigned threads = 1;
    size_t oversampling = 10;
    unsigned layout = 0; // target mergesort_iters only: deque front offset / guard margins / build order (not part of the statement's domain)
};

//! type-neutral element: key decides the order, tag = original index
struct Item {
    int key;
    int tag;
};

//! lifetime accounting of the heap-owning element type (zero for the others)
struct Lifetime {
    long live_before = 0; // live instances right before the sort call
    long live_after = 0;  // ... right after it returned
    long live_end = 0;    // ... after the caller's own vector was destroyed
    long copies = 0;      // instances constructed by the sort (temporaries)
};

//! sets the tlx globals for this case (defined once, in C06_mergesort.cpp)
void reset_globals(const Params& p);

// Each converts `items` to its element type, runs (stable_)parallel_mergesort
// on a std::vector of that type and writes the result back into `items`.
// sort_int loses the tags (sets them to -1).
Lifetime sort_int(const Params& p, std::vector<Item>& items);
Lifetime sort_kt(const Params& p, std::vector<Item>& items);
Lifetime sort_rec(const Params& p, std::vector<Item>& items);

// Target mergesort_iters (C06_types_iters_*.cpp): the same call on ranges that are NOT std::vector iterators, with a
// comparator that owns state. Each sorts a SUB-range [lead, lead + n) of a larger container whose other elements are
// guards that must stay untouched (C06/write-outside-range).
//   sort_deque_kt   (key,tag) in a std::deque (512-byte blocks, begin moved off the block start by pop_front)
//   sort_rev_kt     (key,tag) through std::reverse_iterator over a std::vector (the result is read back reversed)
//   sort_deque_str  record owning a std::string (destructive move, live-instance counter) in a std::deque
//   sort_ptr_str    the same record through raw pointers into the middle of a heap array
Lifetime sort_deque_kt(const Params& p, std::vector<Item>& items);
Lifetime sort_rev_kt(const Params& p, std::vector<Item>& items);
Lifetime sort_deque_str(const Params& p, std::vector<Item>& items);
Lifetime sort_ptr_str(const Params& p, std::vector<Item>& items);

} // namespace c06
