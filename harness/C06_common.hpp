// C06 — shared declarations of the parallel_mergesort harness.
// The template matrix (3 element types x stable/unstable) is split over three
// TUs so that it compiles in parallel; the generator and all oracles live in
// C06_mergesort.cpp and work on the type-neutral (key, tag) description.
#pragma once
#include "../engine/pbt.hpp"

#include <cstddef>
#include <vector>

namespace c06 {

struct Params {
    bool stable = false;
    bool sampling = false; // MWMSA_SAMPLING instead of MWMSA_EXACT
    bool greater = false;  // comparator direction
    unsigned threads = 1;
    size_t oversampling = 10;
};

//! type-neutral element: key decides the order, tag = original index
struct Item {
    int key;
    int tag;
};

//! lifetime accounting of the heap-owning element type (zero for the others)
struct Lifetime {
    long live_before = 0; // live instances right before the sort call
    long live_after = 0;  // ... right after it returned
    long live_end = 0;    // ... after the caller's own vector was destroyed
    long copies = 0;      // instances constructed by the sort (temporaries)
};

//! sets the tlx globals for this case (defined once, in C06_mergesort.cpp)
void reset_globals(const Params& p);

// Each converts `items` to its element type, runs (stable_)parallel_mergesort
// on a std::vector of that type and writes the result back into `items`.
// sort_int loses the tags (sets them to -1).
Lifetime sort_int(const Params& p, std::vector<Item>& items);
Lifetime sort_kt(const Params& p, std::vector<Item>& items);
Lifetime sort_rec(const Params& p, std::vector<Item>& items);

} // namespace c06
