// C08 oracle instantiation: int / std::greater<int>
#include "C08_common.hpp"
namespace c08 {
void run_cfg1(int rsel, bool ptr, const std::vector<std::vector<int>>& keys, bool dp, bool ds, Stats& st) {
    disp_rank<int, std::greater<int>, false>(rsel, ptr, keys, dp, ds, st);
}
} // namespace c08
