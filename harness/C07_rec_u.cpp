// C07 — instantiation: element type Rec, Stable = false
#include "C07_common.hpp"

namespace c07 {
void run_rec_u(pbt::Source& src, const Cfg& cfg) { run_case<Rec, false>(src, cfg); }
} // namespace c07
