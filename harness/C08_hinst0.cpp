// C08 huge-size oracle instantiation: 1-byte element with operator< / default comparator argument
#include "C08_huge.hpp"
namespace c08h {
void run_hcfg0(const HugeShape& sh, const Model& mo, const std::vector<uint64_t>& ranks, bool dp, bool ds, HStats& st, int rsel) {
    disp_huge<CfgDefault>(sh, mo, ranks, dp, ds, st, rsel);
}
} // namespace c08h
