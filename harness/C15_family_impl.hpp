// C15 — per-family implementation, included by C15_fam{0,1,2}.cpp with C15_FAM defined (one TU per family so that the
// three template matrices compile in parallel).
#include "C15_common.hpp"

#include <algorithm>
#include <functional>
#include <memory>
#include <vector>

namespace c15 {

// ---- zero-one sweep ------------------------------------------------------------------------------------

struct Trace {
    const int* base = nullptr;
    int n = 0;
    int len = 0;
    bool bad = false;
    long bad_l = 0, bad_r = 0;
    unsigned char l[160], r[160];
    void reset(const int* b, int n_) { base = b, n = n_, len = 0, bad = false; }
    void push(const int* pl, const int* pr) {
        long il = pl - base, ir = pr - base;
        if (il < 0 || il >= n || ir < 0 || ir >= n || len >= 160) {
            if (!bad) bad_l = il, bad_r = ir;
            bad = true;
            return;
        }
        l[len] = (unsigned char)il, r[len] = (unsigned char)ir, ++len;
    }
    bool same(const Trace& o) const {
        if (len != o.len) return false;
        for (int i = 0; i < len; ++i)
            if (l[i] != o.l[i] || r[i] != o.r[i]) return false;
        return true;
    }
    std::string str() const {
        std::ostringstream os;
        for (int i = 0; i < len; ++i) os << (i ? " " : "") << (int)l[i] << ":" << (int)r[i];
        return os.str();
    }
};

//! recording compare-exchange passed to the size-specific networks
struct RecCSwap {
    Trace* t;
    void operator()(int& left, int& right) {
        t->push(&left, &right);
        if (t->bad) return; // never touch memory outside the array
        if (right < left) std::swap(left, right);
    }
};
//! recording comparator passed to the dispatching sort(); CS_IfSwap calls cmp(right, left)
struct RecLess {
    Trace* t;
    bool operator()(const int& a, const int& b) const {
        t->push(&b, &a);
        if (t->bad) return false;
        return a < b;
    }
};

static const char* const MODE_NAME[4] = {"sortN(a) default cswap", "sortN(a, recording cswap)", "sort(begin, end)",
                                          "sort(begin, end, recording less)"};

template <int FAM>
void zero_one_block(int mode, int n, uint32_t first, uint32_t last) {
    std::unique_ptr<int[]> buf(new int[(size_t)n]); // exact size: any access outside is an ASan report
    int* a = buf.get();
    Trace ref, cur;
    bool have_ref = false;
    for (uint32_t x = first; x < last; ++x) {
        int ones = 0;
        for (int i = 0; i < n; ++i) a[i] = (int)((x >> i) & 1), ones += a[i];
        cur.reset(a, n);
        switch (mode) {
        case 0: direct_default<FAM>(n, a); break;
        case 1: direct<FAM>(n, a, RecCSwap{&cur}); break;
        case 2: Dispatch<FAM>::run_default(a, a + n); break;
        default: Dispatch<FAM>::run(a, a + n, RecLess{&cur}); break;
        }
        PBT_CHECK(!cur.bad, "C15/comparator-index",
                  FAMILY_NAME[FAM] << " " << MODE_NAME[mode] << " n=" << n << ": compare-exchange touches elements "
                                   << cur.bad_l << " and " << cur.bad_r << " (outside 0.." << n - 1 << ")");
        bool ok = true;
        for (int i = 0; i < n; ++i) ok = ok && a[i] == (i >= n - ones ? 1 : 0);
        if (!ok) {
            std::ostringstream os;
            os << FAMILY_NAME[FAM] << " " << MODE_NAME[mode] << " n=" << n << " zero-one input ";
            for (int i = 0; i < n; ++i) os << ((x >> i) & 1);
            os << " -> ";
            for (int i = 0; i < n; ++i) os << a[i];
            pbt::fail("C15/zero-one", os.str());
        }
        if (mode == 1 || mode == 3) {
            if (!have_ref) {
                // reference trace: the all-zero input of this n
                std::unique_ptr<int[]> zb(new int[(size_t)n]);
                for (int i = 0; i < n; ++i) zb[(size_t)i] = 0;
                ref.reset(zb.get(), n);
                if (mode == 1) direct<FAM>(n, zb.get(), RecCSwap{&ref});
                else Dispatch<FAM>::run(zb.get(), zb.get() + n, RecLess{&ref});
                have_ref = true;
            }
            PBT_CHECK(cur.same(ref), "C15/oblivious",
                      FAMILY_NAME[FAM] << " " << MODE_NAME[mode] << " n=" << n << " input " << x
                                       << ": comparator sequence depends on the data: " << cur.str() << " vs " << ref.str());
        }
    }
}

// ---- generated inputs ------------------------------------------------------------------------------------

struct Item {
    int key, tag;
    bool operator<(const Item& o) const { return key < o.key; } // projection: tag does not take part
};
struct ItemGreater {
    bool operator()(const Item& a, const Item& b) const { return a.key > b.key; }
};
inline bool full_less(const Item& a, const Item& b) { return a.key != b.key ? a.key < b.key : a.tag < b.tag; }
inline bool full_less(int a, int b) { return a < b; }
inline bool same(const Item& a, const Item& b) { return a.key == b.key && a.tag == b.tag; }
inline bool same(int a, int b) { return a == b; }
inline std::ostream& operator<<(std::ostream& os, const Item& i) { return os << i.key << "#" << i.tag; }

template <class T>
std::string show_vec(const T* a, int n) {
    std::ostringstream os;
    os << "[";
    for (int i = 0; i < n; ++i) os << (i ? " " : "") << a[i];
    os << "]";
    return os.str();
}

//! entry: 0 sortN default cswap, 1 sortN CS_IfSwap<Cmp>, 2 sort(b,e), 3 sort(b,e,cmp).  ascending: Cmp is the type's "<"
template <int FAM, class T, class Cmp>
void random_case(int entry, const std::vector<T>& in, Cmp cmp, bool ascending, const char* kind) {
    int n = (int)in.size();
    if (n < 2 && entry < 2) entry += 2;        // there is no sort0 / sort1
    if (!ascending && (entry == 0 || entry == 2)) ++entry; // default comparison is "<"
    std::unique_ptr<T[]> buf(new T[(size_t)n]);
    T* a = buf.get();
    for (int i = 0; i < n; ++i) a[i] = in[(size_t)i];
    bool presorted = true;
    for (int i = 0; i + 1 < n; ++i) presorted = presorted && !cmp(in[(size_t)i + 1], in[(size_t)i]);
    if (n >= 2 && !presorted) pbt::nontrivial();
    static const char* const EN[4] = {"entry:sortN-default", "entry:sortN-cswap", "entry:sort-default", "entry:sort-cmp"};
    pbt::label(EN[entry]);
    PBT_LOG(FAMILY_NAME[FAM] << " " << EN[entry] << " " << kind << " n=" << n << " in=" << show_vec(in.data(), n) << "\n");
    switch (entry) {
    case 0: direct_default<FAM>(n, a); break;
    case 1: direct<FAM>(n, a, sn::CS_IfSwap<Cmp>(cmp)); break;
    case 2: Dispatch<FAM>::run_default(a, a + n); break;
    default: Dispatch<FAM>::run(a, a + n, cmp); break;
    }
    PBT_LOG("  out=" << show_vec(a, n) << "\n");
    for (int i = 0; i + 1 < n; ++i)
        PBT_CHECK(!cmp(a[i + 1], a[i]), "C15/sorted",
                  FAMILY_NAME[FAM] << " " << EN[entry] << " " << kind << " n=" << n << ": " << show_vec(in.data(), n) << " -> "
                                   << show_vec(a, n) << " is not in order at position " << i);
    std::vector<T> x(in), y(a, a + n);
    std::sort(x.begin(), x.end(), [](const T& p, const T& q) { return full_less(p, q); });
    std::sort(y.begin(), y.end(), [](const T& p, const T& q) { return full_less(p, q); });
    bool perm = true;
    for (int i = 0; i < n; ++i) perm = perm && same(x[(size_t)i], y[(size_t)i]);
    PBT_CHECK(perm, "C15/permutation",
              FAMILY_NAME[FAM] << " " << EN[entry] << " " << kind << " n=" << n << ": " << show_vec(in.data(), n) << " -> "
                               << show_vec(a, n) << " is not a permutation of the input");
}

template <int FAM>
void random_family(pbt::Source& src, int entry, int n, int kind) {
    switch (kind) {
    case 0:   // ints with few distinct values, ascending
    case 1:   // … descending
    case 4: { // full-range ints
        std::vector<int> v((size_t)n);
        for (int& e : v) e = kind == 4 ? (int)(uint32_t)src.bits(4) : (int)src.range(0, 3);
        if (kind == 1) pbt::label("kind:int-few-greater"), random_case<FAM>(entry, v, std::greater<int>(), false, "int/greater");
        else if (kind == 0) pbt::label("kind:int-few-less"), random_case<FAM>(entry, v, std::less<int>(), true, "int/less");
        else pbt::label("kind:int-wide-less"), random_case<FAM>(entry, v, std::less<int>(), true, "int32/less");
        break;
    }
    default: { // records ordered by a projection; tags make every element distinguishable
        std::vector<Item> v((size_t)n);
        int t = 0;
        for (Item& e : v) e.key = (int)src.range(0, 3), e.tag = t++;
        if (kind == 2) pbt::label("kind:record-less"), random_case<FAM>(entry, v, std::less<Item>(), true, "record/less(key)");
        else pbt::label("kind:record-greater"), random_case<FAM>(entry, v, ItemGreater(), false, "record/greater(key)");
        break;
    }
    }
}

} // namespace c15
