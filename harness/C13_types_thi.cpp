// C13 (types) — DAryHeap<verif::Tracked, 5..8, {less, one state-owning comparator per arity}> instantiations
#include "C13_types_impl.hpp"
namespace c13t {
IDaryT* make_dary_t_hi_(unsigned arity, unsigned ck, const std::vector<int>* prio) { return make_dary_t_hi<verif::Tracked>(arity, ck, prio); }
} // namespace c13t
