// C03 — UPtrStdStringSet (std::unique_ptr<std::string>, move-only string handles).
#include "C03_runner.hpp"

namespace c03 {
namespace {

struct UPtrRep {
    typedef ssd::UPtrStdStringSet Set;
    std::vector<std::unique_ptr<std::string>> arr;
    std::vector<const std::string*> orig;

    void build(const Case& c) {
        arr = std::vector<std::unique_ptr<std::string>>(c.strs.size());
        orig.resize(arr.size());
        for (size_t i = 0; i < arr.size(); ++i) {
            arr[i].reset(new std::string(c.strs[i].data(), c.strs[i].size()));
            orig[i] = arr[i].get();
        }
    }
    size_t size() const { return arr.size(); }
    Set set() { return Set(arr.data(), arr.data() + arr.size()); }
    bool call_front(const Case&, uint32_t*, size_t) { return false; }

    void check_before_order(const Case& c) {
        std::vector<const std::string*> a(arr.size()), b(orig);
        for (size_t i = 0; i < arr.size(); ++i) {
            PBT_CHECK(arr[i].get() != nullptr, "C03/permutation", describe(c, arr.size()) << ": output[" << i << "] is a null unique_ptr");
            a[i] = arr[i].get();
        }
        std::sort(a.begin(), a.end());
        std::sort(b.begin(), b.end());
        for (size_t i = 0; i < a.size(); ++i)
            PBT_CHECK(a[i] == b[i], "C03/permutation",
                      describe(c, a.size()) << ": output is not a permutation of the original string objects (sorted pointer lists differ at "
                                            << i << ")");
    }
    std::pair<const unsigned char*, size_t> view(size_t i) {
        return std::make_pair((const unsigned char*)arr[i]->data(), arr[i]->size());
    }
    void check_after_order(const Case& c) {
        for (size_t i = 0; i < orig.size(); ++i)
            PBT_CHECK(*orig[i] == c.strs[i], "C03/content-changed", describe(c, orig.size()) << ": contents of original string " << i << " were modified");
    }
};

} // namespace

C03_DEFINE_RUN(run_uptr, UPtrRep)

} // namespace c03
