// C08 api_forms instantiation, bundles 2 and 3 (see C08_forms.hpp)
#include "C08_forms.hpp"
namespace c08 {
namespace fm {
// bundle 2: int | views into one sorted buffer (aliased), vector::iterator | vector<pair>::const_iterator |
// vector<vector<int>::const_iterator> | short | std::less<> / std::greater<> (transparent), non-const lvalue
void run_form2(const std::vector<std::vector<int>>& keys, int mode, uint64_t salt, Stats& st, FormStats&) {
    typedef ViewStore<int, false> S;
    typedef OffsConst<std::vector<int>::iterator, std::vector<int>::const_iterator> O;
    if (mode == 1) check_forms<int, S, SeqsVecConstIt, O, short, std::greater<>, 0, false>(keys, 1, std::greater<>(), salt, st);
    else check_forms<int, S, SeqsVecConstIt, O, short, std::less<>, 0, false>(keys, 0, std::less<>(), salt, st);
}
// bundle 3: NoDef (no default constructor) | own blocks, vector::iterator | deque<pair>::const_iterator (lvalues) |
// It* into a new[] array | unsigned short, rank passed as a temporary | std::reference_wrapper of a stateful functor with
// non-const operator(), const lvalue
void run_form3(const std::vector<std::vector<int>>& keys, int mode, uint64_t salt, Stats& st, FormStats& fs) {
    CountCmp<NoDef> cc(mode);
    check_forms<NoDef, OwnStore<NoDef, false>, SeqsDequeConstIt, OffsUnique<std::vector<NoDef>::iterator>, unsigned short,
                std::reference_wrapper<CountCmp<NoDef>>, 1, true>(keys, mode, std::ref(cc), salt, st);
    fs.cmp_calls = cc.calls;
}
} // namespace fm
} // namespace c08
