// C03 — suffix representation, entry points without LCP output
#include "C03_rep_suffix_impl.hpp"
