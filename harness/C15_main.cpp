// C15 — the sorting networks sort every input of up to sixteen elements.
//   zero_one (enumerate): every 0/1 input of every length 0..16 through every family and entry point, plus the
//            obliviousness check (comparator index sequence independent of the data, all indices < n) that licenses
//            the zero-one principle.
//   random:  generated inputs (few distinct values, full-range ints, records ordered by a projection, `greater`)
//            checked for sortedness and permutation.
#include "../engine/pbt.hpp"

#include <vector>

void c15_zero_one_fam0(int mode, int n, uint32_t first, uint32_t last);
void c15_zero_one_fam1(int mode, int n, uint32_t first, uint32_t last);
void c15_zero_one_fam2(int mode, int n, uint32_t first, uint32_t last);
void c15_random_fam0(pbt::Source& src, int entry, int n, int kind);
void c15_random_fam1(pbt::Source& src, int entry, int n, int kind);
void c15_random_fam2(pbt::Source& src, int entry, int n, int kind);

namespace {
struct WorkItem {
    int fam, mode, n;
    uint32_t first, last;
};
//! all (family, entry point, n, block of inputs) items; blocks of at most 2048 inputs
std::vector<WorkItem> all_items() {
    std::vector<WorkItem> v;
    for (int fam = 0; fam < 3; ++fam)
        for (int mode = 0; mode < 4; ++mode)
            for (int n = (mode < 2 ? 2 : 0); n <= 16; ++n) {
                uint32_t total = 1u << n;
                for (uint32_t b = 0; b < total; b += 2048) v.push_back({fam, mode, n, b, b + 2048 < total ? b + 2048 : total});
            }
    return v;
}
} // namespace

PBT_PROPERTY(zero_one) {
    uint64_t idx = src.bits(8), total = src.bits(8);
    if (total == 0) total = 1, idx = 0;
    std::vector<WorkItem> items = all_items();
    uint64_t inputs = 0;
    for (uint64_t t = idx; t < items.size(); t += total) {
        const WorkItem& w = items[t];
        switch (w.fam) {
        case 0: c15_zero_one_fam0(w.mode, w.n, w.first, w.last); break;
        case 1: c15_zero_one_fam1(w.mode, w.n, w.first, w.last); break;
        default: c15_zero_one_fam2(w.mode, w.n, w.first, w.last); break;
        }
        inputs += w.last - w.first;
    }
    pbt::count(inputs); // zero-one inputs sorted by this chunk
    pbt::label("chunk");
    pbt::nontrivial();
    PBT_LOG("zero_one chunk " << idx << "/" << total << ": " << inputs << " zero-one inputs of " << items.size() << " work items\n");
}

PBT_PROPERTY(random) {
    int fam = (int)src.range(0, 2);
    int entry = (int)src.range(0, 3);
    int kind = (int)src.range(0, 4);
    int n = (int)src.range(0, 16);
    static const char* const FL[3] = {"family:best", "family:bose_nelson", "family:bose_nelson_parameter"};
    static const char* const NL[17] = {"n=0", "n=1", "n=2", "n=3", "n=4", "n=5", "n=6", "n=7", "n=8",
                                       "n=9", "n=10", "n=11", "n=12", "n=13", "n=14", "n=15", "n=16"};
    pbt::label(FL[fam]);
    pbt::label(NL[n]);
    switch (fam) {
    case 0: c15_random_fam0(src, entry, n, kind); break;
    case 1: c15_random_fam1(src, entry, n, kind); break;
    default: c15_random_fam2(src, entry, n, kind); break;
    }
}
