// C15 — the sorting networks sort every input of up to sixteen elements.
//   zero_one (enumerate): every 0/1 input of every length 0..16 through every family and entry point, plus the
//            obliviousness check (comparator index sequence independent of the data, all indices < n) that licenses
//            the zero-one principle.
//   random:  generated inputs (few distinct values, full-range ints, records ordered by a projection, `greater`)
//            checked for sortedness and permutation.
#include "../engine/pbt.hpp"

#include <vector>

void c15_zero_one_fam0(int mode, int n, uint32_t first, uint32_t last);
void c15_zero_one_fam1(int mode, int n, uint32_t first, uint32_t last);
void c15_zero_one_fam2(int mode, int n, uint32_t first, uint32_t last);
void c15_random_fam0(pbt::Source& src, int entry, int n, int kind);
void c15_random_fam1(pbt::Source& src, int entry, int n, int kind);
void c15_random_fam2(pbt::Source& src, int entry, int n, int kind);

namespace {
struct WorkItem {
    int fam, mode, n;
    uint32_t first, last;
};
//! all (family, entry point, n, block of inputs) items; blocks of at most 2048 inputs
std::vector<WorkItem> all_items() {
    std::vector<WorkItem> v;
    for (int fam = 0; fam < 3; ++fam)
        for (int mode = 0; mode < 4; ++mode)
            for (int n = (mode < 2 ? 2 : 0); n <= 16; ++n) {
                uint32_t total = 1u << n;
                for (uint32_t b = 0; b < total; b += 2048) v.push_back({fam, mode, n, b, b + 2048 < total ? b + 2048 : total});
            }
    return v;
}
} // namespace

PBT_PROPERTY(zero_one) {
    uint64_t idx = src.bits(8), total = src.bits(8);
    if (total == 0) total = 1, idx = 0;
    std::vector<WorkItem> items = all_items();
    uint64_t inputs = 0;
    for (uint64_t t = idx; t < items.size(); t += total) {
        const WorkItem& w = items[t];
        switch (w.fam) {
        case 0: c15_zero_one_fam0(w.mode, w.n, w.first, w.last); break;
        case 1: c15_zero_one_fam1(w.mode, w.n, w.first, w.last); break;
        default: c15_zero_one_fam2(w.mode, w.n, w.first, w.last); break;
        }
        inputs += w.last - w.first;
    }
    pbt::count(inputs); // zero-one inputs sorted by this chunk
    pbt::label("chunk");
    pbt::nontrivial();
    PBT_LOG("zero_one chunk " << idx << "/" << total << ": " << inputs << " zero-one inputs of " << items.size() << " work items\n");
}

PBT_PROPERTY(random) {
    int fam = (int)src.range(0, 2);
    int entry = (int)src.range(0, 3);
    int kind = (int)src.range(0, 4);
    int n = (int)src.range(0, 16);
    static const char* const FL[3] = {"family:best", "family:bose_nelson", "family:bose_nelson_parameter"};
    static const char* const NL[17] = {"n=0", "n=1", "n=2", "n=3", "n=4", "n=5", "n=6", "n=7", "n=8",
                                       "n=9", "n=10", "n=11", "n=12", "n=13", "n=14", "n=15", "n=16"};
    pbt::label(FL[fam]);
    pbt::label(NL[n]);
    switch (fam) {
    case 0: c15_random_fam0(src, entry, n, kind); break;
    case 1: c15_random_fam1(src, entry, n, kind); break;
    default: c15_random_fam2(src, entry, n, kind); break;
    }
}

// ---- types: comparator objects owning state, destructive-move elements, non-pointer iterators, user compare-exchange
// functors (C15_types_impl.hpp). Separate targets: the byte -> case mapping of `zero_one` and `random` is unchanged.

#include "../engine/tracked.hpp"
#include "C15_types_case.hpp"
// family f, part a..d = configurations 0..2, 3..5, 6..8, 9..11
void c15_types_fam0_a(int cfg, const c15t::Case& c);
void c15_types_fam0_b(int cfg, const c15t::Case& c);
void c15_types_fam0_c(int cfg, const c15t::Case& c);
void c15_types_fam0_d(int cfg, const c15t::Case& c);
void c15_types_fam1_a(int cfg, const c15t::Case& c);
void c15_types_fam1_b(int cfg, const c15t::Case& c);
void c15_types_fam1_c(int cfg, const c15t::Case& c);
void c15_types_fam1_d(int cfg, const c15t::Case& c);
void c15_types_fam2_a(int cfg, const c15t::Case& c);
void c15_types_fam2_b(int cfg, const c15t::Case& c);
void c15_types_fam2_c(int cfg, const c15t::Case& c);
void c15_types_fam2_d(int cfg, const c15t::Case& c);
void c15_zero_one_cmp_fam0(int kind, int mode, int n, uint32_t first, uint32_t last);
void c15_zero_one_cmp_fam1(int kind, int mode, int n, uint32_t first, uint32_t last);
void c15_zero_one_cmp_fam2(int kind, int mode, int n, uint32_t first, uint32_t last);

namespace {
struct CmpWorkItem {
    int fam, kind, mode, n;
    uint32_t first, last;
};
//! (family, comparator kind / string elements, entry point, n, block of <= 2048 zero-one inputs)
std::vector<CmpWorkItem> all_cmp_items(bool heavy) {
    std::vector<CmpWorkItem> v;
    for (int fam = 0; fam < 3; ++fam)
        for (int kind = heavy ? 4 : 0; kind < (heavy ? 7 : 4); ++kind)
            for (int mode = 0; mode < 2; ++mode)
                for (int n = (mode == 0 ? 2 : 0); n <= 16; ++n) {
                    uint32_t total = 1u << n;
                    for (uint32_t b = 0; b < total; b += 2048) v.push_back({fam, kind, mode, n, b, b + 2048 < total ? b + 2048 : total});
                }
    return v;
}
} // namespace

static void zero_one_cmp_chunk(pbt::Source& src, bool heavy) {
    uint64_t idx = src.bits(8), total = src.bits(8);
    if (total == 0) total = 1, idx = 0;
    std::vector<CmpWorkItem> items = all_cmp_items(heavy);
    uint64_t inputs = 0;
    for (uint64_t t = idx; t < items.size(); t += total) {
        const CmpWorkItem& w = items[t];
        switch (w.fam) {
        case 0: c15_zero_one_cmp_fam0(w.kind, w.mode, w.n, w.first, w.last); break;
        case 1: c15_zero_one_cmp_fam1(w.kind, w.mode, w.n, w.first, w.last); break;
        default: c15_zero_one_cmp_fam2(w.kind, w.mode, w.n, w.first, w.last); break;
        }
        inputs += w.last - w.first;
    }
    pbt::count(inputs);
    pbt::label("chunk");
    pbt::nontrivial();
    PBT_LOG((heavy ? "zero_one_cmp_heavy" : "zero_one_cmp") << " chunk " << idx << "/" << total << ": " << inputs << " zero-one inputs of " << items.size()
                                                            << " work items\n");
}
// comparator state that lives inside the object (cheap copies, destructive moves) + std::string elements
PBT_PROPERTY(zero_one_cmp) { zero_one_cmp_chunk(src, false); }
// comparator state on the heap (every copy allocates): thorough tier
PBT_PROPERTY(zero_one_cmp_heavy) { zero_one_cmp_chunk(src, true); }

PBT_PROPERTY(types) {
    verif::Ledger::get().reset();
    int fam = (int)src.range(0, 2);
    int cfg = (int)src.range(0, 11);
    c15t::Case c;
    c.entry = (int)src.range(0, 3);
    // sizes: uniform over 0..16, with extra weight on the largest networks (the most comparators)
    c.n = src.chance(64) ? 13 + (int)src.range(0, 3) : (int)src.range(0, 16);
    c.nkeys = 2 + (int)src.range(0, 6);
    for (int k = 0; k < 16; ++k) c.rank[(size_t)k] = k < c.nkeys ? (int)src.range(0, c.nkeys - 1) : 0;
    for (int i = 0; i < 16; ++i) c.keys[i] = i < c.n ? (int)src.range(0, c.nkeys - 1) : 0;
    c.p = (unsigned)src.range(0, 255);
    c.q = (unsigned)src.range(0, 255);
    c.light = src.boolean();
    static const char* const FL[3] = {"family:best", "family:bose_nelson", "family:bose_nelson_parameter"};
    static const char* const NL[17] = {"n=0", "n=1", "n=2", "n=3", "n=4", "n=5", "n=6", "n=7", "n=8",
                                       "n=9", "n=10", "n=11", "n=12", "n=13", "n=14", "n=15", "n=16"};
    pbt::label(FL[fam]);
    pbt::label(NL[c.n]);
    typedef void (*PartFn)(int, const c15t::Case&);
    static const PartFn PART[3][4] = {{c15_types_fam0_a, c15_types_fam0_b, c15_types_fam0_c, c15_types_fam0_d},
                                      {c15_types_fam1_a, c15_types_fam1_b, c15_types_fam1_c, c15_types_fam1_d},
                                      {c15_types_fam2_a, c15_types_fam2_b, c15_types_fam2_c, c15_types_fam2_d}};
    PART[fam][cfg / 3](cfg, c);
    PBT_CHECK(verif::Ledger::get().live_count() == 0, "C15/lifetime", "elements still alive after the input and all copies were destroyed: "
                                                                          << verif::Ledger::get().live_count());
}
