// C08 iterator-kind oracle instantiation (targets partition_iters / selection_iters): element int, kinds deque + reverse_iterator<vector>
#include "C08_iters.hpp"
namespace c08 {
namespace it {
void run_it_int_a(int kind, const std::vector<std::vector<int>>& keys, int cmpmode, bool dp, bool ds, uint64_t salt, Stats& st, ItStats& ist) {
    disp_kind_a<int>(kind, keys, cmpmode, dp, ds, salt, st, ist);
}
} // namespace it
} // namespace c08
