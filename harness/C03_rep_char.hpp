// C03 — C-string representations (unsigned char* / const unsigned char*), shared by two TUs.
#pragma once
#include "C03_runner.hpp"

namespace c03 {
namespace { // internal linkage: this header is compiled into an LCP and a non-LCP TU with different front-end calls

template <class CharT, bool IsConst>
struct CharRep {
    typedef ssd::GenericCharStringSet<CharT> Set;
    std::vector<std::unique_ptr<unsigned char[]>> bufs; // one exact-size NUL-terminated buffer per string
    std::vector<CharT*> arr;                            // the array that is sorted (exactly n slots)
    std::vector<CharT*> orig;

    void build(const Case& c) {
        size_t n = c.strs.size();
        bufs.resize(n);
        arr = std::vector<CharT*>(n);
        for (size_t i = 0; i < n; ++i) {
            const std::string& s = c.strs[i];
            bufs[i].reset(new unsigned char[s.size() + 1]);
            if (!s.empty()) memcpy(bufs[i].get(), s.data(), s.size());
            bufs[i][s.size()] = 0;
            arr[i] = bufs[i].get();
        }
        orig = arr;
    }
    size_t size() const { return arr.size(); }
    Set set() { return Set(arr.data(), arr.data() + arr.size()); }

    bool call_front(const Case& c, uint32_t* lcp, size_t mem);

    void check_before_order(const Case& c) {
        std::vector<CharT*> a(arr), b(orig);
        std::sort(a.begin(), a.end());
        std::sort(b.begin(), b.end());
        for (size_t i = 0; i < a.size(); ++i)
            PBT_CHECK(a[i] == b[i], "C03/permutation",
                      describe(c, a.size()) << ": output is not a permutation of the original pointers (sorted pointer lists differ at "
                                            << i << ": " << (const void*)a[i] << " vs " << (const void*)b[i] << ")");
    }
    std::pair<const unsigned char*, size_t> view(size_t i) {
        const unsigned char* p = arr[i];
        return std::make_pair(p, strlen((const char*)p));
    }
    void check_after_order(const Case& c) {
        for (size_t i = 0; i < bufs.size(); ++i) {
            const std::string& s = c.strs[i];
            PBT_CHECK(memcmp(bufs[i].get(), s.data(), s.size()) == 0 && bufs[i][s.size()] == 0, "C03/content-changed",
                      describe(c, bufs.size()) << ": bytes of original string " << i << " were modified");
        }
    }
};

} // namespace
} // namespace c03
