// C07 — target pmerge_api: the PUBLIC-API matrix of tlx/algorithm/parallel_multiway_merge.hpp.
//
// The targets pmerge / pmerge_scale / pmerge_iters always pass all eight arguments, one comparator functor form, and
// iterator pairs held in a std::vector. This target calls the same six entry points (four front ends +
// parallel_multiway_merge_base<true/false>) the way callers are allowed to by the declarations:
//   * with 4, 5, 6, 7 or 8 arguments (comparator / merge algorithm / splitting algorithm / num_threads DEFAULTED:
//     std::less<value_type>, MWMA_ALGORITHM_DEFAULT, MWMSA_DEFAULT, std::thread::hardware_concurrency()),
//   * with every enumerator that names an algorithm (incl. the aliases MWMA_ALGORITHM_DEFAULT and MWMSA_DEFAULT),
//   * with the comparator being std::less<T> (default), a closure (not default-constructible, not assignable), a
//     function pointer, a std::function, the transparent std::greater<>; passed as const lvalue / lvalue / rvalue,
//   * with the iterator pairs held in a vector, a plain array (pointer range), a std::deque, or read through
//     std::reverse_iterator; input iterators to CONST elements (const T*, const_iterator); in/out iterator types mixed,
//   * with an output buffer sized for a FULL merge (total + guard cells) while only `length` elements are requested,
// and observes, besides everything run_case<> observes, the END iterator (.second) of every pair after the call.
//
// The generator and the oracle are NOT templates (C07_api.cpp); one small TU per form instantiates only the call and
// the extraction of the observations (C07_api_f*.cpp), so that the additional compile time stays small.
#pragma once
#include "C07_common.hpp"

#include <thread>

namespace c07 {

// Rec is ordered by key only: this is what std::less<Rec> (the DEFAULT comparator) and std::greater<> see
inline bool operator<(const Rec& a, const Rec& b) { return a.key < b.key; }
inline bool operator>(const Rec& a, const Rec& b) { return a.key > b.key; }

static const int API_FORMS = 6;
static const std::ptrdiff_t API_G = 3; // guard cells on both sides of the output buffer

static const tlx::MultiwayMergeAlgorithm API_ALG[5] = {tlx::MWMA_ALGORITHM_DEFAULT, tlx::MWMA_LOSER_TREE, tlx::MWMA_LOSER_TREE_COMBINED,
                                                       tlx::MWMA_LOSER_TREE_SENTINEL, tlx::MWMA_BUBBLE};
static const char* const API_ALG_NAME[5] = {"MWMA_ALGORITHM_DEFAULT", "MWMA_LOSER_TREE", "MWMA_LOSER_TREE_COMBINED", "MWMA_LOSER_TREE_SENTINEL", "MWMA_BUBBLE"};
static const tlx::MultiwayMergeSplittingAlgorithm API_SPLIT[3] = {tlx::MWMSA_DEFAULT, tlx::MWMSA_EXACT, tlx::MWMSA_SAMPLING};
static const char* const API_SPLIT_NAME[3] = {"MWMSA_DEFAULT", "MWMSA_EXACT", "MWMSA_SAMPLING"};

//! one decoded case (built by the non-template generator in C07_api.cpp)
struct ApiCase {
    int form = 0;      // 0..5, see C07_api_f*.cpp
    bool stable = true;
    int entry = 0;     // 0 (stable_)parallel_multiway_merge, 1 ..._sentinels, 2 parallel_multiway_merge_base<Stable>
    int nargs = 8;     // number of arguments written at the call site: 4 (seqs_begin, seqs_end, target, size) .. 8 (all)
    int valcat = 0;    // comparator argument: 0 const lvalue, 1 non-const lvalue, 2 rvalue (nargs >= 5)
    int alg = 0;       // index into API_ALG (nargs >= 6)
    int split = 0;     // index into API_SPLIT (nargs >= 7)
    int threads = 2;   // nargs == 8
    bool desc = false; // direction of the order (fixed by the form for std::less / std::greater<>)
    int k = 0;
    std::vector<std::vector<int>> keys; // per sequence, sorted w.r.t. the direction
    std::ptrdiff_t total = 0, length = 0;
    int kmin = 0, kmax = 0, sentvary = 0;
    uint64_t layout = 0; // lay-out only (deque offsets)
};

//! everything observable after the call, in a form-independent representation
struct ApiResult {
    bool counting = false;
    std::vector<Rec> cells;             // G + total + G cells of the output buffer after the call
    std::vector<unsigned> cnt;          // counting output iterator: assignments per cell
    long outside = 0, first_outside = 0;
    std::ptrdiff_t ret = 0;             // returned iterator - target
    std::vector<std::ptrdiff_t> adv;    // per pair: first(after) - first(before)
    std::vector<std::ptrdiff_t> endoff; // per pair: second(after) - first(before); must still be the sequence length
    int modified_seq = -1, modified_pos = -1; // an input element (or sentinel) that changed
    bool cmp_intact = true;             // the caller's comparator object is still usable after the call
};

ApiResult run_api_f0(const ApiCase& c);
ApiResult run_api_f1(const ApiCase& c);
ApiResult run_api_f2(const ApiCase& c);
ApiResult run_api_f3(const ApiCase& c);
ApiResult run_api_f4(const ApiCase& c);
ApiResult run_api_f5(const ApiCase& c);

// ---------------------------------------------------------------- element kinds
struct ElRec {
    using E = Rec;
    static E make(int key, int seq, int pos) { return Tr<Rec>::make(key, seq, pos); }
    static Rec decode(const E& e) { return e; }
    static E poison() { return Tr<Rec>::make(POISON_KEY, 250, 60000); }
    static bool same(const E& a, const E& b) { return Tr<Rec>::same(a, b); }
};
//! built-in arithmetic type ordered by its full value (key, seq, pos packed): all elements distinct, so the merge
//! result is unique for the stable and the unstable entry points alike
struct ElU64 {
    using E = uint64_t;
    static E make(int key, int seq, int pos) { return (uint64_t)(uint32_t)key << 32 | (uint64_t)(seq & 0xffff) << 16 | (uint64_t)(pos & 0xffff); }
    static E poison() { return ~(uint64_t)0; }
    static Rec decode(const E& v) {
        if (v == poison()) return ElRec::poison();
        return Tr<Rec>::make((int)(v >> 32), (int)((v >> 16) & 0xffff), (int)(v & 0xffff));
    }
    static bool same(const E& a, const E& b) { return a == b; }
};

// ---------------------------------------------------------------- input iterator kinds
template <class E>
struct InConstPtr {
    using Store = std::vector<E>;
    using In = const E*;
    static void fill(Store& s, const std::vector<E>& l, uint64_t) { s = l; }
    static In begin(Store& s) { return s.data(); }
    static const E& at(const Store& s, size_t j) { return s[j]; }
};
template <class E>
struct InPtr {
    using Store = std::vector<E>;
    using In = E*;
    static void fill(Store& s, const std::vector<E>& l, uint64_t) { s = l; }
    static In begin(Store& s) { return s.data(); }
    static const E& at(const Store& s, size_t j) { return s[j]; }
};
template <class E>
struct InVecConstIt {
    using Store = std::vector<E>;
    using In = typename std::vector<E>::const_iterator;
    static void fill(Store& s, const std::vector<E>& l, uint64_t) { s = l; }
    static In begin(Store& s) { return s.cbegin(); }
    static const E& at(const Store& s, size_t j) { return s[j]; }
};
template <class E>
struct InVecIt {
    using Store = std::vector<E>;
    using In = typename std::vector<E>::iterator;
    static void fill(Store& s, const std::vector<E>& l, uint64_t) { s = l; }
    static In begin(Store& s) { return s.begin(); }
    static const E& at(const Store& s, size_t j) { return s[j]; }
};
template <class E>
struct InDequeConstIt {
    using Store = DequeStore<E>;
    using In = typename std::deque<E>::const_iterator;
    static void fill(Store& s, const std::vector<E>& l, uint64_t salt) { s.fill(l, salt); }
    static In begin(Store& s) { return s.d.cbegin(); }
    static const E& at(const Store& s, size_t j) { return s.d[j]; }
};

template <class E>
struct InDequeIt {
    using Store = DequeStore<E>;
    using In = typename std::deque<E>::iterator;
    static void fill(Store& s, const std::vector<E>& l, uint64_t salt) { s.fill(l, salt); }
    static In begin(Store& s) { return s.d.begin(); }
    static const E& at(const Store& s, size_t j) { return s.d[j]; }
};

// Input iterators to CONST elements (const T*, const_iterator) do not compile with the pinned tlx: the internal
// guarded_iterator / unguarded_iterator ::operator* return `value_type&` and multisequence_partition keeps
// `value_type*` into the inputs (proposal fixes/C07/F40-const-input-iterators.patch: three lines). The forms use the
// const kinds as soon as the library accepts them (detected from the declared return type, no instantiation of a body)
// and fall back to the mutable iterator kinds otherwise; the byte -> case mapping does not depend on it.
static constexpr bool API_CONST_IN =
    std::is_same<decltype(*std::declval<tlx::multiway_merge_detail::guarded_iterator<const int*, std::less<int>>&>()), const int&>::value;
template <class E>
using InPtrMaybeConst = typename std::conditional<API_CONST_IN, InConstPtr<E>, InPtr<E>>::type;
template <class E>
using InVecItMaybeConst = typename std::conditional<API_CONST_IN, InVecConstIt<E>, InVecIt<E>>::type;
template <class E>
using InDequeItMaybeConst = typename std::conditional<API_CONST_IN, InDequeConstIt<E>, InDequeIt<E>>::type;

// ---------------------------------------------------------------- containers of the iterator pairs
template <class In>
struct PairsVec { // std::vector<std::pair<It, It>>::iterator
    using P = std::pair<In, In>;
    using Cont = std::vector<P>;
    static void set(Cont& c, const std::vector<P>& l, uint64_t) { c = l; }
    static typename Cont::iterator begin(Cont& c) { return c.begin(); }
    static typename Cont::iterator end(Cont& c) { return c.end(); }
};
template <class In>
struct PairsRaw { // std::pair<It, It>* : a plain array / std::array / std::unique_ptr<pair[]> of pairs
    using P = std::pair<In, In>;
    using Cont = std::vector<P>;
    static void set(Cont& c, const std::vector<P>& l, uint64_t) { c = l; }
    static P* begin(Cont& c) { return c.data(); }
    static P* end(Cont& c) { return c.data() + c.size(); }
};
template <class In>
struct PairsDeque { // std::deque<std::pair<It, It>>::iterator, begin off the 512-byte block start
    using P = std::pair<In, In>;
    using Cont = std::deque<P>;
    static void set(Cont& c, const std::vector<P>& l, uint64_t salt) {
        const size_t blk = std::max<size_t>(1, 512 / sizeof(P)), off = (size_t)(salt % (blk + 3));
        for (size_t j = 0; j < off; ++j) c.push_back(P());
        for (const P& p : l) c.push_back(p);
        for (size_t j = 0; j < off; ++j) c.pop_front();
    }
    static typename Cont::iterator begin(Cont& c) { return c.begin(); }
    static typename Cont::iterator end(Cont& c) { return c.end(); }
};
template <class In>
struct PairsRev { // std::reverse_iterator over a vector holding the pairs back to front
    using P = std::pair<In, In>;
    using Cont = std::vector<P>;
    static void set(Cont& c, const std::vector<P>& l, uint64_t) { c.assign(l.rbegin(), l.rend()); }
    static typename Cont::reverse_iterator begin(Cont& c) { return c.rbegin(); }
    static typename Cont::reverse_iterator end(Cont& c) { return c.rend(); }
};

// ---------------------------------------------------------------- output iterator kinds
template <class E>
struct OutCount {
    using OB = OutBuf<E>;
    using Out = CountIt<E>;
    static constexpr bool counting = true;
    static Out target(OB& b) { return Out(&b, 0); }
    static std::ptrdiff_t ret_index(const Out& r, OB&) { return r.index(); }
};
template <class E>
struct OutRaw {
    using OB = OutBufC<E, std::vector<E>, false>;
    using Out = E*;
    static constexpr bool counting = false;
    static Out target(OB& b) { return b.data.data() + b.G; }
    static std::ptrdiff_t ret_index(const Out& r, OB& b) { return r - (b.data.data() + b.G); }
};
template <class E>
struct OutVecIt {
    using OB = OutBufC<E, std::vector<E>, false>;
    using Out = typename std::vector<E>::iterator;
    static constexpr bool counting = false;
    static Out target(OB& b) { return b.data.begin() + b.G; }
    static std::ptrdiff_t ret_index(const Out& r, OB& b) { return r - (b.data.begin() + b.G); }
};
template <class E>
struct OutDequeIt {
    using OB = OutBufC<E, std::deque<E>, false>;
    using Out = typename std::deque<E>::iterator;
    static constexpr bool counting = false;
    static Out target(OB& b) { return b.data.begin() + b.G; }
    static std::ptrdiff_t ret_index(const Out& r, OB& b) { return r - (b.data.begin() + b.G); }
};

// ---------------------------------------------------------------- the call
template <bool Stable, class SeqIt, class Out, class... A>
Out api_entry(int entry, SeqIt sb, SeqIt se, Out t, std::ptrdiff_t len, A&&... a) {
    using namespace tlx;
    if constexpr (Stable) {
        switch (entry) {
        case 0: return stable_parallel_multiway_merge(sb, se, t, len, std::forward<A>(a)...);
        case 1: return stable_parallel_multiway_merge_sentinels(sb, se, t, len, std::forward<A>(a)...);
        default: return parallel_multiway_merge_base<true>(sb, se, t, len, std::forward<A>(a)...);
        }
    } else {
        switch (entry) {
        case 0: return parallel_multiway_merge(sb, se, t, len, std::forward<A>(a)...);
        case 1: return parallel_multiway_merge_sentinels(sb, se, t, len, std::forward<A>(a)...);
        default: return parallel_multiway_merge_base<false>(sb, se, t, len, std::forward<A>(a)...);
        }
    }
}

//! 5..8 arguments; C is `const Cmp&`, `Cmp&` or `Cmp` (the parameter is taken by value: copy or move construction)
template <bool Stable, class SeqIt, class Out, class C>
Out api_args(const ApiCase& c, SeqIt sb, SeqIt se, Out t, C&& cmp) {
    const tlx::MultiwayMergeAlgorithm a = API_ALG[c.alg];
    const tlx::MultiwayMergeSplittingAlgorithm sp = API_SPLIT[c.split];
    switch (c.nargs) {
    case 5: return api_entry<Stable>(c.entry, sb, se, t, c.length, std::forward<C>(cmp));
    case 6: return api_entry<Stable>(c.entry, sb, se, t, c.length, std::forward<C>(cmp), a);
    case 7: return api_entry<Stable>(c.entry, sb, se, t, c.length, std::forward<C>(cmp), a, sp);
    default: return api_entry<Stable>(c.entry, sb, se, t, c.length, std::forward<C>(cmp), a, sp, (size_t)c.threads);
    }
}

//! F provides: El (element kind), InK, PairsK, OutK, Cmp, make_cmp(desc), cmp_intact(cmp), has_default
template <class F, bool Stable>
ApiResult run_form(const ApiCase& c) {
    using El = typename F::El;
    using E = typename El::E;
    using InK = typename F::InK;
    using In = typename InK::In;
    using PairsK = typename F::PairsK;
    using P = std::pair<In, In>;
    using OutK = typename F::OutK;
    using Out = typename OutK::Out;
    const int k = c.k;
    const bool sent = c.entry == 1;

    std::vector<std::vector<E>> orig((size_t)k);
    for (int i = 0; i < k; ++i) {
        const int n = (int)c.keys[(size_t)i].size();
        orig[(size_t)i].resize((size_t)n + (sent ? 1 : 0));
        for (int j = 0; j < n; ++j) orig[(size_t)i][(size_t)j] = El::make(c.keys[(size_t)i][(size_t)j], i, j);
        if (sent) {
            // documented precondition of the *_sentinels entry points: one more element behind each sequence that is
            // strictly greater (w.r.t. the comparator) than every real element
            const int off = (i * c.sentvary) % 3;
            orig[(size_t)i][(size_t)n] = El::make(c.desc ? c.kmin - 1 - off : c.kmax + 1 + off, i, n);
        }
    }
    uint64_t layout = c.layout;
    std::vector<typename InK::Store> bufs((size_t)k);
    for (int i = 0; i < k; ++i) InK::fill(bufs[(size_t)i], orig[(size_t)i], splitmix(layout) >> 8);
    std::vector<In> base((size_t)k);
    std::vector<P> logical((size_t)k);
    for (int i = 0; i < k; ++i) {
        base[(size_t)i] = InK::begin(bufs[(size_t)i]);
        logical[(size_t)i] = P(base[(size_t)i], base[(size_t)i] + (std::ptrdiff_t)c.keys[(size_t)i].size());
    }
    typename PairsK::Cont pairs;
    PairsK::set(pairs, logical, splitmix(layout) >> 8);
    auto sb = PairsK::begin(pairs);
    auto se = PairsK::end(pairs);

    // output buffer sized for a full merge: G guard cells, total cells, G guard cells
    typename OutK::OB ob(c.total, API_G, El::poison());
    ob.layout(splitmix(layout) >> 8);
    Out target = OutK::target(ob);

    typename F::Cmp cmp = F::make_cmp(c.desc);
    Out ret = target;
    if (c.nargs == 4) {
        if constexpr (F::has_default) ret = api_entry<Stable>(c.entry, sb, se, target, c.length);
        else pbt::fatal("C07/harness", "form without a default comparator called with 4 arguments");
    } else if (c.valcat == 0) {
        const typename F::Cmp& ccmp = cmp;
        ret = api_args<Stable>(c, sb, se, target, ccmp);
    } else if (c.valcat == 1) {
        ret = api_args<Stable>(c, sb, se, target, cmp);
    } else {
        typename F::Cmp tmp(cmp);
        ret = api_args<Stable>(c, sb, se, target, std::move(tmp));
    }

    ApiResult r;
    r.counting = OutK::counting;
    r.ret = OutK::ret_index(ret, ob);
    r.outside = ob.outside.load();
    r.first_outside = ob.first_outside.load();
    const size_t ncell = (size_t)(c.total + 2 * API_G);
    r.cells.reserve(ncell);
    for (size_t j = 0; j < ncell; ++j) r.cells.push_back(El::decode(ob.cell(j)));
    if constexpr (OutK::counting) {
        r.cnt.resize(ncell);
        for (size_t j = 0; j < ncell; ++j) r.cnt[j] = ob.cnt[j];
    }
    r.adv.resize((size_t)k);
    r.endoff.resize((size_t)k);
    for (int i = 0; i < k; ++i) {
        r.adv[(size_t)i] = sb[i].first - base[(size_t)i];
        r.endoff[(size_t)i] = sb[i].second - base[(size_t)i];
    }
    for (int i = 0; i < k && r.modified_seq < 0; ++i)
        for (size_t j = 0; j < orig[(size_t)i].size(); ++j)
            if (!El::same(InK::at(bufs[(size_t)i], j), orig[(size_t)i][j])) {
                r.modified_seq = i, r.modified_pos = (int)j;
                break;
            }
    r.cmp_intact = F::cmp_intact(cmp, c.desc);
    return r;
}

template <class F>
ApiResult run_form_both(const ApiCase& c) {
    return c.stable ? run_form<F, true>(c) : run_form<F, false>(c);
}

} // namespace c07
