// C03 — CUCharStringSet (const unsigned char* strings) and the const char** / vector<const ...*> front-ends.
#include "C03_rep_char.hpp"

namespace c03 {
namespace {

typedef CharRep<const unsigned char, true> CRep;

template <>
bool CRep::call_front(const Case& c, uint32_t* lcp, size_t mem) {
    size_t n = arr.size();
    bool dflt = (mem == 0 && (c.mem_rsel & 1));
    switch (c.front % 4) {
    case 0:
        C03_FRONT(arr.data(), n);
        break;
    case 1: {
        const char** p = reinterpret_cast<const char**>(arr.data());
        C03_FRONT(p, n);
        break;
    }
    case 2: {
        std::vector<const char*> v(n);
        for (size_t i = 0; i < n; ++i) v[i] = reinterpret_cast<const char*>(arr[i]);
        C03_FRONT(v);
        PBT_CHECK(v.size() == n, "C03/permutation", "vector<const char*> front-end changed the vector size");
        for (size_t i = 0; i < n; ++i) arr[i] = reinterpret_cast<const unsigned char*>(v[i]);
        break;
    }
    default:
        C03_FRONT(arr);
        PBT_CHECK(arr.size() == n, "C03/permutation", "vector<const unsigned char*> front-end changed the vector size");
        break;
    }
    return true;
}

} // namespace

C03_DEFINE_RUN(run_cuchar, CRep)

} // namespace c03
