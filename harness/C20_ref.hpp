// C20 — independent reference definitions for the tlx integer helpers and the
// per-type check routine shared by the exhaustive sweeps and the pbt target.
//
// Every reference is a plain bit loop / wide-integer (__int128) computation
// written from the mathematical definition, not from the tlx code.
#pragma once
#include "../engine/pbt.hpp"

#include <cstdint>
#include <limits>
#include <type_traits>

#include <tlx/math/abs_diff.hpp>
#include <tlx/math/bswap.hpp>
#include <tlx/math/clz.hpp>
#include <tlx/math/ctz.hpp>
#include <tlx/math/div_ceil.hpp>
#include <tlx/math/ffs.hpp>
#include <tlx/math/integer_log2.hpp>
#include <tlx/math/is_power_of_two.hpp>
#include <tlx/math/popcount.hpp>
#include <tlx/math/rol.hpp>
#include <tlx/math/ror.hpp>
#include <tlx/math/round_to_power_of_two.hpp>
#include <tlx/math/round_up.hpp>
#include <tlx/math/sgn.hpp>

namespace c20 {

typedef __int128 wide;            // holds every value of every tested type and every exact result
typedef unsigned __int128 uwide;

//! two's-complement bit pattern of x in its own width, as an unsigned 64-bit number
template <class T>
inline uint64_t pattern(T x) {
    typedef typename std::make_unsigned<T>::type U;
    return (uint64_t)(U)x;
}
template <class T>
constexpr unsigned width() { return 8 * sizeof(T); }

// ---- definitions ---------------------------------------------------------------------------------
inline unsigned ref_clz(uint64_t pat, unsigned W) { // leading zero bits of the W-bit pattern; clz(0) = W
    unsigned r = 0;
    for (unsigned b = W; b-- > 0;) {
        if ((pat >> b) & 1) break;
        ++r;
    }
    return r;
}
inline unsigned ref_ctz(uint64_t pat, unsigned W) { // trailing zero bits; ctz(0) = W
    unsigned r = 0;
    for (unsigned b = 0; b < W; ++b) {
        if ((pat >> b) & 1) break;
        ++r;
    }
    return r;
}
inline unsigned ref_ffs(uint64_t pat, unsigned W) { // 1-based index of lowest set bit, 0 if none
    for (unsigned b = 0; b < W; ++b)
        if ((pat >> b) & 1) return b + 1;
    return 0;
}
inline unsigned ref_popcount(uint64_t pat, unsigned W) {
    unsigned r = 0;
    for (unsigned b = 0; b < W; ++b) r += (unsigned)((pat >> b) & 1);
    return r;
}
//! floor(log2 v) for v >= 1
inline unsigned ref_log2_floor(uwide v) {
    unsigned r = 0;
    while (v > 1) v /= 2, ++r;
    return r;
}
//! ceil(log2 v) for v >= 1
inline unsigned ref_log2_ceil(uwide v) {
    unsigned r = 0;
    uwide p = 1;
    while (p < v) p *= 2, ++r;
    return r;
}
inline bool ref_is_pow2(wide v) {
    if (v <= 0) return false;
    wide p = 1;
    while (p < v) p *= 2;
    return p == v;
}
//! smallest power of two >= v (v >= 1)
inline wide ref_pow2_up(wide v) {
    wide p = 1;
    while (p < v) p *= 2;
    return p;
}
//! largest power of two <= v (v >= 1)
inline wide ref_pow2_down(wide v) {
    wide p = 1;
    while (p * 2 <= v) p *= 2;
    return p;
}
inline uint64_t ref_bswap(uint64_t pat, unsigned W) {
    uint64_t r = 0;
    for (unsigned i = 0; i < W / 8; ++i) r |= ((pat >> (8 * i)) & 0xFF) << (W - 8 - 8 * i);
    return r;
}
//! rotate the W-bit pattern left by k (0 <= k < W) one bit at a time
inline uint64_t ref_rol(uint64_t pat, unsigned W, unsigned k) {
    uint64_t mask = W == 64 ? ~0ull : ((1ull << W) - 1);
    for (unsigned i = 0; i < k; ++i) pat = ((pat << 1) & mask) | ((pat >> (W - 1)) & 1);
    return pat;
}
inline uint64_t ref_ror(uint64_t pat, unsigned W, unsigned k) {
    for (unsigned i = 0; i < k; ++i) pat = (pat >> 1) | ((pat & 1) << (W - 1));
    return pat;
}
//! ceil(n / k), n, k >= 1
inline wide ref_div_ceil(wide n, wide k) {
    wide q = n / k;
    if (q * k < n) ++q;
    return q;
}
template <class R>
inline bool representable(wide v) {
    return v >= (wide)std::numeric_limits<R>::min() && v <= (wide)std::numeric_limits<R>::max();
}

//! out-of-line failure path: keeps the (many) call sites small so the sweeps compile and run fast
__attribute__((noinline, cold)) inline std::string dec(wide v) {
    if (v == 0) return "0";
    bool neg = v < 0;
    uwide u = neg ? (uwide)(-(v + 1)) + 1 : (uwide)v;
    std::string s;
    while (u) s.insert(s.begin(), (char)('0' + (int)(u % 10))), u /= 10;
    return neg ? "-" + s : s;
}
__attribute__((noinline, cold)) inline void fail_eq(const char* lab, const std::string& what, wide got, wide want) {
    pbt::fail(lab, what + " = " + dec(got) + ", definition gives " + dec(want));
}
__attribute__((noinline, cold)) inline std::string show_pat(uint64_t pat, unsigned W, bool sgn) {
    std::ostringstream os;
    os << (sgn ? "s" : "u") << W << ":";
    if (sgn) {
        int64_t v = (int64_t)(pat << (64 - W)) >> (64 - W);
        os << v;
    } else os << pat;
    os << "/0x" << std::hex << pat;
    return os.str();
}
template <class T>
inline std::string show(T x) { return show_pat(pattern(x), width<T>(), std::is_signed<T>::value); }
__attribute__((noinline, cold)) inline std::string call1(const char* f, const std::string& a) { return std::string(f) + "(" + a + ")"; }
__attribute__((noinline, cold)) inline std::string call2(const char* f, const std::string& a, const std::string& b) {
    return std::string(f) + "(" + a + ", " + b + ")";
}
inline std::string show(int x, int) { return std::to_string(x); }

//! `what` is an expression yielding std::string; evaluated only on failure
#define C20_EQ(got, want, lab, what)                                          \
    do {                                                                      \
        ::c20::wide c20_g_ = (::c20::wide)(got), c20_w_ = (::c20::wide)(want); \
        if (__builtin_expect(c20_g_ != c20_w_, 0)) ::c20::fail_eq(lab, what, c20_g_, c20_w_); \
    } while (0)

// ---- overload sets: which tlx entry points exist for a given type -----------------------------------

//! T is one of the six types for which tlx declares non-template overloads (int … unsigned long long)
template <class T>
struct has_overloads
    : std::integral_constant<bool, std::is_same<T, int>::value || std::is_same<T, unsigned>::value ||
                                       std::is_same<T, long>::value || std::is_same<T, unsigned long>::value ||
                                       std::is_same<T, long long>::value ||
                                       std::is_same<T, unsigned long long>::value> {};

template <class T, bool = has_overloads<T>::value>
struct Ov { // narrow types: only the generic templates exist; a call of the overloaded names promotes the argument to int
    static void check(T x) {
        // is_power_of_two of a negative value is false with or without sign extension
        C20_EQ(tlx::is_power_of_two(x), ref_is_pow2((wide)x), "C20/is_power_of_two", call1("is_power_of_two [promoted]", show(x)));
        if (x < 0) return; // sign extension changes the bit pattern: nothing documented for the other helpers
        const unsigned W = width<T>();
        const uint64_t pat = pattern(x);
        C20_EQ(tlx::popcount(x), ref_popcount(pat, W), "C20/popcount", call1("popcount [promoted]", show(x)));
        C20_EQ(tlx::ffs(x), ref_ffs(pat, W), "C20/ffs", call1("ffs [promoted]", show(x)));
        C20_EQ(tlx::integer_log2_floor(x), x == 0 ? 0 : ref_log2_floor((uwide)(wide)x), "C20/integer_log2_floor",
               call1("integer_log2_floor [promoted]", show(x)));
        C20_EQ(tlx::integer_log2_ceil(x), x <= 1 ? 0 : ref_log2_ceil((uwide)(wide)x), "C20/integer_log2_ceil",
               call1("integer_log2_ceil [promoted]", show(x)));
        if (x > 0) { // the result type is int: always representable
            C20_EQ(tlx::round_up_to_power_of_two(x), ref_pow2_up((wide)x), "C20/round_up_to_power_of_two",
                   call1("round_up_to_power_of_two [promoted]", show(x)));
            C20_EQ(tlx::round_down_to_power_of_two(x), ref_pow2_down((wide)x), "C20/round_down_to_power_of_two",
                   call1("round_down_to_power_of_two [promoted]", show(x)));
        }
    }
};
template <class T>
struct Ov<T, true> {
    static void check(T x) {
        const unsigned W = width<T>();
        const uint64_t pat = pattern(x);
        C20_EQ(tlx::clz(x), ref_clz(pat, W), "C20/clz", call1("clz", show(x)));
        C20_EQ(tlx::ctz(x), ref_ctz(pat, W), "C20/ctz", call1("ctz", show(x)));
        C20_EQ(tlx::ffs(x), ref_ffs(pat, W), "C20/ffs", call1("ffs", show(x)));
        C20_EQ(tlx::popcount(x), ref_popcount(pat, W), "C20/popcount", call1("popcount", show(x)));
        C20_EQ(tlx::is_power_of_two(x), ref_is_pow2((wide)x), "C20/is_power_of_two", call1("is_power_of_two", show(x)));
        if (x == 0) {
            // documented convention of the code: log2_floor(0) == 0, log2_ceil(i <= 1) == 0
            C20_EQ(tlx::integer_log2_floor(x), 0, "C20/integer_log2_floor", call1("integer_log2_floor", show(x)));
            C20_EQ(tlx::integer_log2_ceil(x), 0, "C20/integer_log2_ceil", call1("integer_log2_ceil", show(x)));
        }
        if (x > 0) {
            C20_EQ(tlx::integer_log2_floor(x), ref_log2_floor((uwide)(wide)x), "C20/integer_log2_floor",
                   call1("integer_log2_floor", show(x)));
            C20_EQ(tlx::integer_log2_ceil(x), ref_log2_ceil((uwide)(wide)x), "C20/integer_log2_ceil",
                   call1("integer_log2_ceil", show(x)));
            // largest power of two <= x is always representable
            C20_EQ(tlx::round_down_to_power_of_two(x), ref_pow2_down((wide)x), "C20/round_down_to_power_of_two",
                   call1("round_down_to_power_of_two", show(x)));
            wide up = ref_pow2_up((wide)x);
            if (representable<T>(up)) {
                C20_EQ(tlx::round_up_to_power_of_two(x), up, "C20/round_up_to_power_of_two",
                       call1("round_up_to_power_of_two", show(x)));
            } else if (!std::is_signed<T>::value) {
                (void)tlx::round_up_to_power_of_two(x); // defined (wraps), result not compared
            }
        }
    }
};

//! the generic templates, at any width / signedness
template <class T>
inline void check_templates(T x) {
    const unsigned W = width<T>();
    const uint64_t pat = pattern(x);
    C20_EQ(tlx::clz_template(x), ref_clz(pat, W), "C20/clz_template", call1("clz_template", show(x)));
    C20_EQ(tlx::ctz_template(x), ref_ctz(pat, W), "C20/ctz_template", call1("ctz_template", show(x)));
    C20_EQ(tlx::ffs_template(x), ref_ffs(pat, W), "C20/ffs_template", call1("ffs_template", show(x)));
    C20_EQ(tlx::is_power_of_two_template(x), ref_is_pow2((wide)x), "C20/is_power_of_two_template",
           call1("is_power_of_two_template", show(x)));
    C20_EQ(tlx::sgn(x), (x > 0) - (x < 0), "C20/sgn", call1("sgn", show(x)));
    if (x >= 0) // template has no zero special case documented, but returns 0 like the overloads
        C20_EQ(tlx::integer_log2_floor_template(x), x == 0 ? 0 : ref_log2_floor((uwide)(wide)x),
               "C20/integer_log2_floor_template", call1("integer_log2_floor_template", show(x)));
    if (x > 0) {
        // largest power of two <= x: always representable
        C20_EQ(tlx::round_down_to_power_of_two_template(x), ref_pow2_down((wide)x), "C20/round_down_to_power_of_two_template",
               call1("round_down_to_power_of_two_template", show(x)));
        wide up = ref_pow2_up((wide)x);
        // narrower-than-int signed types convert back modulo 2^W without UB; int and wider would overflow
        if (representable<T>(up))
            C20_EQ(tlx::round_up_to_power_of_two_template(x), up, "C20/round_up_to_power_of_two_template",
                   call1("round_up_to_power_of_two_template", show(x)));
    }
}

//! two-argument helpers on one type
template <class T>
inline void check_pair(T a, T b) {
    wide wa = (wide)a, wb = (wide)b;
    wide d = wa > wb ? wa - wb : wb - wa;
    const bool narrow = sizeof(T) < sizeof(int);
    if (representable<T>(d)) {
        C20_EQ(tlx::abs_diff(a, b), d, "C20/abs_diff", call2("abs_diff", show(a), show(b)));
    } else if (narrow || !std::is_signed<T>::value) {
        (void)tlx::abs_diff(a, b); // no UB possible; result not representable, not compared
    }
    if (a > 0 && b > 0) { // documented: "for n and k positive"
        typedef decltype(a + b) R;
        wide q = ref_div_ceil(wa, wb); // <= a: always representable
        C20_EQ(tlx::div_ceil(a, b), q, "C20/div_ceil", call2("div_ceil", show(a), show(b)));
        wide r = q * wb;
        if (representable<R>(r)) {
            C20_EQ(tlx::round_up(a, b), r, "C20/round_up", call2("round_up", show(a), show(b)));
        } else if (!std::is_signed<R>::value) {
            (void)tlx::round_up(a, b);
        }
    }
}

//! mixed-type div_ceil / round_up: result type is decltype(n + k)
template <class N, class K>
inline void check_mixed(N n, K k) {
    if (!(n > 0 && k > 0)) return;
    typedef decltype(n + k) R;
    wide q = ref_div_ceil((wide)n, (wide)k);
    if (representable<R>(q)) // e.g. (long long n, unsigned long k): n converts to unsigned, still fine for n > 0
        C20_EQ(tlx::div_ceil(n, k), q, "C20/div_ceil", call2("div_ceil", show(n), show(k)));
    wide r = q * (wide)k;
    if (representable<R>(r)) C20_EQ(tlx::round_up(n, k), r, "C20/round_up", call2("round_up", show(n), show(k)));
}

//! width-specific helpers (popcount_generic*, bswap*, rol/ror)
inline void check_bits8(uint8_t x) {
    C20_EQ(tlx::popcount_generic8(x), ref_popcount(x, 8), "C20/popcount_generic8", call1("popcount_generic8", show(x)));
}
inline void check_bits16(uint16_t x) {
    C20_EQ(tlx::popcount_generic16(x), ref_popcount(x, 16), "C20/popcount_generic16", call1("popcount_generic16", show(x)));
    C20_EQ(tlx::bswap16(x), ref_bswap(x, 16), "C20/bswap16", call1("bswap16", show(x)));
    C20_EQ(tlx::bswap16_generic(x), ref_bswap(x, 16), "C20/bswap16_generic", call1("bswap16_generic", show(x)));
    C20_EQ(tlx::bswap16(tlx::bswap16(x)), x, "C20/bswap16", call1("bswap16(bswap16", show(x)) + ")");
}
//! shift: any int; compared with the definition for 0 <= shift < W, otherwise asm and generic versions with each other
inline void check_rot32(uint32_t x, int shift) {
    uint32_t l = tlx::rol32(x, shift), lg = tlx::rol32_generic(x, shift);
    uint32_t r = tlx::ror32(x, shift), rg = tlx::ror32_generic(x, shift);
    C20_EQ(l, lg, "C20/rol32", call2("rol32", show(x), std::to_string(shift)) + " vs rol32_generic");
    C20_EQ(r, rg, "C20/ror32", call2("ror32", show(x), std::to_string(shift)) + " vs ror32_generic");
    if (shift >= 0 && shift < 32) {
        C20_EQ(l, ref_rol(x, 32, (unsigned)shift), "C20/rol32", call2("rol32", show(x), std::to_string(shift)));
        C20_EQ(r, ref_ror(x, 32, (unsigned)shift), "C20/ror32", call2("ror32", show(x), std::to_string(shift)));
    }
}
inline void check_rot64(uint64_t x, int shift) {
    uint64_t l = tlx::rol64(x, shift), lg = tlx::rol64_generic(x, shift);
    uint64_t r = tlx::ror64(x, shift), rg = tlx::ror64_generic(x, shift);
    C20_EQ(l, lg, "C20/rol64", call2("rol64", show(x), std::to_string(shift)) + " vs rol64_generic");
    C20_EQ(r, rg, "C20/ror64", call2("ror64", show(x), std::to_string(shift)) + " vs ror64_generic");
    if (shift >= 0 && shift < 64) {
        C20_EQ(l, ref_rol(x, 64, (unsigned)shift), "C20/rol64", call2("rol64", show(x), std::to_string(shift)));
        C20_EQ(r, ref_ror(x, 64, (unsigned)shift), "C20/ror64", call2("ror64", show(x), std::to_string(shift)));
    }
}
inline void check_bits32(uint32_t x) {
    C20_EQ(tlx::popcount_generic32(x), ref_popcount(x, 32), "C20/popcount_generic32", call1("popcount_generic32", show(x)));
    C20_EQ(tlx::bswap32(x), ref_bswap(x, 32), "C20/bswap32", call1("bswap32", show(x)));
    C20_EQ(tlx::bswap32_generic(x), ref_bswap(x, 32), "C20/bswap32_generic", call1("bswap32_generic", show(x)));
}
inline void check_bits64(uint64_t x) {
    C20_EQ(tlx::popcount_generic64(x), ref_popcount(x, 64), "C20/popcount_generic64", call1("popcount_generic64", show(x)));
    C20_EQ(tlx::bswap64(x), ref_bswap(x, 64), "C20/bswap64", call1("bswap64", show(x)));
    C20_EQ(tlx::bswap64_generic(x), ref_bswap(x, 64), "C20/bswap64_generic", call1("bswap64_generic", show(x)));
}

//! popcount(const void* data, size_t size): number of one bits in the byte range. The range is copied into an exact-size
//! heap block at byte offset `misalign` of a block of its own, so that every alignment of the start is exercised and an
//! access outside [data, data + size) is an ASan report.
inline void check_popcount_range(const unsigned char* bytes, size_t size, size_t misalign) {
    unsigned char* block = new unsigned char[misalign + size];
    size_t want = 0;
    for (size_t i = 0; i < size; ++i) block[misalign + i] = bytes[i], want += ref_popcount(bytes[i], 8);
    size_t got = tlx::popcount(static_cast<const void*>(block + misalign), size);
    delete[] block;
    if (__builtin_expect(got != want, 0))
        fail_eq("C20/popcount-range", "popcount(data, " + std::to_string(size) + ") at byte offset " + std::to_string(misalign) + " of the block", (wide)got,
                (wide)want);
}

//! calls f.template operator()<T>() for the type number t of the ten integer types
template <class F>
inline void with_type(int t, F&& f) {
    switch (t) {
    case 0: f.template run<uint8_t>(); break;
    case 1: f.template run<int8_t>(); break;
    case 2: f.template run<uint16_t>(); break;
    case 3: f.template run<int16_t>(); break;
    case 4: f.template run<unsigned>(); break;
    case 5: f.template run<int>(); break;
    case 6: f.template run<unsigned long>(); break;
    case 7: f.template run<long>(); break;
    case 8: f.template run<unsigned long long>(); break;
    default: f.template run<long long>(); break;
    }
}
const int N_INT_TYPES = 10;
inline const char* type_name(int t) {
    static const char* const N[10] = {"u8", "i8", "u16", "i16", "u", "i", "ul", "l", "ull", "ll"};
    return N[t];
}

inline uint64_t mix64(uint64_t z) { // splitmix finaliser: derives secondary arguments from the primary one
    z += 0x9E3779B97F4A7C15ull;
    z = (z ^ (z >> 30)) * 0xBF58476D1CE4E5B9ull;
    z = (z ^ (z >> 27)) * 0x94D049BB133111EBull;
    return z ^ (z >> 31);
}

//! everything that takes one value of type T
template <class T>
inline void check_value(T x) {
    check_templates<T>(x);
    Ov<T>::check(x);
}

} // namespace c20
