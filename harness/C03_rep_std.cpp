// C03 — std representation, entry points without LCP output
#include "C03_rep_std_impl.hpp"
