// C07 — target pmerge_iters: element type Rec, Stable = true, iterator kinds 2, 3 (deque / reverse outputs), owning comparator
#include "C07_common.hpp"

namespace c07 {
void run_it_rec_s_b(pbt::Source& src, const Cfg& cfg, int kind) { run_iters_b<Rec, true>(src, cfg, kind); }
} // namespace c07
