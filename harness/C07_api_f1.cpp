// C07 — target pmerge_api, form 1: built-in element type (uint64_t = key:seq:pos, all distinct) with the DEFAULT
// comparator std::less<uint64_t>; inputs through `const uint64_t*` (or uint64_t*, see API_CONST_IN); pairs in a plain array (std::pair<It,It>*);
// output through a raw pointer (the memmove paths of std::copy), buffer sized for the full merge.
#include "C07_api.hpp"

namespace c07 {
struct ApiForm1 {
    using El = ElU64;
    using InK = InPtrMaybeConst<uint64_t>;
    using PairsK = PairsRaw<InK::In>;
    using OutK = OutRaw<uint64_t>;
    using Cmp = std::less<uint64_t>;
    static constexpr bool has_default = true;
    static Cmp make_cmp(bool) { return Cmp(); }
    static bool cmp_intact(const Cmp&, bool) { return true; }
};
ApiResult run_api_f1(const ApiCase& c) { return run_form_both<ApiForm1>(c); }
} // namespace c07
