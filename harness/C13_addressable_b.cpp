// C13 — DAryAddressableIntHeap instantiations, arity 5..8
#include "C13_addressable_impl.hpp"
namespace c13 {
IAddr* make_addr_hi(unsigned arity, unsigned ck, const std::vector<int>* prio) {
    switch (arity) {
    case 5: return make_addr_a<5>(ck, prio);
    case 6: return make_addr_a<6>(ck, prio);
    case 7: return make_addr_a<7>(ck, prio);
    default: return make_addr_a<8>(ck, prio);
    }
}
} // namespace c13
