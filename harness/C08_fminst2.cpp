// C08 api_forms instantiation, bundle 4 (see C08_forms.hpp)
#include "C08_forms.hpp"
namespace c08 {
namespace fm {
// bundle 4: Rec | views into one sorted buffer (aliased), T* | pair* (tlx::simple_vector) | vector<const Rec*> |
// long long | std::function, rvalue
void run_form4(const std::vector<std::vector<int>>& keys, int mode, uint64_t salt, Stats& st, FormStats&) {
    std::function<bool(const Rec&, const Rec&)> f = [mode](const Rec& a, const Rec& b) { return RefCmp{mode}(a, b); };
    check_forms<Rec, ViewStore<Rec, true>, SeqsSimpleVec, OffsConst<Rec*, const Rec*>, long long, std::function<bool(const Rec&, const Rec&)>, 2,
                false>(keys, mode, f, salt, st);
}
} // namespace fm
} // namespace c08
