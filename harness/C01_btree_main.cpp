// C01 — tlx B+ tree containers are observationally equal to the std ordered containers.
// Generator + oracle: C01_btree_history.cpp; std side: C01_btree_models.cpp; the container
// configurations under test: C01_btree_cfg_*.cpp (see C01_btree_common.hpp).
#include "C01_btree_common.hpp"

PBT_PROPERTY(btree_model) { verif::bt::run_property(src, true); }

// Scale classes: node capacities 255 ... 65535 (the largest the 16-bit slot counters admit), nodes actually filled
// beyond half / beyond the 8-, 15- and 16-bit thresholds, then a cost-bounded history; same oracle. Configurations:
// C01_btree_cfgs_*.cpp (quick) and C01_btree_cfgst_*.cpp (thorough), see run_scale_property in C01_btree_history.cpp.
PBT_PROPERTY(btree_scale) { verif::bt::run_scale_property(src); }

// Alias / destructive-move classes: key and data types std::string, verif::Tracked (moved-from = poison) and mixed, comparators
// that own their state, and the ALIASING call patterns the std containers allow: insert(*it), insert(hint, *it), insert2(it_a->first,
// it_b->second), erase(*it) / erase(it->first) / erase_one(...) with the key of an element that is erased, lookups and bounds with a
// key reference into the container, c = c, c.swap(c) -- interleaved with the complete operation set of btree_model; same oracle.
// Configurations: C01_btree_cfga_*.cpp (thorough adds C01_btree_cfgat_*.cpp), see run_alias_property in C01_btree_history.cpp.
PBT_PROPERTY(btree_alias) { verif::bt::run_alias_property(src, true); }

// API-audit classes: public members / overloads / iterator types / value categories that no other target calls (operator[], writes
// through iterators, iterator-flavour conversions, std iterator algorithms, key_comp / value_comp / max_size / get_allocator /
// get_stats, ranges through input iterators / pointers / list / deque iterators / convertible element types, empty ranges,
// (cmp, alloc) constructor forms, rvalue copy arguments, generic std::swap), see run_api_property in C01_btree_history.cpp.
PBT_PROPERTY(btree_api) { verif::bt::run_api_property(src, true); }
