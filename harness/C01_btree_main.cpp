// C01 — tlx B+ tree containers are observationally equal to the std ordered containers.
// Generator + oracle: C01_btree_history.cpp; std side: C01_btree_models.cpp; the container
// configurations under test: C01_btree_cfg_*.cpp (see C01_btree_common.hpp).
#include "C01_btree_common.hpp"

PBT_PROPERTY(btree_model) { verif::bt::run_property(src, true); }
