// C06 — deterministic-scheduler tier: parallel_mergesort under generated thread schedules.
// Decides the "every execution terminates" clause in the finite form "no deadlock on the barrier
// for any explored interleaving" and re-checks the result oracles under adversarial schedules.
// (The data-race clause is decided by the real-thread TSan tier of C06_mergesort.cpp.)
#include "../engine/pbt.hpp"
#include "../engine/sched/vsched.hpp"

#include <tlx/sort/parallel_mergesort.hpp>

#include <algorithm>
#include <vector>

namespace {

struct Rec {
    int key;
    int tag;
};
struct ByKey {
    bool desc;
    bool operator()(const Rec& a, const Rec& b) const { return desc ? a.key > b.key : a.key < b.key; }
};

#define SCHED_CHECK(cond, lab, msgexpr)                                   \
    do {                                                                  \
        if (!(cond)) {                                                    \
            ::std::ostringstream os_;                                     \
            os_ << msgexpr;                                               \
            ::pbt::fatal(lab, os_.str());                                 \
        }                                                                 \
    } while (0)

} // namespace

PBT_PROPERTY(mergesort_sched) {
    // selectors first
    bool stable = src.boolean();
    bool sampling = src.boolean();
    bool desc = src.chance(64);
    size_t threads = (size_t)src.range(1, 6);
    int nvals = (int)src.weighted({2, 3, 3, 2}); // 1, 2..4, few, wide
    size_t n = (size_t)src.range(0, 48);
    int oversampling = (int)src.weighted({4, 2, 1}); // 10 (default), 2, 1
    std::vector<Rec> v(n);
    for (size_t i = 0; i < n; ++i) {
        int k = nvals == 0 ? 0 : nvals == 1 ? (int)src.range(0, 3) : nvals == 2 ? (int)src.range(0, 7) : (int)src.range(0, 999);
        v[i] = Rec{k, (int)i};
    }
    tlx::parallel_multiway_merge_oversampling = oversampling == 0 ? 10 : oversampling == 1 ? 2 : 1;
    std::vector<Rec> ref(v);
    ByKey cmp{desc};
    std::stable_sort(ref.begin(), ref.end(), cmp);
    PBT_LOG("n=" << n << " threads=" << threads << " stable=" << stable << " splitting=" << (sampling ? "sampling" : "exact") << " desc=" << desc
                 << " oversampling=" << tlx::parallel_multiway_merge_oversampling << " keys:");
    if (pbt::verbose())
        for (auto& r : v) PBT_LOG(" " << r.key);
    PBT_LOG("\n");
    pbt::label(stable ? "stable" : "unstable");
    pbt::label(sampling ? "sampling" : "exact");
    {
        vsched::Options opt;
        opt.max_steps = 400000;
        vsched::Run run(src, opt);
        tlx::MultiwayMergeSplittingAlgorithm mwmsa = sampling ? tlx::MWMSA_SAMPLING : tlx::MWMSA_EXACT;
        if (stable) tlx::stable_parallel_mergesort(v.begin(), v.end(), cmp, threads, mwmsa);
        else tlx::parallel_mergesort(v.begin(), v.end(), cmp, threads, mwmsa);
        if (vsched::S().preemptions >= 2 && threads >= 2 && n >= 2 * threads) pbt::nontrivial();
        if (vsched::S().max_threads_seen >= 3) pbt::label("threads>=2");
    }
    tlx::parallel_multiway_merge_oversampling = 10;
    // oracle: sorted + permutation; stable variant == std::stable_sort
    for (size_t i = 1; i < n; ++i) SCHED_CHECK(!cmp(v[i], v[i - 1]), "C06/sorted", "output not sorted at position " << i);
    std::vector<char> seen(n, 0);
    for (size_t i = 0; i < n; ++i) {
        SCHED_CHECK(v[i].tag >= 0 && (size_t)v[i].tag < n && !seen[(size_t)v[i].tag], "C06/permutation", "element lost or duplicated (tag " << v[i].tag << ")");
        seen[(size_t)v[i].tag] = 1;
    }
    if (stable)
        for (size_t i = 0; i < n; ++i) SCHED_CHECK(v[i].tag == ref[i].tag, "C06/stable-order", "position " << i << " holds tag " << v[i].tag << ", std::stable_sort gives " << ref[i].tag);
}
