// C03 — sort_strings / sequential string sorters yield a sorted permutation of the original string objects and exact
// LCP values, for every string-set representation, entry point and memory-limit argument (DESIGN.md §4 C03).
//
// Two targets: sort_small (n = 0..5000, strings decoded directly from the choice bytes or expanded from a seed) and
// sort_big (n around 65536..70000 so that the 16-bit radix steps of radixsort_CE3/CI3 run and stack).
// Oracle (harness/C03_common.hpp, C03_rep_*.cpp): permutation of the original objects, own unsigned-byte comparison,
// exact lcp[i] for i >= 1 over a poisoned exact-size array, ASan/UBSan clean.
#include "C03_common.hpp"

namespace {

using namespace c03;

void run_case(const Case& c) {
    switch (c.rep) {
    case R_UCHAR: c.lcp ? run_uchar_lcp(c) : run_uchar_nolcp(c); break;
    case R_CUCHAR: c.lcp ? run_cuchar_lcp(c) : run_cuchar_nolcp(c); break;
    case R_STD: c.lcp ? run_std_lcp(c) : run_std_nolcp(c); break;
    case R_UPTR: c.lcp ? run_uptr_lcp(c) : run_uptr_nolcp(c); break;
    default: c.lcp ? run_suffix_lcp(c) : run_suffix_nolcp(c); break;
    }
}

//! weighted choice that spreads small byte values over all options (the few hundred big cases should not all take
//! the first option because short / small-valued buffers are common); a zero byte still selects option 0
size_t spread_weighted(pbt::Source& src, std::initializer_list<unsigned> w) {
    unsigned tot = 0;
    for (unsigned x : w) tot += x;
    unsigned r = ((src.u8() * 167u) & 255u) * tot / 256u;
    size_t i = 0;
    for (unsigned x : w) {
        if (r < x) return i;
        r -= x;
        ++i;
    }
    return w.size() - 1;
}

void decode_mem_details(pbt::Source& src, Case& c) {
    c.mem_own = src.boolean();
    c.mem_x = (unsigned)src.range(0, 4);
    c.mem_y = (unsigned)src.range(0, 4);
    c.mem_j = (unsigned)src.range(0, 7);
    c.mem_rsel = src.u8();
    c.mem_raw = (unsigned)src.bits(2);
    c.front = (int)src.range(0, 3);
}

void log_case(const Case& c, const Shape& sh, const char* how) {
    if (!pbt::verbose()) return;
    static const char* const ST[] = {"mixed", "random", "dominant-prefix", "few-distinct", "prefix-chain"};
    PBT_LOG("rep=" << REP_NAME[c.rep] << " entry=" << ALGO_NAME[c.algo] << (c.lcp ? " with LCP" : "") << " gen=" << how
                   << " style=" << ST[sh.style] << " alphabet_k=" << sh.k << " prefix_len=" << sh.prefix_len << "\n");
    if (c.rep == R_SUFFIX) {
        PBT_LOG("text(" << c.text.size() << ")=" << pbt::show_bytes(c.text.substr(0, 400)) << (c.text.size() > 400 ? "..." : "")
                        << "\nindices(" << c.sa.size() << ")=");
        for (size_t i = 0; i < c.sa.size() && i < 60; ++i) PBT_LOG(c.sa[i] << " ");
        PBT_LOG((c.sa.size() > 60 ? "...\n" : "\n"));
    } else {
        PBT_LOG("strings(" << c.strs.size() << ")=");
        for (size_t i = 0; i < c.strs.size() && i < 60; ++i)
            PBT_LOG(pbt::show_bytes(c.strs[i].substr(0, 60)) << (c.strs[i].size() > 60 ? "..+" : "") << " ");
        PBT_LOG((c.strs.size() > 60 ? "...\n" : "\n"));
    }
}

void make_sa(Case& c, unsigned samode, uint64_t seed) {
    size_t n = c.text.size();
    c.sa.resize(n);
    for (size_t i = 0; i < n; ++i) c.sa[i] = i;
    PrngRnd r(seed ^ 0x5a5a);
    if (samode == 1) { // shuffled
        for (size_t i = n; i > 1; --i) std::swap(c.sa[i - 1], c.sa[r.below(i)]);
        pbt::label("sa:shuffled");
    } else if (samode == 2) { // arbitrary indices with duplicates, including the empty suffix at index n
        for (size_t i = 0; i < n; ++i) c.sa[i] = (size_t)r.below(n + 1);
        pbt::label("sa:arbitrary");
    }
}

} // namespace

/******************************************************************************/

PBT_PROPERTY(sort_small) {
    Case c;
    Shape sh;
    // selectors first
    c.rep = (int)src.weighted({3, 2, 3, 2, 2});
    c.algo = (int)src.range(0, 7);
    c.lcp = src.boolean();
    c.memclass = (int)src.weighted({5, 2, 2, 6, 1});
    unsigned genmode = (unsigned)src.weighted({2, 3});
    unsigned sizeclass = (unsigned)src.weighted({1, 3, 6, 2});
    set_alphabet(sh, src.u8() % 25);
    static const int STY[] = {S_MIXED, S_RANDOM, S_DOMINANT, S_FEWDISTINCT, S_CHAIN};
    sh.style = STY[src.weighted({5, 2, 2, 1, 2})];
    unsigned pclass = (unsigned)src.weighted({4, 3, 3, 1});
    static const size_t LO[] = {0, 4, 32, 300}, HI[] = {3, 31, 300, 5000};
    size_t n_exp = LO[sizeclass] + (size_t)src.range(0, (int64_t)(HI[sizeclass] - LO[sizeclass]));
    uint64_t seed = src.bits(4);
    decode_mem_details(src, c);
    sh.maxtail = (size_t)src.range(0, 12);
    sh.distinct = 1 + (size_t)src.range(0, 7);
    sh.dominant_pct = 80 + (unsigned)src.range(0, 20);
    unsigned psel = src.u8();
    sh.prefix_len = pclass == 0 ? 0 : pclass == 1 ? 1 + psel % 8 : pclass == 2 ? 9 + psel % 32 : 300;
    unsigned tstyle = (unsigned)src.weighted({3, 3, 2}), samode = (unsigned)src.weighted({5, 2, 2});
    unsigned thr = src.u8(); // 1/10: exact algorithm-switch thresholds
    if ((c.rep == R_UPTR || c.rep == R_SUFFIX) && c.algo == A_FRONT) c.algo = A_CE3; // no public overload: same algorithm

    // cost bound: quadratic insertion sort is the end of every memory fall-back chain
    size_t ncap = 5000;
    if (c.algo == A_INS || c.memclass == M_TINY || c.memclass == M_MKQS) ncap = 400;
    else if (c.memclass == M_THRESH) ncap = 1500;
    if (sh.prefix_len == 300) ncap = std::min<size_t>(ncap, 600);
    // suffixes of a periodic / unary text share prefixes of length ~n: D = O(n^2)
    if (c.rep == R_SUFFIX && (tstyle != 2 || sh.k == 1)) ncap = std::min<size_t>(ncap, 400);

    if (genmode == 0) { // strings decoded one by one from the choice bytes
        SrcRnd r(src);
        std::string P;
        if (sh.prefix_len > 40) {
            PrngRnd pr(seed);
            P = gen_random(pr, sh, sh.prefix_len);
        } else P = gen_random(r, sh, sh.prefix_len);
        size_t cap = std::min<size_t>(ncap, 300);
        while (c.strs.size() < cap && src.more()) c.strs.push_back(gen_one(r, sh, P, c.strs));
    } else { // expanded from a seed
        size_t n = n_exp;
        if (thr >= 230) {
            static const size_t TH[] = {31, 32, 33, 63, 64};
            n = TH[thr % 5];
        }
        n = std::min(n, ncap);
        PrngRnd r(seed);
        std::string P = gen_random(r, sh, sh.prefix_len);
        c.strs.reserve(n);
        while (c.strs.size() < n) c.strs.push_back(gen_one(r, sh, P, c.strs));
    }

    if (c.rep == R_SUFFIX) {
        size_t n = c.strs.size();
        PrngRnd r(seed + 1);
        if (tstyle == 0) { // concatenation of the generated strings: repeated substrings, prefix chains
            for (const std::string& s : c.strs) {
                c.text += s;
                if (c.text.size() >= ncap) break;
            }
            if (c.text.size() > ncap) c.text.resize(ncap);
            pbt::label("text:concat");
        } else if (tstyle == 1) { // periodic text with a few mutations: very long common prefixes
            std::string unit = gen_random(r, sh, 1 + (size_t)r.below(8));
            while (c.text.size() < n) c.text += unit;
            c.text.resize(n);
            for (size_t m = r.below(4); m > 0 && n > 0; --m) c.text[r.below(n)] = (char)gen_char(r, sh);
            pbt::label("text:periodic");
        } else {
            c.text = gen_random(r, sh, n);
            pbt::label("text:random");
        }
        make_sa(c, samode, seed);
        c.strs.clear();
        std::vector<std::string> one(1, c.text);
        label_strings(one);
    } else {
        label_strings(c.strs);
    }
    pbt::label(genmode == 0 ? "gen:direct" : "gen:expanded");
    if (sh.prefix_len == 300) pbt::label("prefix300");
    log_case(c, sh, genmode == 0 ? "direct" : "expanded");
    run_case(c);
}

/******************************************************************************/

PBT_PROPERTY(sort_big) {
    Case c;
    Shape sh;
    c.big = true;
    c.rep = (int)spread_weighted(src, {3, 2, 3, 2, 2});
    static const int BA[] = {A_CE3, A_CI3, A_FRONT, A_CE2, A_CI2, A_CE0, A_MKQS};
    c.algo = BA[spread_weighted(src, {4, 4, 3, 1, 1, 1, 1})];
    c.lcp = src.boolean();
    c.memclass = (int)spread_weighted(src, {4, 0, 0, 5, 1});
    static const int STY[] = {S_DOMINANT, S_RANDOM, S_MIXED, S_FEWDISTINCT};
    sh.style = STY[spread_weighted(src, {4, 3, 2, 1})];
    set_alphabet(sh, src.u8() % 25);
    uint64_t seed = src.bits(4);
    unsigned nsel = (unsigned)spread_weighted(src, {5, 1, 1, 1});
    size_t n = 65536 + (size_t)(((src.bits(2) * 40503u) ^ (seed * 2654435761u >> 7)) & 0xFFFFu) % 4465;
    if (nsel == 1) n = 65536;
    else if (nsel == 2) n = 65535;
    else if (nsel == 3) n = 65537;
    decode_mem_details(src, c);
    // secondary shape parameters are expanded from the seed (short buffers would leave them all zero)
    PrngRnd aux(seed ^ 0xC03C03C03ull);
    sh.maxtail = (size_t)aux.below(13);
    sh.distinct = 1 + (size_t)aux.below(64);
    sh.dominant_pct = 100 - (unsigned)aux.below(6);
    unsigned psel = (unsigned)aux.below(256);
    sh.prefix_len = sh.style == S_DOMINANT ? 2 + psel % 39 : sh.style == S_RANDOM ? 0 : psel % 21;
    sh.maxlen = 80;
    static const unsigned TS[] = {0, 0, 0, 1, 1, 2, 2}, SM[] = {0, 0, 0, 0, 0, 1, 1};
    unsigned tstyle = TS[aux.below(7)], samode = SM[aux.below(7)];
    if ((c.rep == R_UPTR || c.rep == R_SUFFIX) && c.algo == A_FRONT) c.algo = A_CE3;
    if (sh.style == S_RANDOM && sh.k == 1) sh.k = 2; // geometric shrinking of buckets needs >= 2 symbols
    // make the memory fall-back inside the 16-bit loops (a bucket >= 65536 at stack level j that may not be pushed) likely:
    // memory = own estimate + j RadixSteps + safe remainder, shared prefix long enough for j+1 stacked levels
    bool sixteen = (c.algo == A_CE3 || c.algo == A_CI3 || c.algo == A_FRONT) && n >= 65536;
    if (c.memclass == M_THRESH && sh.style == S_DOMINANT && c.rep != R_SUFFIX && sixteen && (c.mem_rsel & 0x40) == 0) {
        c.mem_own = true;
        c.mem_j = 3 + c.mem_j % 3;
        // the fall-back happens at stack level j for the bucket that shares 2j bytes: let the shared prefix end exactly
        // there (so that the very next byte differs), one byte later, or further on
        switch (psel % 4) {
        case 0:
        case 1: sh.prefix_len = 2 * c.mem_j; break;
        case 2: sh.prefix_len = 2 * c.mem_j + 1; break;
        default: sh.prefix_len = std::max<size_t>(sh.prefix_len, 2 * c.mem_j + 2); break;
        }
        sh.dominant_pct = 100 - (100 - sh.dominant_pct) % 3;
        pbt::label("mem_16bit_stack_fallback_forced");
    }
    if (sh.style == S_RANDOM && sh.maxtail < 4) sh.maxtail = 4;

    PrngRnd r(seed);
    bool geometric;
    if (c.rep == R_SUFFIX) {
        if (sh.k == 1) sh.k = 2;
        if (tstyle == 0) { // random text
            c.text = gen_random(r, sh, n);
            pbt::label("text:random");
            geometric = true;
        } else if (tstyle == 1) { // sparse text: runs of one symbol of length 30..50 -> the "aa" bucket holds >= 65536 suffixes
            unsigned char a = sh.sym[0], b = sh.sym[1];
            while (c.text.size() < n) {
                c.text.append(30 + (size_t)r.below(21), (char)a);
                c.text.push_back((char)b);
            }
            c.text.resize(n);
            pbt::label("text:sparse");
            geometric = false;
        } else { // blocks from a small dictionary: repeated substrings of moderate length
            std::vector<std::string> dict(4 + (size_t)r.below(28));
            for (std::string& w : dict) w = gen_random(r, sh, 3 + (size_t)r.below(14));
            while (c.text.size() < n) c.text += dict[r.below(dict.size())];
            c.text.resize(n);
            pbt::label("text:dictionary");
            geometric = false;
        }
        make_sa(c, samode, seed);
        std::vector<std::string> one(1, c.text);
        label_strings(one);
    } else {
        std::string P = gen_random(r, sh, sh.prefix_len);
        c.strs.reserve(n);
        while (c.strs.size() < n) c.strs.push_back(gen_one(r, sh, P, c.strs));
        label_strings(c.strs);
        geometric = (sh.style == S_RANDOM);
        static const char* const SL[] = {"style:mixed", "style:random", "style:dominant", "style:few-distinct", "style:chain"};
        pbt::label(SL[sh.style]);
    }
    // a tiny remainder after the RadixSteps ends in insertion sort of whatever bucket is current: only affordable when
    // buckets shrink geometrically
    c.mem_safe_only = !geometric;
    c.geo_k = sh.k;
    log_case(c, sh, "expanded");
    run_case(c);
}
