// C19 — string codecs round-trip and string helpers match their documented semantics.
// Targets (bodies in C19_codec.cpp, C19_split_join.cpp, C19_quoted.cpp, C19_helpers.cpp):
//   codec       base64 / hexdump: equals RFC 4648, decoders invert encoders
//   split_join  split() with limits / min_fields vs the documented definition; join o split round trip
//   quoted      split_quoted(join_quoted(v)) == v
//   helpers     replace, trim, starts/ends_with, contains, case conversion, compare_icase, erase_all, pad, levenshtein
//   all         first byte selects one of the four (used by the libFuzzer step)
#include "C19_common.hpp"

PBT_PROPERTY(codec) { c19_codec(src); }
PBT_PROPERTY(split_join) { c19_split_join(src); }
PBT_PROPERTY(quoted) { c19_quoted(src); }
PBT_PROPERTY(helpers) { c19_helpers(src); }
PBT_PROPERTY(all) {
    switch (src.range(0, 3)) {
    case 0: c19_helpers(src); break;
    case 1: c19_split_join(src); break;
    case 2: c19_quoted(src); break;
    default: c19_codec(src); break;
    }
}
