// C19 — string codecs round-trip and string helpers match their documented semantics.
// Targets (bodies in C19_codec.cpp, C19_split_join.cpp, C19_quoted.cpp, C19_helpers.cpp):
//   codec       base64 / hexdump: equals RFC 4648, decoders invert encoders
//   split_join  split() with limits / min_fields vs the documented definition; join o split round trip
//   quoted      split_quoted(join_quoted(v)) == v
//   helpers     replace, trim, starts/ends_with, contains, case conversion, compare_icase, erase_all, pad, levenshtein
//   codec_long, split_join_long, quoted_long, helpers_long
//               the same four bodies with c19::long_mode() on: primary strings of 13..5000 (rarely 65535..66000) bytes,
//               hundreds to thousands (rarely > 65535) of fields / parts / occurrences, long separators / needles /
//               drop sets, large limits / widths / line breaks — see "scale classes" in C19_common.hpp
//   all         first byte selects one of the eight (used by the libFuzzer step)
//   icase, icase_long, helpers_alias, codec_extra, byte_sweep (enumerate): registered in C19_icase.cpp (round 4: equal_icase /
//               less_icase, aliasing and re-use, hexdump_type / _sourcecode, default arguments, exhaustive 256 x 256 byte sweep)
#include "C19_common.hpp"

PBT_PROPERTY(codec) { c19::long_mode() = false, c19_codec(src); }
PBT_PROPERTY(split_join) { c19::long_mode() = false, c19_split_join(src); }
PBT_PROPERTY(quoted) { c19::long_mode() = false, c19_quoted(src); }
PBT_PROPERTY(helpers) { c19::long_mode() = false, c19_helpers(src); }
PBT_PROPERTY(codec_long) { c19::long_mode() = true, c19_codec(src); }
PBT_PROPERTY(split_join_long) { c19::long_mode() = true, c19_split_join(src); }
PBT_PROPERTY(quoted_long) { c19::long_mode() = true, c19_quoted(src); }
PBT_PROPERTY(helpers_long) { c19::long_mode() = true, c19_helpers(src); }
PBT_PROPERTY(all) {
    int t = (int)src.range(0, 7);
    c19::long_mode() = t >= 4;
    switch (t & 3) {
    case 0: c19_helpers(src); break;
    case 1: c19_split_join(src); break;
    case 2: c19_quoted(src); break;
    default: c19_codec(src); break;
    }
}
