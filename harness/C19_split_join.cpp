// C19 / split_join — split() with char and string separators, limits and min_fields against a reference written from
// the documentation; join() o split() round trip.
#include "C19_common.hpp"

#include <algorithm>

#include <tlx/string/join.hpp>
#include <tlx/string/split.hpp>

using namespace c19;

namespace {

const size_t npos = std::string::npos;

//! documented behaviour: cut at every separator occurrence found left to right (non-overlapping), keep empty fields,
//! at most `limit` parts with the unsplit rest as the last one
std::vector<std::string> ref_split(const std::string& sep, const std::string& str, size_t limit) {
    std::vector<std::string> out;
    if (limit == 0) return out;
    size_t pos = 0;
    for (;;) {
        size_t hit = npos;
        for (size_t p = pos; p + sep.size() <= str.size(); ++p)
            if (contains_at(str, p, sep)) {
                hit = p;
                break;
            }
        if (hit == npos || out.size() + 1 >= limit) {
            out.push_back(str.substr(pos));
            return out;
        }
        out.push_back(str.substr(pos, hit - pos));
        pos = hit + sep.size();
    }
}

// *_long targets: limits / min_fields relative to the number of fields F an unlimited split produces (codes resolved by
// resolve_rel() once the string is known), at the 8-bit boundary, and arbitrary large ones
const size_t REL_BASE = npos - 16; // REL_BASE + d means F - 2 + d, d in 0..4
size_t resolve_rel(size_t v, size_t fields) {
    if (v == npos || v < REL_BASE) return v;
    size_t d = v - REL_BASE;
    return fields + d >= 2 ? fields + d - 2 : 0;
}
size_t gen_limit_long(pbt::Source& src) {
    switch (src.range(0, 9)) {
    case 0: return npos;
    case 1: return (size_t)src.range(0, 8);
    case 2: return 255 + (size_t)src.range(0, 2);
    case 3: return REL_BASE + (size_t)src.range(0, 4);
    case 4: return (size_t)src.range(9, 6000);
    case 5: return (size_t)src.range(6000, 70000);
    case 6: return npos - 1; // larger than any field count, but not the default value
    case 7: return (size_t)1 << src.range(4, 40);
    default: return REL_BASE + (size_t)src.range(0, 4);
    }
}
size_t gen_min_fields_long(pbt::Source& src) {
    switch (src.range(0, 5)) {
    case 0: return 0;
    case 1: return (size_t)src.range(1, 5);
    case 2: return REL_BASE + (size_t)src.range(0, 4);
    case 3: return 255 + (size_t)src.range(0, 2);
    case 4: return (size_t)src.range(6, 7000);
    default: return 0;
    }
}

size_t gen_limit(pbt::Source& src) {
    if (long_mode()) return gen_limit_long(src);
    switch (src.range(0, 5)) {
    case 0: return npos;
    case 1: return 0;
    case 2: return 1;
    case 3: return 2;
    case 4: return 3;
    default: return (size_t)src.range(4, 8);
    }
}
size_t gen_min_fields(pbt::Source& src) {
    if (long_mode()) return gen_min_fields_long(src);
    static const size_t M[] = {0, 1, 2, 3, 5};
    return M[src.range(0, 4)];
}

std::string lim(size_t l) { return l == npos ? "npos" : std::to_string(l); }

//! call one of the split overloads. api: 0 return(limit), 1 into(limit), 2 return(min,limit), 3 into(min,limit),
//! 4 return(default limit), 5 into(default limit)
template <class Sep>
std::vector<std::string> call_split(int api, Sep sep, tlx::string_view str, size_t min_fields, size_t limit) {
    std::vector<std::string> into = {"stale", "entries", "", "x"};
    switch (api) {
    case 0: return tlx::split(sep, str, limit);
    case 1: {
        std::vector<std::string>& r = tlx::split(&into, sep, str, limit);
        PBT_CHECK(&r == &into, "C19/split-into", "split(&into, …) does not return a reference to into");
        return into;
    }
    case 2: return tlx::split(sep, str, min_fields, limit);
    case 3: {
        std::vector<std::string>& r = tlx::split(&into, sep, str, min_fields, limit);
        PBT_CHECK(&r == &into, "C19/split-into", "split(&into, …) does not return a reference to into");
        return into;
    }
    case 4: return tlx::split(sep, str);
    default: tlx::split(&into, sep, str); return into;
    }
}

void classify(const std::string& sep, const std::string& str, size_t limit, const std::vector<std::string>& want, bool is_str) {
    bool at_end = str.size() >= sep.size() && contains_at(str, str.size() - sep.size(), sep);
    bool at_start = contains_at(str, 0, sep);
    bool overlap = false, any = false;
    size_t prev = npos;
    for (size_t p = 0; p + sep.size() <= str.size(); ++p)
        if (contains_at(str, p, sep)) {
            any = true;
            if (prev != npos && p < prev + sep.size()) overlap = true;
            prev = p;
        }
    bool empty_field = false;
    for (const std::string& w : want) empty_field = empty_field || w.empty();
    bool limited = limit != npos && limit != 0 && want.size() == limit && any;
    if (is_str) {
        if (at_end) pbt::label("split-str:sep-at-very-end");
        if (at_start) pbt::label("split-str:sep-at-start");
        if (overlap) pbt::label("split-str:overlapping-occurrences");
        if (empty_field) pbt::label("split-str:empty-field");
        if (limited) pbt::label("split-str:limit-reached");
        if (!any) pbt::label("split-str:no-occurrence");
        if (sep.size() > str.size()) pbt::label("split-str:sep-longer-than-str");
    } else {
        if (at_end) pbt::label("split-char:sep-at-very-end");
        if (at_start) pbt::label("split-char:sep-at-start");
        if (empty_field) pbt::label("split-char:empty-field");
        if (limited) pbt::label("split-char:limit-reached");
        if (!any) pbt::label("split-char:no-occurrence");
    }
    if (at_end || overlap || empty_field || limited) pbt::nontrivial();
}

} // namespace

void c19_split_join(pbt::Source& src) {
    int op = (int)src.range(0, 3);
    int api = (int)src.range(0, 5);
    size_t limit = gen_limit(src);
    size_t min_fields = gen_min_fields(src);
    // (the *_long targets draw limit / min_fields relative to the field count: resolved once the string is known)
    auto fix_args = [&](const std::string& sep, const std::string& str) {
        if (long_mode()) {
            size_t fields = ref_split(sep, str, npos).size();
            limit = resolve_rel(limit, fields), min_fields = resolve_rel(min_fields, fields);
            if (min_fields > 80000) min_fields = 80000;
            pbt::label(fields < 255 ? "fields:<255" : fields <= 257 ? "fields:255..257" : fields < 65535 ? "fields:258..65534" : "fields:>=65535");
            if (limit != npos && limit > 8) pbt::label(limit > fields ? "limit:large,>fields" : limit == fields ? "limit:large,=fields" : "limit:large,<fields");
        }
        if (api >= 4) limit = npos;
        if (api != 2 && api != 3) min_fields = 0;
        if (min_fields > limit) min_fields = limit; // "at least min_fields and at most limit": only consistent requests
    };
    static const char* const AL[6] = {"api:return(limit)", "api:into(limit)", "api:return(min,limit)", "api:into(min,limit)",
                                      "api:return()", "api:into()"};

    if (op == 0) {
        // ---- split at a character ----
        static const char SEPS[] = {'/', ',', '\0', (char)0xFF, 'a', ' '};
        char sep = SEPS[src.range(0, 5)];
        std::string alphabet = std::string(1, sep) + sep + "ab" + std::string(1, '\0') + "/";
        std::string str = gen_main(src, alphabet, src.chance(24) ? 40 : 12, 5000, HUGE_OK);
        if (long_mode() && src.chance(10)) { // about 65536 fields (either side of it): nearly every byte is a separator
            size_t n = 65400 + (size_t)src.range(0, 700);
            size_t rate = (size_t)1 << src.range(9, 14);
            Rng rng(src.bits(4));
            str.clear();
            for (size_t i = 0; i < n; ++i) str += rng.one_in(rate) ? alphabet[rng.below(alphabet.size())] : sep;
            label_len(n);
        }
        fix_args(std::string(1, sep), str);
        Buf sb(str);
        std::vector<std::string> want = ref_split(std::string(1, sep), str, limit);
        if (want.size() < min_fields) want.resize(min_fields), pbt::label("split-char:padded-to-min_fields");
        pbt::label("op:split-char");
        pbt::label(AL[api]);
        classify(std::string(1, sep), str, limit, want, false);
        PBT_LOG("split(" << show_char(sep) << ", " << show(str) << ", min=" << min_fields << ", limit=" << lim(limit) << ") [" << AL[api]
                         << "]\n");
        std::vector<std::string> got = call_split<char>(api, sep, sb.view(), min_fields, limit);
        PBT_CHECK(got == want, "C19/split-char",
                  "split(" << show_char(sep) << ", " << show(str) << ", min_fields=" << min_fields << ", limit=" << lim(limit) << ") ["
                           << AL[api] << "] = " << show(got) << ", documented result " << show(want));
    } else if (op == 1) {
        // ---- split at a string ----
        static const char* const SEPS[] = {"ab", "aa", "a", "aba", "abc", "::", "bab", "aab"};
        std::string sep = src.chance(200) ? std::string(SEPS[src.range(0, 7)]) : gen_over(src, "ab", 3);
        if (sep.empty()) sep = "b"; // the empty separator has no documented meaning
        std::string alphabet = sep + sep + "c";
        std::string str;
        if (long_mode() && src.chance(128)) {
            // long separator (4..300 letters, often self-overlapping); the string is a sequence of whole separators,
            // proper prefixes / suffixes of it, single letters of it and 'c'
            sep = gen_shaped(src, "ab", (size_t)(src.boolean() ? src.range(4, 20) : src.range(20, 300)));
            size_t n = gen_long_len(src);
            unsigned sep_w = 1 + (unsigned)src.range(0, 6);
            Rng rng(src.bits(4));
            while (str.size() < n) {
                size_t r = rng.below(sep_w + 5);
                if (r < sep_w) str += sep;
                else if (r == sep_w) str += sep.substr(0, rng.below(sep.size()));
                else if (r == sep_w + 1) str += sep.substr(1 + rng.below(sep.size() - 1));
                else if (r == sep_w + 2) str += sep[rng.below(sep.size())];
                else str += 'c';
            }
            if (src.boolean()) str.resize(n); // may cut the last separator short
            pbt::label("split-str:long-separator");
            label_len(str.size());
        } else
            str = gen_main(src, alphabet, src.chance(24) ? 40 : 14);
        fix_args(sep, str);
        Buf sb(str), pb(sep);
        std::vector<std::string> want = ref_split(sep, str, limit);
        if (want.size() < min_fields) want.resize(min_fields), pbt::label("split-str:padded-to-min_fields");
        pbt::label("op:split-str");
        pbt::label(AL[api]);
        classify(sep, str, limit, want, true);
        PBT_LOG("split(" << show(sep) << ", " << show(str) << ", min=" << min_fields << ", limit=" << lim(limit) << ") [" << AL[api]
                         << "]\n");
        std::vector<std::string> got = call_split<tlx::string_view>(api, pb.view(), sb.view(), min_fields, limit);
        PBT_CHECK(got == want, "C19/split-str",
                  "split(" << show(sep) << ", " << show(str) << ", min_fields=" << min_fields << ", limit=" << lim(limit) << ") ["
                           << AL[api] << "] = " << show(got) << ", documented result " << show(want));
    } else {
        // ---- join, then split again ----
        bool str_sep = op == 3;
        std::string sep;
        if (str_sep) {
            static const char* const SEPS[] = {"ab", "aa", ", ", "aba", "::", "a", "/"};
            sep = SEPS[src.range(0, 6)];
        } else {
            static const char SEPS[] = {',', '/', '\0', (char)0xFF, 'a', ' '};
            sep = std::string(1, SEPS[src.range(0, 5)]);
        }
        // parts normally over an alphabet disjoint from the separator (cannot contain or straddle it by construction);
        // sometimes separator letters are mixed in and the precondition is checked literally
        if (long_mode() && str_sep && src.chance(100)) { // long glue: 4..300 letters
            sep = gen_shaped(src, std::string("ab:, /") + (char)0xFF, (size_t)(src.boolean() ? src.range(4, 20) : src.range(20, 300)));
            pbt::label("rt:long-separator");
        }
        bool risky = str_sep && src.chance(96);
        std::string alphabet = "xyz";
        alphabet += '\0';
        alphabet += (char)0x80;
        alphabet += " b";
        if (risky) alphabet += sep;
        std::string clean;
        for (char c : alphabet)
            if (risky || sep.find(c) == npos) clean += c;
        size_t k = (size_t)src.range(1, 6);
        std::vector<std::string> parts;
        if (long_mode()) {
            // scale classes: few long parts / hundreds to thousands (rarely > 65536) of short parts with now and then a
            // long one; lengths and letters expanded from a drawn seed
            int cls = (int)src.weighted({40, 30, 30, 30, 2});
            if (cls == 0) {
                for (size_t i = 0; i < k; ++i) parts.push_back(src.chance(160) ? gen_long(src, clean) : gen_over(src, clean, 5));
            } else {
                k = cls == 1 ? 255 + (size_t)src.range(0, 2) : cls == 2 ? (size_t)src.range(7, 300) : cls == 3 ? (size_t)src.range(300, 5000)
                                                                                                              : 65535 + (size_t)src.range(0, 300);
                size_t maxpart = (size_t)src.range(0, 6);
                unsigned long_rate = cls == 4 ? 0 : 16u << src.range(0, 6);
                if (cls == 4 && sep.size() > 4) sep.resize(4); // keep the joined string below ~1 MB
                Rng rng(src.bits(4));
                parts.resize(k);
                for (std::string& f : parts) {
                    size_t n = long_rate && rng.one_in(long_rate) ? 250 + rng.below(300) : rng.below(maxpart + 1);
                    for (size_t i = 0; i < n; ++i) f += clean[rng.below(clean.size())];
                }
            }
            size_t longest = 0;
            for (const std::string& f : parts) longest = std::max(longest, f.size());
            pbt::label(k <= 6 ? "rt:<=6-parts" : k < 255 ? "rt:7..254-parts" : k <= 257 ? "rt:255..257-parts"
                       : k < 65535 ? "rt:258..5000-parts" : "rt:>=65535-parts");
            if (longest >= 255) pbt::label("rt:part>=255-bytes");
        } else
            for (size_t i = 0; i < k; ++i) parts.push_back(gen_over(src, clean, 5));
        std::string ref_joined;
        std::vector<size_t> glue_pos;
        for (size_t i = 0; i < k; ++i) {
            if (i) glue_pos.push_back(ref_joined.size()), ref_joined += sep;
            ref_joined += parts[i];
        }
        pbt::label(str_sep ? "op:join-split-str" : "op:join-split-char");
        bool empty_part = false;
        for (auto& p : parts) empty_part = empty_part || p.empty();
        if (empty_part) pbt::label("rt:empty-part");
        if (k == 1) pbt::label("rt:single-part");
        PBT_LOG("join(" << show(sep) << ", " << show(parts) << ")\n");
        if (long_mode()) label_len(ref_joined.size());

        // join: all glue overloads agree with plain concatenation
        Buf gb(sep, true);
        std::string joined;
        if (!str_sep) joined = tlx::join(sep[0], parts);
        else if (src.boolean()) joined = tlx::join(gb.data(), parts); // const char* glue (none of the string separators has a NUL)
        else joined = tlx::join(tlx::string_view(gb.data(), gb.n), parts);
        PBT_CHECK(joined == ref_joined, "C19/join", "join(" << show(sep) << ", " << show(parts) << ") = " << show(joined));

        // precondition of the round trip: the separator occurs in the joined string only as glue
        bool pre = true;
        for (size_t p = 0; p + sep.size() <= ref_joined.size(); ++p)
            if (contains_at(ref_joined, p, sep)) {
                pre = pre && std::binary_search(glue_pos.begin(), glue_pos.end(), p); // glue_pos is ascending
            }
        if (!pre) {
            pbt::label("rt:precondition-not-met(skipped)");
            return;
        }
        if (risky) pbt::label("rt:parts-share-letters-with-separator");
        if (empty_part || risky || k > 1) pbt::nontrivial();
        Buf jb(joined);
        std::vector<std::string> back;
        int sapi = api == 2 || api == 3 ? api - 2 : api; // no min_fields here
        if (str_sep) back = call_split<tlx::string_view>(sapi, tlx::string_view(gb.data(), gb.n), jb.view(), 0, npos);
        else back = call_split<char>(sapi, sep[0], jb.view(), 0, npos);
        PBT_CHECK(back == parts, "C19/join-split-roundtrip",
                  "split(" << show(sep) << ", join(" << show(sep) << ", " << show(parts) << ") = " << show(joined) << ") = " << show(back));
    }
}
