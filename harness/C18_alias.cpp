// C18 — StringView vs std::string_view with ALIASING operands (see C18_string_view.cpp for the base target).
#include "C18_common.hpp"

// =====================================================================================================================
// Round-6 additions (new targets; the draws of `string_view` above are unchanged, corpus/C18 witnesses stay valid)
//
//   string_view_alias        BOTH operands of every two-operand query are sub-ranges [i,i+k) and [j,j+m) of ONE common
//                            buffer (same start, same range / same object, nested, overlapping, adjacent, empty ranges at
//                            the same address); C-string operands point into the haystack's own (NUL-terminated) buffer;
//                            std::string operands OWN the bytes the view refers to
//   string_view_alias_sweep  the same, exhaustively: every content over {00,'a',FF} of length <= 4 and over {'a','b'} of
//                            length 5..6, every pair of sub-ranges, every query, every pos / n in and beyond range
//   string_view_alias_sweep_big   (thorough) {00,'a',FF}^5 and {'a','b'}^7
//   string_view_api          every public member / constructor / conversion / typedef that the first target does not
//                            touch: all eight iterator accessors + range-for, length()/max_size(), data(), all
//                            constructors (incl. std::string&&, iterator forms, std::string_view both ways), explicit
//                            std::string conversion, operator<<, std::hash, member swap / std::swap / ADL swap,
//                            histories of remove_prefix / remove_suffix / substr / assignment, at()/[] over every index,
//                            copy / substr over every (pos, n), the DEFAULT position of the (char) and (C-string) forms
//                            of the six search functions
//   string_view_byte_sweep   all 256 x 256 (view byte, argument byte) pairs through every per-character query
#include <algorithm>
#include <functional>
#include <iomanip>
#include <iterator>
#include <sstream>
#include <type_traits>
#include <utility>

namespace {

struct AliasCase {
    const char* ex = nullptr;         // exact-size block of L bytes: the red zone starts right behind the common buffer
    const char* z = nullptr;          // block of L + 1 bytes with z[L] == 0 (C-string operands)
    const std::string* own = nullptr; // std::string holding the same L bytes (string operands; views point INTO it)
    size_t L = 0, i = 0, k = 0, j = 0, m = 0; // A = [i, i+k), B = [j, j+m)
    size_t pos = 0, n = 0, pos2 = 0, n2 = 0;
    bool sameobj = false; // (i,k) == (j,m) only: the argument IS the receiver object
};

enum { NALIAS = 68 };
inline bool alias_is_cstr(int q) {
    return q == 3 || q == 4 || (q >= 24 && q <= 35) || (q >= 36 && q < 60 && (q - 36) % 4 == 2) || q == 62 || q == 63;
}
inline bool alias_is_string(int q) { return q >= 12 && q <= 23; }
//! which arguments a query reads (the sweep enumerates only those)
inline bool alias_uses_pos(int q) { return q == 1 || q == 2 || q == 4 || q == 5 || (q >= 36 && q < 60 && (q - 36) % 4 != 3); }
inline bool alias_uses_n(int q) { return q == 1 || q == 2 || q == 4 || q == 5; }

long long enc(const char* base, const SV& v) { return (long long)(v.data() - base) * 1000 + (long long)v.size(); }
long long enc(const char* base, const STD& v) { return (long long)(v.data() - base) * 1000 + (long long)v.size(); }

void alias_eval(int q, const AliasCase& c, Res& rt, Res& rs, const char*& qname) {
    const char* base = alias_is_cstr(q) ? c.z : alias_is_string(q) ? c.own->data() : c.ex;
    const SV ta(base + c.i, c.k), tb0(base + c.j, c.m);
    const STD sa(base + c.i, c.k), sb0(base + c.j, c.m);
    const SV& tb = c.sameobj ? ta : tb0;
    const STD& sb = c.sameobj ? sa : sb0;
    const char* cz = base + c.j;       // C-string operand: the rest of the common buffer from j on (ends at z[L] at the latest)
    const std::string& own = *c.own;   // string operand: the owner of the bytes
    const size_t pos = c.pos, n = c.n, pos2 = c.pos2, n2 = c.n2, m = c.m;
    switch (q) {
    case 0: QUERY("compare(v)", r.v = sgn(ta.compare(tb)), r.v = sgn(sa.compare(sb))); break;
    case 1: QUERY("compare(pos,n,v)", r.v = sgn(ta.compare(pos, n, tb)), r.v = sgn(sa.compare(pos, n, sb))); break;
    case 2:
        QUERY("compare(pos,n,v,pos2,n2)", r.v = sgn(ta.compare(pos, n, tb, pos2, n2)), r.v = sgn(sa.compare(pos, n, sb, pos2, n2)));
        break;
    case 3: QUERY("compare(cstr)", r.v = sgn(ta.compare(cz)), r.v = sgn(sa.compare(cz))); break;
    case 4: QUERY("compare(pos,n,cstr)", r.v = sgn(ta.compare(pos, n, cz)), r.v = sgn(sa.compare(pos, n, cz))); break;
    case 5: QUERY("compare(pos,n,ptr,n2)", r.v = sgn(ta.compare(pos, n, cz, m)), r.v = sgn(sa.compare(pos, n, cz, m))); break;
    case 6: QUERY("v==v", r.v = (ta == tb), r.v = (sa == sb)); break;
    case 7: QUERY("v!=v", r.v = (ta != tb), r.v = (sa != sb)); break;
    case 8: QUERY("v<v", r.v = (ta < tb), r.v = (sa < sb)); break;
    case 9: QUERY("v<=v", r.v = (ta <= tb), r.v = (sa <= sb)); break;
    case 10: QUERY("v>v", r.v = (ta > tb), r.v = (sa > sb)); break;
    case 11: QUERY("v>=v", r.v = (ta >= tb), r.v = (sa >= sb)); break;
    case 12: QUERY("v==string", r.v = (ta == own), r.v = (sa == own)); break;
    case 13: QUERY("v!=string", r.v = (ta != own), r.v = (sa != own)); break;
    case 14: QUERY("v<string", r.v = (ta < own), r.v = (sa < own)); break;
    case 15: QUERY("v<=string", r.v = (ta <= own), r.v = (sa <= own)); break;
    case 16: QUERY("v>string", r.v = (ta > own), r.v = (sa > own)); break;
    case 17: QUERY("v>=string", r.v = (ta >= own), r.v = (sa >= own)); break;
    case 18: QUERY("string==v", r.v = (own == ta), r.v = (own == sa)); break;
    case 19: QUERY("string!=v", r.v = (own != ta), r.v = (own != sa)); break;
    case 20: QUERY("string<v", r.v = (own < ta), r.v = (own < sa)); break;
    case 21: QUERY("string<=v", r.v = (own <= ta), r.v = (own <= sa)); break;
    case 22: QUERY("string>v", r.v = (own > ta), r.v = (own > sa)); break;
    case 23: QUERY("string>=v", r.v = (own >= ta), r.v = (own >= sa)); break;
    case 24: QUERY("v==cstr", r.v = (ta == cz), r.v = (sa == cz)); break;
    case 25: QUERY("v!=cstr", r.v = (ta != cz), r.v = (sa != cz)); break;
    case 26: QUERY("v<cstr", r.v = (ta < cz), r.v = (sa < cz)); break;
    case 27: QUERY("v<=cstr", r.v = (ta <= cz), r.v = (sa <= cz)); break;
    case 28: QUERY("v>cstr", r.v = (ta > cz), r.v = (sa > cz)); break;
    case 29: QUERY("v>=cstr", r.v = (ta >= cz), r.v = (sa >= cz)); break;
    case 30: QUERY("cstr==v", r.v = (cz == ta), r.v = (cz == sa)); break;
    case 31: QUERY("cstr!=v", r.v = (cz != ta), r.v = (cz != sa)); break;
    case 32: QUERY("cstr<v", r.v = (cz < ta), r.v = (cz < sa)); break;
    case 33: QUERY("cstr<=v", r.v = (cz <= ta), r.v = (cz <= sa)); break;
    case 34: QUERY("cstr>v", r.v = (cz > ta), r.v = (cz > sa)); break;
    case 35: QUERY("cstr>=v", r.v = (cz >= ta), r.v = (cz >= sa)); break;
#define AFIND(BASE, FN)                                                                                                \
    case BASE: QUERY(#FN "(v,pos)", r.v = (long long)ta.FN(tb, pos), r.v = (long long)sa.FN(sb, pos)); break;          \
    case BASE + 1: QUERY(#FN "(ptr,pos,n)", r.v = (long long)ta.FN(cz, pos, m), r.v = (long long)sa.FN(cz, pos, m)); break; \
    case BASE + 2: QUERY(#FN "(cstr,pos)", r.v = (long long)ta.FN(cz, pos), r.v = (long long)sa.FN(cz, pos)); break;   \
    case BASE + 3: QUERY(#FN "(v)", r.v = (long long)ta.FN(tb), r.v = (long long)sa.FN(sb)); break;
        AFIND(36, find)
        AFIND(40, rfind)
        AFIND(44, find_first_of)
        AFIND(48, find_last_of)
        AFIND(52, find_first_not_of)
        AFIND(56, find_last_not_of)
    case 60: QUERY("starts_with(v)", r.v = ta.starts_with(tb), r.v = sa.starts_with(sb)); break;
    case 61: QUERY("ends_with(v)", r.v = ta.ends_with(tb), r.v = sa.ends_with(sb)); break;
    case 62: QUERY("starts_with(cstr)", r.v = ta.starts_with(cz), r.v = sa.starts_with(cz)); break;
    case 63: QUERY("ends_with(cstr)", r.v = ta.ends_with(cz), r.v = sa.ends_with(cz)); break;
    case 64:
        query(qname, rt, rs, "swap(member)", [&](Res& r) {
                  SV a = ta, b = tb0;
                  a.swap(b);
                  r.v = enc(base, a) * 1000000 + enc(base, b);
                  a.swap(a); // self-swap
                  r.v = r.v * 2 + (enc(base, a) == enc(base, tb0));
              }, [&](Res& r) {
                  STD a = sa, b = sb0;
                  a.swap(b);
                  r.v = enc(base, a) * 1000000 + enc(base, b);
                  a.swap(a);
                  r.v = r.v * 2 + (enc(base, a) == enc(base, sb0));
              });
        break;
    case 65:
        query(qname, rt, rs, "std::swap", [&](Res& r) {
                  SV a = ta, b = tb0;
                  std::swap(a, b);
                  r.v = enc(base, a) * 1000000 + enc(base, b);
              }, [&](Res& r) {
                  STD a = sa, b = sb0;
                  std::swap(a, b);
                  r.v = enc(base, a) * 1000000 + enc(base, b);
              });
        break;
    case 66:
        query(qname, rt, rs, "assign", [&](Res& r) {
                  SV a = ta;
                  a = tb0;
                  SV& ar = a;
                  a = ar; // self-assignment
                  SV b(a);
                  r.v = enc(base, a) * 1000000 + enc(base, b);
              }, [&](Res& r) {
                  STD a = sa;
                  a = sb0;
                  STD& ar = a;
                  a = ar;
                  STD b(a);
                  r.v = enc(base, a) * 1000000 + enc(base, b);
              });
        break;
    default: // operator< through generic code taking const references
        QUERY("std::min/max/less", r.v = enc(base, std::min(ta, tb)) * 2000000 + enc(base, std::max(ta, tb)) * 2 + std::less<SV>()(ta, tb),
              r.v = enc(base, std::min(sa, sb)) * 2000000 + enc(base, std::max(sa, sb)) * 2 + std::less<STD>()(sa, sb));
        break;
    }
}

std::string alias_describe(const std::string& content, const AliasCase& c) {
    std::ostringstream os;
    os << "common buffer=" << pbt::show_bytes(content) << " receiver=[" << c.i << "," << c.i + c.k << ") argument=[" << c.j << ","
       << c.j + c.m << ")" << (c.sameobj ? " (same object)" : "") << " pos=" << (long long)c.pos << " n=" << (long long)c.n
       << " pos2=" << (long long)c.pos2 << " n2=" << (long long)c.n2;
    return os.str();
}

} // namespace

PBT_PROPERTY(string_view_alias) {
    int q = (int)src.range(0, NALIAS - 1);
    int shape = (int)src.range(0, 9);
    const bool longcase = src.weighted({15, 1}) == 1;
    const size_t maxL = longcase ? 300 : 12;
    const size_t asz = (size_t)src.range(1, (int64_t)sizeof(ALPHA)); // small alphabets: overlapping ranges often hold equal bytes
    // the structure (length, the two ranges, the arguments) is drawn BEFORE the content: a short choice sequence still
    // yields every aliasing shape (over a buffer of NUL bytes), not the all-empty case
    // (the engine's bytes are biased towards small values: lengths are counted DOWN from the maximum so that a zero
    // byte means "the whole rest", and the empty buffer is a rare explicit choice)
    const size_t L = longcase ? (size_t)src.range(13, (int64_t)maxL) : src.chance(12) ? 0 : maxL - (size_t)src.range(0, (int64_t)maxL - 1);
    const bool runs = longcase && src.boolean();
    AliasCase c;
    c.L = L;
    auto sub = [&](size_t lo, size_t hi, size_t& b, size_t& len) { // a sub-range of [lo, hi)
        // two end points (the second counted down from hi: zero bytes give the whole of [lo, hi)); choosing a start and
        // then a length would make a quarter of all ranges empty
        size_t e1 = lo + (size_t)src.range(0, (int64_t)(hi - lo)), e2 = hi - (size_t)src.range(0, (int64_t)(hi - lo));
        b = std::min(e1, e2), len = std::max(e1, e2) - b;
    };
    auto upto = [&](size_t n) { return n - (size_t)src.range(0, (int64_t)n); }; // n, n-1, ..., 0
    sub(0, L, c.i, c.k);
    switch (shape) {
    case 1: c.j = c.i, c.m = upto(L - c.j); break;                                                                   // same start
    case 2: c.j = c.i, c.m = c.k, c.sameobj = src.boolean(); break;                             // identical range
    case 3: sub(c.i, c.i + c.k, c.j, c.m); break;                                               // argument nested in receiver
    case 4: { size_t bi = c.i, bk = c.k; c.j = bi, c.m = bk; sub(bi, bi + bk, c.i, c.k); break; } // receiver nested in argument
    case 5: c.j = (size_t)src.range(0, (int64_t)(c.i + c.k)), c.m = c.i + c.k - c.j; break;      // same end
    case 6: c.j = c.i + c.k, c.m = upto(L - c.j); break;                                                       // adjacent
    case 7: c.k = 0, c.j = c.i, c.m = 0; break;                                                  // both empty, same address
    case 8: c.j = c.i + (size_t)src.range(0, (int64_t)c.k), c.m = upto(L - c.j); break; // starts inside
    case 9: c.i = 0, c.k = L, sub(0, L, c.j, c.m); break;                                        // whole buffer as receiver
    default: sub(0, L, c.j, c.m); break;                                                         // independent
    }
    c.pos = gen_pos(src, c.k), c.n = gen_pos(src, c.k), c.pos2 = gen_pos(src, c.m), c.n2 = gen_pos(src, c.m);
    std::string content;
    if (runs) { // a few long runs
        while (content.size() < L) content.append((size_t)src.range(1, 60), (char)ALPHA[src.range(0, (int64_t)asz - 1)]);
        content.resize(L);
    } else {
        for (size_t x = 0; x < L; ++x) content += (char)ALPHA[src.range(0, (int64_t)asz - 1)];
    }
    if (alias_is_string(q)) c.j = 0, c.m = L; // the operand is the owning string
    Buf ex(content), z(content, true);
    std::string own = content;
    c.ex = ex.data(), c.z = z.data(), c.own = &own;

    if (longcase) pbt::label("long_buffer");
    if (L == 0) pbt::label("buffer_empty");
    if (c.k == 0) pbt::label("receiver_empty");
    if (c.m == 0) pbt::label("argument_empty");
    if (c.i == c.j) pbt::label("same_start");
    if (c.i == c.j && c.k == c.m) pbt::label(c.sameobj ? "same_object" : "identical_range");
    if (c.i == c.j && c.m > c.k) pbt::label("same_start_arg_longer");
    if (c.i + c.k == c.j + c.m) pbt::label("same_end");
    if (c.k == 0 && c.m == 0 && c.i == c.j) pbt::label("both_empty_same_address");
    const bool disjoint = c.i + c.k < c.j || c.j + c.m < c.i;
    if (disjoint) pbt::label("disjoint");
    else if (c.i + c.k == c.j || c.j + c.m == c.i) pbt::label("adjacent");
    else if ((c.j >= c.i && c.j + c.m <= c.i + c.k) || (c.i >= c.j && c.i + c.k <= c.j + c.m)) pbt::label("nested");
    else pbt::label("partial_overlap");
    if (!disjoint) pbt::nontrivial();

    const char* qname = "";
    Res rt, rs;
    alias_eval(q, c, rt, rs, qname);
    pbt::label(qname);
    PBT_LOG(alias_describe(content, c) << " query=" << qname << " -> tlx: " << rt << " | std: " << rs << "\n");
    PBT_CHECK(rt == rs, std::string("C18/alias/") + qname,
              alias_describe(content, c) << ": tlx " << rt << " but std::string_view " << rs);
}

namespace {

//! every content of the sweep domain `dom` (0: quick, 1: thorough extra), in a fixed order
std::vector<std::string> sweep_contents(int dom) {
    std::vector<std::string> out;
    auto all = [&](const std::string& alpha, size_t len) {
        size_t total = 1;
        for (size_t x = 0; x < len; ++x) total *= alpha.size();
        for (size_t v = 0; v < total; ++v) {
            std::string s;
            size_t w = v;
            for (size_t x = 0; x < len; ++x) s += alpha[w % alpha.size()], w /= alpha.size();
            out.push_back(s);
        }
    };
    const std::string a3("\0a\xFF", 3), a2("ab");
    if (dom == 0) {
        for (size_t len = 0; len <= 4; ++len) all(a3, len);
        all(a2, 5);
        all(a2, 6);
    } else {
        all(a3, 5);
        all(a2, 7);
    }
    return out;
}

void alias_sweep(pbt::Source& src, int dom) {
    const uint64_t chunk = src.bits(8), nchunks = src.bits(8);
    const std::vector<std::string> contents = sweep_contents(dom);
    uint64_t evals = 0;
    for (size_t ci = 0; ci < contents.size(); ++ci) {
        if (nchunks && ci % nchunks != chunk) continue;
        const std::string& content = contents[ci];
        const size_t L = content.size();
        Buf ex(content), z(content, true);
        std::string own = content;
        AliasCase c;
        c.L = L, c.ex = ex.data(), c.z = z.data(), c.own = &own;
        for (c.i = 0; c.i <= L; ++c.i)
            for (c.k = 0; c.i + c.k <= L; ++c.k)
                for (c.j = 0; c.j <= L; ++c.j)
                    for (c.m = 0; c.j + c.m <= L; ++c.m)
                        for (int q = 0; q < NALIAS; ++q) {
                            if (alias_is_cstr(q) && q != 5 && !(q >= 36 && q < 60) && c.m != 0) continue;   // operand = cz only
                            if (q >= 36 && q < 60 && (q - 36) % 4 == 2 && c.m != 0) continue;              // (cstr,pos): cz only
                            if (alias_is_string(q) && !(c.j == 0 && c.m == L)) continue;                   // operand = owner
                            // argument values: everything in range, one and two beyond, npos
                            size_t P[12], N[12], np = 0, nn = 0;
                            if (alias_uses_pos(q)) {
                                if (q == 2) { P[np++] = 0, P[np++] = 1, P[np++] = c.k, P[np++] = c.k + 1; }
                                else { for (size_t p = 0; p <= c.k + 1; ++p) P[np++] = p; P[np++] = npos; }
                            } else P[np++] = 0;
                            if (alias_uses_n(q)) {
                                if (q == 2) { N[nn++] = 0, N[nn++] = 1, N[nn++] = npos; }
                                else { for (size_t p = 0; p <= c.k + 1; ++p) N[nn++] = p; N[nn++] = npos; }
                            } else N[nn++] = 0;
                            const size_t P2[4] = {0, 1, c.m, c.m + 1}, N2[3] = {0, 1, npos};
                            const size_t np2 = q == 2 ? 4 : 1, nn2 = q == 2 ? 3 : 1;
                            for (int so = 0; so < ((c.i == c.j && c.k == c.m) ? 2 : 1); ++so)
                                for (size_t a = 0; a < np; ++a)
                                    for (size_t b = 0; b < nn; ++b)
                                        for (size_t a2 = 0; a2 < np2; ++a2)
                                            for (size_t b2 = 0; b2 < nn2; ++b2) {
                                                // a throwing position is tried once per query, not once per count
                                                if (alias_uses_n(q) && P[a] > c.k && (b || a2 || b2)) continue;
                                                if (q == 2 && P2[a2] > c.m && (b || b2)) continue;
                                                c.sameobj = so == 1, c.pos = P[a], c.n = N[b], c.pos2 = P2[a2], c.n2 = N2[b2];
                                                const char* qname = "";
                                                Res rt, rs;
                                                alias_eval(q, c, rt, rs, qname);
                                                ++evals;
                                                if (!(rt == rs)) {
                                                    pbt::count(evals);
                                                    PBT_CHECK(false, std::string("C18/alias/") + qname,
                                                              alias_describe(content, c) << ": tlx " << rt << " but std::string_view " << rs);
                                                }
                                            }
                        }
    }
    pbt::count(evals);
    pbt::nontrivial();
    pbt::label(dom == 0 ? "alias_sweep_chunk" : "alias_sweep_big_chunk");
}

} // namespace

PBT_PROPERTY(string_view_alias_sweep) { alias_sweep(src, 0); }
PBT_PROPERTY(string_view_alias_sweep_big) { alias_sweep(src, 1); }
