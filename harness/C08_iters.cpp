// C08 — targets partition_iters / selection_iters (see C08_iters.hpp): the oracle of `partition` / `selection` on
// std::deque, std::reverse_iterator and strided sequences, with an element type owning a std::string and a comparator
// owning state. Separate targets: the byte -> case mapping of the other C08 targets and their witnesses stay valid.
#include "C08_iters.hpp"

namespace {
using namespace c08;

//! MID shapes: lengths relative to the 512-byte block of a std::deque (`blk` elements): the small generator of
//! `partition` (lengths <= 40/70) never leaves the first block for int / the 8-byte record, the scale generator jumps
//! to thousands. m as in gen_shape (1..8, sometimes 17..40 with short sequences); per sequence: 1 | 1..5 | j*blk-1/+0/+1
//! (j = 1..4) | 1..4*blk | 2^j-1/+0/+1 (j = 1..9); keys 1..6 distinct | 1000 | about N/8, optionally staggered by
//! sequence (whole sequences left or right of the split). N <= ~4100 (40 sequences: <= ~1300).
struct MidShape : Shape {
    int stagger = 0;
    uint64_t rank_seed = 0;
};
MidShape gen_shape_mid(pbt::Source& src, int blk) {
    MidShape sh;
    {
        int mi = (int)src.weighted({2, 5, 5, 4, 3, 2, 2, 2, 2});
        sh.m = mi < 8 ? 1 + mi : (int)src.range(17, 40);
    }
    int dk = (int)src.range(0, 7);
    int stride = src.boolean() ? 3 : 1;
    sh.stagger = (int)src.weighted({5, 1, 1});
    uint64_t seed = src.bits(3);
    uint64_t s = seed * 0x9E3779B97F4A7C15ull + 4242;
    sh.rank_seed = seed ^ 0x1234567ull;
    std::vector<int> lens(sh.m);
    const int cap = sh.m > 8 ? std::max(8, 1300 / sh.m) : 4 * blk + 1;
    for (int i = 0; i < sh.m; ++i) {
        int l;
        switch (src.weighted({2, 2, 5, 4, 3})) {
        case 0: l = 1; break;
        case 1: l = (int)src.range(1, 5); break;
        case 2: l = blk * (int)src.range(1, 4) + (int)src.range(0, 2) - 1; break;
        case 3: l = 1 + (int)(splitmix(s) % (uint64_t)(4 * blk)); break;
        default: l = pow2_edge(src, 1, 9); break;
        }
        lens[i] = std::max(1, std::min(l, cap));
    }
    long N = 0;
    for (int l : lens) N += l;
    sh.wide = dk >= 6;
    sh.distinct = dk < 6 ? dk + 1 : dk == 6 ? 1000 : (int)std::max<long>(2, N / 8);
    int shift = sh.stagger == 0 ? 0 : sh.stagger == 1 ? std::max(1, sh.distinct / 2) : sh.distinct;
    sh.keys.resize(sh.m);
    for (int i = 0; i < sh.m; ++i)
        for (int j = 0; j < lens[i]; ++j) sh.keys[i].push_back((i * shift + (int)(splitmix(s) % (uint64_t)sh.distinct)) * stride);
    return sh;
}

bool key_in_two_seqs(const Shape& sh) {
    std::vector<std::pair<int, int>> ks;
    for (int i = 0; i < sh.m; ++i)
        for (int a : sh.keys[i]) ks.emplace_back(a, i);
    std::sort(ks.begin(), ks.end());
    for (size_t i = 1; i < ks.size(); ++i)
        if (ks[i].first == ks[i - 1].first && ks[i].second != ks[i - 1].second) return true;
    return false;
}

void run_iters(pbt::Source& src, bool dp, bool ds) {
    // selectors first
    const int kind = (int)src.weighted({5, 3, 3, 3});  // deque | reverse_iterator<vector> | stride | reverse_iterator<deque>
    const int ty = (int)src.weighted({3, 3, 3});        // int | 8-byte record | record owning a std::string
    const int cmpmode = (int)src.weighted({3, 2, 2});   // less | greater | projection key/4
    const int gen = (int)src.weighted({10, 4, 1});      // mid | the small generator of `partition` | the scale generator
    static const int BLK[3] = {512 / (int)sizeof(int), 512 / (int)sizeof(Rec), 512 / (int)sizeof(RecS)};
    const int blk = BLK[ty];
    Stats st;
    st.sample_ranks = true; // tuples with more than 600 elements: bounded rank sample (sample_ranks in C08_common.hpp)
    Shape sh;
    uint64_t salt;
    if (gen == 0) {
        MidShape ms = gen_shape_mid(src, blk);
        st.rank_seed = ms.rank_seed;
        salt = ms.rank_seed * 31 + 7;
        if (ms.stagger) pbt::label(ms.stagger == 1 ? "staggered_half" : "staggered_disjoint");
        sh = ms;
        pbt::label("gen=mid(block_relative_lengths)");
    } else if (gen == 1) {
        sh = gen_shape(src);
        salt = (uint64_t)sh.m * 1000003u + sh.keys[0].size() * 7919u + (uint64_t)sh.distinct;
        st.rank_seed = salt;
        pbt::label("gen=small");
    } else {
        ScaleShape ss = gen_shape_scale(src);
        st.rank_seed = ss.rank_seed;
        salt = ss.rank_seed * 131 + 3;
        sh = ss;
        // cost bound (non-contiguous iterators, owning elements): every sequence is cut to <= 3000 elements and the
        // tuple to <= ~20000 (the drawn keys are sorted afterwards, so any truncation is again a legal tuple)
        size_t cap = std::max<size_t>(1, std::min<size_t>(3000, 20000 / (size_t)sh.m));
        for (auto& k : sh.keys)
            if (k.size() > cap) k.resize(cap);
        pbt::label("gen=scale(capped)");
    }
    // labels
    const int m = sh.m;
    size_t lo = SIZE_MAX, hi = 0, N = 0;
    int longer = 0;
    for (auto& k : sh.keys) {
        lo = std::min(lo, k.size());
        hi = std::max(hi, k.size());
        N += k.size();
        longer += k.size() > (size_t)blk;
    }
    pbt::label(it::KIND_LABEL[kind]);
    pbt::label(ty == 0 ? "elem=int" : ty == 1 ? "elem=record" : "elem=record_owning_string");
    pbt::label(cmpmode == 0 ? "cmp=less" : cmpmode == 1 ? "cmp=greater" : "cmp=projection");
    pbt::label("cmp_owning_state");
    pbt::label(m == 1 ? "m=1" : m == 2 ? "m=2" : m <= 4 ? "m=3..4" : m <= 8 ? "m=5..8" : m <= 40 ? "m=17..40" : "m>40");
    if (longer >= 1) pbt::label("seq_longer_than_512B_block");
    if (longer >= 2) pbt::label("2+_seqs_longer_than_block");
    if (hi > 2 * (size_t)blk) pbt::label("seq_longer_than_2_blocks");
    if (m >= 2 && lo == 1 && hi > (size_t)blk) pbt::label("len1_next_to_multi_block_seq");
    pbt::label(N <= 600 ? "N<=600" : N < 5000 ? "N=601..4999" : "N>=5000");
    if (sh.wide) pbt::label("keys_wide");
    else if (sh.distinct == 1) pbt::label("keys_all_equal");
    else pbt::label("keys_few_distinct");
    PBT_LOG("iterator kind " << it::KIND_LABEL[kind] << ", element " << (ty == 0 ? "int" : ty == 1 ? "Rec" : "RecS(owning std::string)") << ", comparator mode "
                             << cmpmode << " (0 less 1 greater 2 key/4; owning functor), m=" << m << ", N=" << N << ", deque block = " << blk
                             << " elements; pairs in a std::deque\n");

    it::ItStats ist;
    ist.rank_budget = 160; // per tuple: all ranks up to N = 159, else 160 of the candidate ranks (thin_ranks)
    const bool b = kind >= 2;
    switch (ty) {
    case 0: b ? it::run_it_int_b(kind, sh.keys, cmpmode, dp, ds, salt, st, ist) : it::run_it_int_a(kind, sh.keys, cmpmode, dp, ds, salt, st, ist); break;
    case 1: b ? it::run_it_rec_b(kind, sh.keys, cmpmode, dp, ds, salt, st, ist) : it::run_it_rec_a(kind, sh.keys, cmpmode, dp, ds, salt, st, ist); break;
    default: b ? it::run_it_recs_b(kind, sh.keys, cmpmode, dp, ds, salt, st, ist) : it::run_it_recs_a(kind, sh.keys, cmpmode, dp, ds, salt, st, ist); break;
    }
    if (ist.mid_block) pbt::label("begin_mid_block");
    pbt::label(ist.thinned ? (st.sampled ? "ranks_160_of_boundary_sample" : "ranks_160_of_all") : "ranks_all");
    PBT_LOG("ranks checked: " << st.ranks_checked << (st.sampled ? " (sampled)" : " (all)") << "\n");
    if (st.cut_multi) pbt::label("cut_class_in>=2_seqs");
    if (st.cut3) pbt::label("cut_class_in>=3_seqs");
    if (dp) {
        if (m >= 2 && st.cut_multi) pbt::nontrivial();
    } else if (key_in_two_seqs(sh)) {
        pbt::label("key_in>=2_seqs");
        pbt::nontrivial();
    }
}
} // namespace

PBT_PROPERTY(partition_iters) { run_iters(src, true, false); }
PBT_PROPERTY(selection_iters) { run_iters(src, false, true); }
