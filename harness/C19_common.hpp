// C19 — shared helpers of the string harnesses.
#pragma once
#include "../engine/pbt.hpp"

#include <algorithm>
#include <cstring>
#include <memory>
#include <string>
#include <vector>

#include <tlx/container/string_view.hpp>

namespace c19 {

//! exact-size heap copy of a string so that any read past size() is an ASan report (std::string would hide it in
//! its terminator / SSO buffer). cstr() variants carry one extra NUL.
struct Buf {
    std::unique_ptr<char[]> p;
    size_t n = 0;
    Buf() : p(new char[0]) {}
    explicit Buf(const std::string& s, bool terminate = false) : p(new char[s.size() + (terminate ? 1 : 0)]), n(s.size()) {
        if (n) memcpy(p.get(), s.data(), n);
        if (terminate) p[n] = 0;
    }
    const char* data() const { return p.get(); }
    tlx::string_view view() const { return tlx::string_view(p.get(), n); }
};

inline std::string gen_over(pbt::Source& src, const std::string& alphabet, size_t maxlen) {
    size_t n = (size_t)src.range(0, (int64_t)maxlen);
    std::string s;
    for (size_t i = 0; i < n; ++i) s += alphabet[src.index(alphabet.size())];
    return s;
}

// ---- scale classes ("long inputs") ------------------------------------------------------------------------------
// The targets *_long run the very same property bodies with long_mode() switched on: every primary string argument is
// then produced by gen_main() from a length class (power-of-two boundaries 15..4097, 41..5000 uniform, rarely
// 65535..66000), a content shape and a 32-bit seed that are drawn from the choice bytes and expanded with a local
// PRNG (the case stays a pure function of its bytes). With long_mode() off gen_main() is gen_over(): the byte -> case
// mapping of the original targets is unchanged.
inline bool& long_mode() {
    static bool on = false;
    return on;
}

struct Rng {
    uint64_t s;
    explicit Rng(uint64_t seed) : s(seed * 0x9E3779B97F4A7C15ull + 0x1234567ull) {}
    uint64_t next() {
        uint64_t z = (s += 0x9E3779B97F4A7C15ull);
        z = (z ^ (z >> 30)) * 0xBF58476D1CE4E5B9ull;
        z = (z ^ (z >> 27)) * 0x94D049BB133111EBull;
        return z ^ (z >> 31);
    }
    size_t below(size_t n) { return n <= 1 ? 0 : (size_t)(next() % n); }
    bool one_in(size_t n) { return below(n) == 0; }
};

enum { HUGE_NO = 0, HUGE_OK = 1 };

//! a length from the scale classes. `cap` bounds the result (quadratic oracles), `huge` admits >= 65535 (rare)
inline size_t gen_long_len(pbt::Source& src, size_t cap = 5000, int huge = HUGE_NO) {
    static const size_t B[] = {16, 24, 32, 64, 128, 256, 512, 1024, 2048, 4096};
    size_t n;
    switch (src.weighted({6, 6, 3, 3, 3, 5, 5, 1})) {
    case 0: n = 256 + (size_t)src.range(0, 2) - 1; break;                 // 255 256 257
    case 1: n = B[src.range(0, 9)] + (size_t)src.range(0, 2) - 1; break;  // 2^k - 1, 2^k, 2^k + 1
    case 2: n = 512 + (size_t)src.range(0, 2) - 1; break;
    case 3: n = (size_t)src.range(258, 320); break;                       // just above the 8-bit boundary
    case 4: n = (size_t)src.range(13, 254); break;
    case 5: n = (size_t)src.range(41, 1000); break;
    case 6: n = (size_t)src.range(1000, 5000); break;
    default:
        if (huge == HUGE_OK) return 65535 + (size_t)src.range(0, 465); // 16-bit boundary; only where the caller's oracle is linear
        n = (size_t)src.range(1000, 5000);
        break;
    }
    if (n > cap) n = cap - n % 5;
    return n;
}

inline void label_len(size_t n) {
    pbt::label(n < 255     ? "len:<255"
               : n <= 257  ? "len:255..257"
               : n <= 510  ? "len:258..510"
               : n <= 513  ? "len:511..513"
               : n <= 1025 ? "len:514..1025"
               : n < 65535 ? "len:1026..5000"
                           : "len:>=65535");
}

//! n letters of `alphabet` in one of four shapes: 0 uniform, 1 one dominant letter with rare others, 2 a short period
//! (drawn from the choice bytes) repeated, 3 runs of up to 300 equal letters
inline std::string gen_shaped(pbt::Source& src, const std::string& alphabet, size_t n) {
    int shape = (int)src.range(0, 3);
    size_t dom = src.index(alphabet.size());
    unsigned rate = 1u << src.range(1, 8);
    std::string period;
    if (shape == 2) {
        size_t pl = (size_t)src.range(1, 6);
        for (size_t i = 0; i < pl; ++i) period += alphabet[src.index(alphabet.size())];
    }
    Rng rng(src.bits(4));
    std::string s;
    if (alphabet.empty()) return s;
    s.reserve(n);
    while (s.size() < n) {
        switch (shape) {
        case 0: s += alphabet[rng.below(alphabet.size())]; break;
        case 1: s += rng.one_in(rate) ? alphabet[rng.below(alphabet.size())] : alphabet[dom]; break;
        case 2: s += period[s.size() % period.size()]; break;
        default: {
            size_t run = 1 + rng.below((size_t)1 << rng.below(9));
            if (run > 300) run = 300;
            s.append(std::min(run, n - s.size()), alphabet[rng.below(alphabet.size())]);
            break;
        }
        }
    }
    PBT_LOG("  [long string: " << n << " bytes, shape " << shape << "]\n");
    return s;
}

inline std::string gen_long(pbt::Source& src, const std::string& alphabet, size_t cap = 5000, int huge = HUGE_NO) {
    size_t n = gen_long_len(src, cap, huge);
    return gen_shaped(src, alphabet, n);
}

//! a PRIMARY string argument: gen_over() in the original targets, a long string in the *_long targets
inline std::string gen_main(pbt::Source& src, const std::string& alphabet, size_t maxlen, size_t cap = 5000, int huge = HUGE_NO) {
    if (!long_mode()) return gen_over(src, alphabet, maxlen);
    std::string s = gen_long(src, alphabet, cap, huge);
    label_len(s.size());
    return s;
}

//! a SECONDARY string argument (drop set, replacement, ...): short, in the *_long targets sometimes up to 300 bytes
inline std::string gen_aux(pbt::Source& src, const std::string& alphabet, size_t maxlen) {
    if (long_mode() && src.chance(64)) return gen_shaped(src, alphabet, (size_t)src.range(0, 300));
    return gen_over(src, alphabet, maxlen);
}

inline std::string strip_nul(std::string s) {
    std::string o;
    for (char c : s)
        if (c) o += c;
    return o;
}

//! strings over 600 bytes and vectors over 40 entries are abbreviated in messages (the stored case replays them)
inline std::string show(const std::string& s) {
    if (s.size() <= 600) return pbt::show_bytes(s);
    return pbt::show_bytes(s.substr(0, 200)) + "...[" + std::to_string(s.size()) + " bytes]..." + pbt::show_bytes(s.substr(s.size() - 100));
}
inline std::string show(const std::vector<std::string>& v) {
    std::string o = "{";
    for (size_t i = 0; i < v.size(); ++i) {
        if (v.size() > 40 && i == 20) {
            o += ", ...[" + std::to_string(v.size()) + " entries]...";
            i = v.size() - 11;
            continue;
        }
        o += (i ? ", " : "") + show(v[i]);
    }
    return o + "}";
}
inline std::string show_char(char c) { return "'" + pbt::show_bytes(std::string(1, c)).substr(1, pbt::show_bytes(std::string(1, c)).size() - 2) + "'"; }

inline bool contains_at(const std::string& hay, size_t pos, const std::string& needle) {
    return pos + needle.size() <= hay.size() && hay.compare(pos, needle.size(), needle) == 0;
}

// ---- reference definitions and generators shared by the TUs (defined in C19_helpers.cpp / C19_codec.cpp) -----------------
extern const std::string ALPHA; //!< letters of both cases, their ASCII neighbours, whitespace, NUL, bytes >= 0x80
unsigned char ref_lower(unsigned char c);
unsigned char ref_upper(unsigned char c);
std::string ref_lower(std::string s);
std::string ref_upper(std::string s);
int ref_compare_icase(const std::string& a, const std::string& b);
std::string ref_replace(const std::string& str, const std::string& needle, const std::string& instead, bool all);
std::string ref_trim(const std::string& s, const std::string& drop, bool left, bool right);
size_t ref_levenshtein(const std::string& a, const std::string& b, bool icase);
std::string flip_case(std::string s, pbt::Source& src);
std::string gen_related(pbt::Source& src, const std::string& hay, const std::string& alphabet, size_t maxlen, size_t cap = 5000);
std::string ref_base64(const std::string& in);
std::string ref_hex(const std::string& in, bool upper);

} // namespace c19

// the property bodies (one per TU); C19_main.cpp registers them as targets
void c19_codec(pbt::Source& src);
void c19_split_join(pbt::Source& src);
void c19_quoted(pbt::Source& src);
void c19_helpers(pbt::Source& src);
