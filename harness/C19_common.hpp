// C19 — shared helpers of the string harnesses.
#pragma once
#include "../engine/pbt.hpp"

#include <cstring>
#include <memory>
#include <string>
#include <vector>

#include <tlx/container/string_view.hpp>

namespace c19 {

//! exact-size heap copy of a string so that any read past size() is an ASan report (std::string would hide it in
//! its terminator / SSO buffer). cstr() variants carry one extra NUL.
struct Buf {
    std::unique_ptr<char[]> p;
    size_t n = 0;
    Buf() : p(new char[0]) {}
    explicit Buf(const std::string& s, bool terminate = false) : p(new char[s.size() + (terminate ? 1 : 0)]), n(s.size()) {
        if (n) memcpy(p.get(), s.data(), n);
        if (terminate) p[n] = 0;
    }
    const char* data() const { return p.get(); }
    tlx::string_view view() const { return tlx::string_view(p.get(), n); }
};

inline std::string gen_over(pbt::Source& src, const std::string& alphabet, size_t maxlen) {
    size_t n = (size_t)src.range(0, (int64_t)maxlen);
    std::string s;
    for (size_t i = 0; i < n; ++i) s += alphabet[src.index(alphabet.size())];
    return s;
}

inline std::string strip_nul(std::string s) {
    std::string o;
    for (char c : s)
        if (c) o += c;
    return o;
}

inline std::string show(const std::string& s) { return pbt::show_bytes(s); }
inline std::string show(const std::vector<std::string>& v) {
    std::string o = "{";
    for (size_t i = 0; i < v.size(); ++i) o += (i ? ", " : "") + pbt::show_bytes(v[i]);
    return o + "}";
}
inline std::string show_char(char c) { return "'" + pbt::show_bytes(std::string(1, c)).substr(1, pbt::show_bytes(std::string(1, c)).size() - 2) + "'"; }

inline bool contains_at(const std::string& hay, size_t pos, const std::string& needle) {
    return pos + needle.size() <= hay.size() && hay.compare(pos, needle.size(), needle) == 0;
}

} // namespace c19

// the property bodies (one per TU); C19_main.cpp registers them as targets
void c19_codec(pbt::Source& src);
void c19_split_join(pbt::Source& src);
void c19_quoted(pbt::Source& src);
void c19_helpers(pbt::Source& src);
