// C15 (types) — the same three network families, but instantiated with the template arguments a user may legally
// pass: comparator objects that OWN state (non-trivial copy/move), element types whose move is destructive,
// random-access iterators that are not raw pointers, and user-written compare-exchange functors.
// Included by C15_types{0,1,2}{a,b,c,d,z}.cpp: one family and one part each (the template matrices compile in parallel).
//
//   zero_one_cmp (enumerate): all 2^n zero-one inputs, n = 0..16, through sortN(a, CS_IfSwap<Cmp>) and
//            sort(begin, end, Cmp) once per comparator KIND (owned std::string collation table, std::function,
//            shared_ptr table, owned std::vector table; int elements; every kind also records the compared index
//            pairs, so obliviousness is re-checked per kind) and once with std::string elements ("0"/"1").
//   types:   generated inputs of tagged elements {std::string, record owning a std::string, verif::Tracked}
//            x comparator kinds x iterator kinds {T*, vector, deque (range straddling a node boundary),
//            reverse_iterator, scattering random-access adaptor} x entry points {sort(b,e,cmp), sort(b,e),
//            sortN(.., CS_IfSwap<Cmp>), sortN(.., user compare-exchange functor owning state)}.
//            Oracle: output in non-decreasing order under the MODEL order (a rank table kept by the harness, never
//            read back from the comparator object), every identity tag exactly once with exactly its input
//            contents, nothing outside [begin,end) touched, no exception, every Tracked element destroyed.
#include "C15_family_impl.hpp"
#include "C15_types_case.hpp"

#include "../engine/tracked.hpp"

#include <array>
#include <deque>
#include <exception>
#include <iterator>
#include <string>

namespace c15t {

using c15::Dispatch;
using c15::FAMILY_NAME;
using c15::Trace;
namespace sn = tlx::sort_networks;


// ---- element types ------------------------------------------------------------------------------------------

//! record owning a string; ordered by the name only (the tag does not take part: large equivalence classes)
struct SRec {
    std::string name;
    int tag = -1;
    friend bool operator<(const SRec& a, const SRec& b) { return a.name < b.name; }
};

template <class T>
struct Elem;
template <>
struct Elem<int> { // zero-one sweep only: the value is the key
    static int key(const int& v) { return v >= 0 && v < KMAX ? v : -1; }
};
template <>
struct Elem<std::string> {
    //! "<letter>#<tag, 2 digits><0..28 pad chars>": lengths 4..32, i.e. both in-place (SSO) and heap-owning strings;
    //! the natural order is (key, tag)
    static std::string make(int key, int tag) {
        std::string s(1, (char)('a' + key));
        s += '#';
        s += (char)('0' + tag / 10);
        s += (char)('0' + tag % 10);
        s.append((size_t)((tag * 7 + key * 3) % 29), '~');
        return s;
    }
    static int key(const std::string& s) { return s.size() >= 4 && s[0] >= 'a' && s[0] < 'a' + KMAX ? s[0] - 'a' : -1; }
    static int tag(const std::string& s) {
        if (s.size() < 4 || s[1] != '#' || s[2] < '0' || s[2] > '9' || s[3] < '0' || s[3] > '9') return -1;
        return (s[2] - '0') * 10 + (s[3] - '0');
    }
    static bool same(const std::string& a, const std::string& b) { return a == b; }
    static bool nat_less(int ka, int ta, int kb, int tb) { return ka != kb ? ka < kb : ta < tb; }
    static std::string show(const std::string& s) { return pbt::show_bytes(s); }
    static const char* name() { return "std::string"; }
};
template <>
struct Elem<SRec> {
    //! name = letter + (3 + 5*key) pad chars: SSO for small keys, heap-owning from key 3 on
    static SRec make(int key, int tag) {
        SRec r;
        r.name.assign(1, (char)('a' + key));
        r.name.append((size_t)(3 + 5 * key), '_');
        r.tag = tag;
        return r;
    }
    static int key(const SRec& r) { return !r.name.empty() && r.name[0] >= 'a' && r.name[0] < 'a' + KMAX ? r.name[0] - 'a' : -1; }
    static int tag(const SRec& r) { return r.tag; }
    static bool same(const SRec& a, const SRec& b) { return a.name == b.name && a.tag == b.tag; }
    static bool nat_less(int ka, int, int kb, int) { return ka < kb; }
    static std::string show(const SRec& r) { return pbt::show_bytes(r.name) + "#" + std::to_string(r.tag); }
    static const char* name() { return "record{std::string,int}"; }
};
template <>
struct Elem<verif::Tracked> {
    //! value = key*64 + tag; a moved-from Tracked holds Tracked::kMovedFrom (negative): decodes to key -1
    static verif::Tracked make(int key, int tag) { return verif::Tracked(key * 64 + tag); }
    static int key(const verif::Tracked& t) {
        int v = t.value();
        return v >= 0 && v < KMAX * 64 ? v / 64 : -1;
    }
    static int tag(const verif::Tracked& t) {
        int v = t.value();
        return v >= 0 ? v % 64 : -1;
    }
    static bool same(const verif::Tracked& a, const verif::Tracked& b) { return a.value() == b.value(); }
    static bool nat_less(int ka, int ta, int kb, int tb) { return ka != kb ? ka < kb : ta < tb; }
    static std::string show(const verif::Tracked& t) { return std::to_string(t.value()); }
    static const char* name() { return "verif::Tracked"; }
};

// ---- comparator kinds ---------------------------------------------------------------------------------------
// All table kinds implement "rank[key(a)] < rank[key(b)]" for a rank table chosen by the generator; they differ in
// how the table is OWNED. A comparator that is called while its owned state is gone (a moved-from functor object)
// or on an element that does not decode (a moved-from element) reports C15/comparator-state: the library handed
// user code an object it had already moved from.


[[noreturn]] inline void bad_state(const char* kind, const char* what) {
    pbt::fail("C15/comparator-state", std::string(kind) + " comparator " + what);
}
template <class T>
inline void record(Trace* t, const T& a, const T& b) {
    (void)t, (void)a, (void)b;
}
inline void record(Trace* t, const int& a, const int& b) {
    if (t) t->push(&b, &a); // CS_IfSwap calls cmp(right, left)
}

enum { CK_NAT = 0, CK_COLLATE = 1, CK_FN = 2, CK_SHARED = 3, CK_OWNVEC = 4 };
static const char* const CK_NAME[5] = {"std::less", "collation(std::string)", "std::function", "shared_ptr-table", "vector-table"};

//! owns a std::string collation table: `fill` filler characters, then for every key letter the pair
//! <letter><'0'+rank> (letters of equal rank are equivalent). fill = 32: never fits the small-string buffer (every
//! copy allocates); fill = 0 with two keys: lives in the small-string buffer. Moved-from: empty string either way.
template <class T>
struct CollateCmp {
    std::string alphabet;
    size_t fill;
    Trace* t = nullptr;
    CollateCmp(const RankTable& rank, int nkeys, Trace* t_, bool light) : alphabet(light ? 0 : 32, '.'), fill(light ? 0 : 32), t(t_) {
        for (int k = nkeys - 1; k >= 0; --k) alphabet += (char)('a' + k), alphabet += (char)('0' + rank[(size_t)k]);
    }
    int rank_of(const T& e) const {
        int k = Elem<T>::key(e);
        if (k < 0) bad_state("collation", "called on an element that is not one of the input elements (moved-from element?)");
        size_t p = alphabet.find((char)('a' + k), fill);
        if (p == std::string::npos || p + 1 >= alphabet.size())
            bad_state("collation", "called although its alphabet is gone (moved-from comparator object)");
        return alphabet[p + 1] - '0';
    }
    bool operator()(const T& a, const T& b) const {
        record(t, a, b);
        return rank_of(a) < rank_of(b);
    }
};
//! shared_ptr to an immutable table. Moved-from: null.
template <class T>
struct SharedCmp {
    std::shared_ptr<const std::vector<int>> rank;
    Trace* t = nullptr;
    bool operator()(const T& a, const T& b) const {
        record(t, a, b);
        if (!rank) bad_state("shared_ptr-table", "called although its table pointer is null (moved-from comparator object)");
        int ka = Elem<T>::key(a), kb = Elem<T>::key(b);
        if (ka < 0 || kb < 0) bad_state("shared_ptr-table", "called on an element that is not one of the input elements (moved-from element?)");
        return (*rank)[(size_t)ka] < (*rank)[(size_t)kb];
    }
};
//! owns the table in a std::vector by value. Moved-from: empty vector.
template <class T>
struct OwnVecCmp {
    std::vector<int> rank;
    Trace* t = nullptr;
    bool operator()(const T& a, const T& b) const {
        record(t, a, b);
        int ka = Elem<T>::key(a), kb = Elem<T>::key(b);
        if (ka < 0 || kb < 0) bad_state("vector-table", "called on an element that is not one of the input elements (moved-from element?)");
        if ((size_t)ka >= rank.size() || (size_t)kb >= rank.size())
            bad_state("vector-table", "called although its table is gone (moved-from comparator object)");
        return rank[(size_t)ka] < rank[(size_t)kb];
    }
};
//! std::function around a closure that captures the table by value. Heavy: 64-byte table, the closure lives on the
//! heap inside the std::function (every copy allocates); light: 8 one-byte ranks + the trace pointer = 16 trivially
//! copyable bytes, stored in place. Moved-from: empty either way -> std::bad_function_call, reported as C15/exception.
template <class T>
using FnCmp = std::function<bool(const T&, const T&)>;
template <class T, class Table>
FnCmp<T> make_fn_(const Table& rank, Trace* t) {
    return [rank, t](const T& a, const T& b) -> bool {
        record(t, a, b);
        int ka = Elem<T>::key(a), kb = Elem<T>::key(b);
        if (ka < 0 || kb < 0 || (size_t)ka >= rank.size() || (size_t)kb >= rank.size())
            bad_state("std::function", "called on an element that is not one of the input elements (moved-from element?)");
        return rank[(size_t)ka] < rank[(size_t)kb];
    };
}
template <class T>
FnCmp<T> make_fn(const RankTable& rank, int nkeys, Trace* t, bool light) {
    if (light && nkeys <= 8) {
        std::array<signed char, 8> small;
        for (size_t k = 0; k < 8; ++k) small[k] = (signed char)rank[k];
        return make_fn_<T>(small, t);
    }
    return make_fn_<T>(rank, t);
}

template <class T, int CK>
struct MakeCmp;
template <class T>
struct MakeCmp<T, CK_NAT> {
    typedef std::less<T> type;
    static type make(const RankTable&, int, Trace*, bool) { return type(); }
};
template <class T>
struct MakeCmp<T, CK_COLLATE> {
    typedef CollateCmp<T> type;
    static type make(const RankTable& r, int nkeys, Trace* t, bool light) { return type(r, nkeys, t, light); }
};
template <class T>
struct MakeCmp<T, CK_FN> {
    typedef FnCmp<T> type;
    static type make(const RankTable& r, int nkeys, Trace* t, bool light) { return make_fn<T>(r, nkeys, t, light); }
};
template <class T>
struct MakeCmp<T, CK_SHARED> {
    typedef SharedCmp<T> type;
    static type make(const RankTable& r, int, Trace* t, bool) { return type{std::make_shared<const std::vector<int>>(r.begin(), r.end()), t}; }
};
template <class T>
struct MakeCmp<T, CK_OWNVEC> {
    typedef OwnVecCmp<T> type;
    static type make(const RankTable& r, int, Trace* t, bool) { return type{std::vector<int>(r.begin(), r.end()), t}; }
};

//! user-written compare-exchange functor: owns its comparator and a heap string, exchanges by three moves
static const char* const CSWAP_NAME = "user-compare-exchange-functor-with-owned-state";
template <class Cmp>
struct OwnCSwap {
    Cmp cmp;
    std::string name;
    explicit OwnCSwap(Cmp c) : cmp(std::move(c)), name(CSWAP_NAME) {}
    template <class T>
    void operator()(T& left, T& right) {
        if (name != CSWAP_NAME) pbt::fail("C15/cswap-state", "the compare-exchange functor was called in a moved-from state");
        if (cmp(right, left)) {
            T tmp(std::move(left));
            left = std::move(right);
            right = std::move(tmp);
        }
    }
};

// ---- iterator kinds -----------------------------------------------------------------------------------------

//! random-access iterator adaptor: position i designates base[perm[i]] (elements scattered over a larger array).
//! perm lives in an exact-size heap array: dereferencing outside [0,n) is an ASan report.
template <class T>
struct PermIter {
    typedef std::random_access_iterator_tag iterator_category;
    typedef T value_type;
    typedef std::ptrdiff_t difference_type;
    typedef T* pointer;
    typedef T& reference;
    T* base = nullptr;
    const int* perm = nullptr;
    difference_type i = 0;
    reference operator*() const { return base[perm[i]]; }
    pointer operator->() const { return &base[perm[i]]; }
    reference operator[](difference_type d) const { return base[perm[i + d]]; }
    PermIter& operator++() { return ++i, *this; }
    PermIter operator++(int) { PermIter c(*this); return ++i, c; }
    PermIter& operator--() { return --i, *this; }
    PermIter operator--(int) { PermIter c(*this); return --i, c; }
    PermIter& operator+=(difference_type d) { return i += d, *this; }
    PermIter& operator-=(difference_type d) { return i -= d, *this; }
    friend PermIter operator+(PermIter a, difference_type d) { return a += d; }
    friend PermIter operator+(difference_type d, PermIter a) { return a += d; }
    friend PermIter operator-(PermIter a, difference_type d) { return a -= d; }
    friend difference_type operator-(const PermIter& a, const PermIter& b) { return a.i - b.i; }
    friend bool operator==(const PermIter& a, const PermIter& b) { return a.i == b.i; }
    friend bool operator!=(const PermIter& a, const PermIter& b) { return a.i != b.i; }
    friend bool operator<(const PermIter& a, const PermIter& b) { return a.i < b.i; }
    friend bool operator>(const PermIter& a, const PermIter& b) { return a.i > b.i; }
    friend bool operator<=(const PermIter& a, const PermIter& b) { return a.i <= b.i; }
    friend bool operator>=(const PermIter& a, const PermIter& b) { return a.i >= b.i; }
};

enum { IK_PTR = 0, IK_VEC = 1, IK_DEQUE = 2, IK_REV = 3, IK_PERM = 4 };
static const char* const IK_NAME[5] = {"T*", "vector::iterator", "deque::iterator", "reverse_iterator<vector::iterator>", "scattering adaptor"};
static const int SENTINEL_TAG = 63;

//! storage for one input + the iterator pair handed to tlx; elements outside the range are sentinels
template <class T, int IK>
struct Store;
template <class T>
struct Store<T, IK_PTR> {
    typedef T* iterator;
    std::unique_ptr<T[]> a; // exact size
    size_t n;
    Store(const std::vector<T>& in, unsigned, unsigned) : a(new T[in.size()]), n(in.size()) {
        for (size_t i = 0; i < n; ++i) a[i] = in[i];
    }
    iterator begin() { return a.get(); }
    iterator end() { return a.get() + n; }
    bool outside_intact() const { return true; }
};
template <class T>
struct Store<T, IK_VEC> {
    typedef typename std::vector<T>::iterator iterator;
    std::vector<T> v;
    Store(const std::vector<T>& in, unsigned, unsigned) : v(in) { v.shrink_to_fit(); }
    iterator begin() { return v.begin(); }
    iterator end() { return v.end(); }
    bool outside_intact() const { return true; }
};
template <class T>
struct Store<T, IK_DEQUE> {
    typedef typename std::deque<T>::iterator iterator;
    std::deque<T> d;
    size_t off;
    //! `off` sentinels first, so that the range [begin()+off, end()) straddles the boundary between two deque nodes
    Store(const std::vector<T>& in, unsigned p, unsigned) {
        const size_t node = sizeof(T) < 512 ? 512 / sizeof(T) : 1; // libstdc++ node size
        size_t back = in.empty() ? 0 : (size_t)p % in.size() + (in.size() > 1 ? 1 : 0); // elements of the range in the first node
        if (back > in.size()) back = in.size();
        off = back <= node ? node - back : 0;
        for (size_t i = 0; i < off; ++i) d.push_back(Elem<T>::make(0, SENTINEL_TAG));
        for (const T& e : in) d.push_back(e);
    }
    iterator begin() { return d.begin() + (std::ptrdiff_t)off; }
    iterator end() { return d.end(); }
    bool outside_intact() const {
        for (size_t i = 0; i < off; ++i)
            if (!Elem<T>::same(d[i], Elem<T>::make(0, SENTINEL_TAG))) return false;
        return true;
    }
};
template <class T>
struct Store<T, IK_REV> {
    typedef std::reverse_iterator<typename std::vector<T>::iterator> iterator;
    std::vector<T> v;
    Store(const std::vector<T>& in, unsigned, unsigned) : v(in.rbegin(), in.rend()) { v.shrink_to_fit(); } // view == in
    iterator begin() { return v.rbegin(); }
    iterator end() { return v.rend(); }
    bool outside_intact() const { return true; }
};
template <class T>
struct Store<T, IK_PERM> {
    typedef PermIter<T> iterator;
    static const int M = 37; // prime > 2*16: i -> (i*mult + shift) mod M is injective for every mult in 1..M-1
    std::vector<T> base;
    std::unique_ptr<int[]> perm;
    size_t n;
    Store(const std::vector<T>& in, unsigned p, unsigned q) : perm(new int[in.size()]), n(in.size()) {
        int mult = 1 + (int)(p % (M - 1)), shift = (int)(q % M);
        for (int i = 0; i < M; ++i) base.push_back(Elem<T>::make(0, SENTINEL_TAG));
        for (size_t i = 0; i < n; ++i) {
            perm[i] = (int)((i * (size_t)mult + (size_t)shift) % M);
            base[(size_t)perm[i]] = in[i];
        }
    }
    iterator begin() { return iterator{base.data(), perm.get(), 0}; }
    iterator end() { return iterator{base.data(), perm.get(), (std::ptrdiff_t)n}; }
    bool outside_intact() const {
        std::vector<char> used((size_t)M, 0);
        for (size_t i = 0; i < n; ++i) used[(size_t)perm[i]] = 1;
        for (int i = 0; i < M; ++i)
            if (!used[(size_t)i] && !Elem<T>::same(base[(size_t)i], Elem<T>::make(0, SENTINEL_TAG))) return false;
        return true;
    }
};

// ---- generated inputs ---------------------------------------------------------------------------------------

static const char* const EN[4] = {"entry:sort-cmp", "entry:sortN-CS_IfSwap", "entry:sortN-user-cswap", "entry:sort-default"};

template <int FAM, class T, int CK, int IK, bool OWN>
void types_case(const Case& c) {
    typedef MakeCmp<T, CK> MK;
    typedef typename MK::type Cmp;
    typedef Store<T, IK> St;
    const int n = c.n;
    int entry = c.entry;
    if (entry == 3 && CK != CK_NAT) entry = 0; // the default order is "<"
    if (entry == 2 && !OWN) entry = 1;
    if (n < 2 && (entry == 1 || entry == 2)) entry = 0; // there is no sort0 / sort1
    pbt::label(EN[entry]);

    // model order on (key, tag); never read back from the comparator object
    auto model_less = [&](int ka, int ta, int kb, int tb) {
        return CK == CK_NAT ? Elem<T>::nat_less(ka, ta, kb, tb) : c.rank[(size_t)ka] < c.rank[(size_t)kb];
    };
    std::vector<T> in;
    for (int i = 0; i < n; ++i) in.push_back(Elem<T>::make(c.keys[i], i));
    bool presorted = true;
    for (int i = 0; i + 1 < n; ++i) presorted = presorted && !model_less(c.keys[i + 1], i + 1, c.keys[i], i);
    if (n >= 2 && !presorted) pbt::nontrivial();

    auto show = [&](const char* what, St& st) {
        std::ostringstream os;
        os << what << "[";
        typename St::iterator b = st.begin();
        for (int i = 0; i < n; ++i) os << (i ? " " : "") << Elem<T>::show(b[i]);
        os << "]";
        return os.str();
    };
    auto head = [&]() {
        std::ostringstream os;
        os << FAMILY_NAME[FAM] << " " << EN[entry] << " elem=" << Elem<T>::name() << " cmp=" << CK_NAME[CK] << " iter=" << IK_NAME[IK] << " n=" << n;
        return os.str();
    };
    {
        St st(in, c.p, c.q);
        Cmp cmp = MK::make(c.rank, c.nkeys, nullptr, c.light);
        PBT_LOG(head() << " " << show("in=", st) << "\n");
        try {
            switch (entry) {
            case 0: Dispatch<FAM>::run(st.begin(), st.end(), cmp); break;
            case 1:
                if (n & 1) c15::direct<FAM>(n, st.begin(), sn::CS_IfSwap<Cmp>(cmp));
                else {
                    // the compare-exchange object is built from a TEMPORARY comparator that dies before the network
                    // runs: CS_IfSwap has to own its comparator
                    sn::CS_IfSwap<Cmp> cs(MK::make(c.rank, c.nkeys, nullptr, c.light));
                    pbt::label("cswap_from_temporary_comparator");
                    c15::direct<FAM>(n, st.begin(), cs);
                }
                break;
            case 2: c15::direct<FAM>(n, st.begin(), OwnCSwap<Cmp>(cmp)); break;
            default: Dispatch<FAM>::run_default(st.begin(), st.end()); break;
            }
        } catch (const pbt::Failure&) {
            throw;
        } catch (const std::exception& e) {
            pbt::fail("C15/exception", head() + ": the sort threw " + e.what() + " (std::bad_function_call = an empty, i.e. moved-from, std::function comparator was called)");
        }
        PBT_LOG("  " << show("out=", st) << "\n");
        typename St::iterator out = st.begin();
        PBT_CHECK(st.end() - st.begin() == n, "C15/permutation", head() << ": the range changed its length");
        // every identity tag exactly once, with exactly its input contents
        std::vector<char> seen((size_t)n, 0);
        for (int i = 0; i < n; ++i) {
            int t = Elem<T>::tag(out[i]);
            PBT_CHECK(t >= 0 && t < n && !seen[(size_t)t] && Elem<T>::same(out[i], in[(size_t)t]), "C15/permutation",
                      head() << ": " << show("", st) << " is not a permutation of the input: position " << i
                             << " holds an element that is lost, duplicated or altered (input keys by tag:"
                             << [&]() { std::string s; for (int j = 0; j < n; ++j) s += " " + std::to_string(c.keys[j]); return s; }() << ")");
            seen[(size_t)t] = 1;
        }
        for (int i = 0; i + 1 < n; ++i) {
            int ta = Elem<T>::tag(out[i]), tb = Elem<T>::tag(out[i + 1]);
            PBT_CHECK(!model_less(c.keys[tb], tb, c.keys[ta], ta), "C15/sorted",
                      head() << ": " << show("", st) << " is not in order at position " << i);
        }
        PBT_CHECK(st.outside_intact(), "C15/outside-range", head() << ": an element outside [begin, end) was modified");
    }
}

//! the (element, comparator, iterator) combinations that are instantiated: a covering selection, every element
//! type with every comparator kind, every comparator kind and every element type with every iterator kind
static const char* const CFG_LABEL[12] = {"cfg:string/less/T*", "cfg:string/collation/deque", "cfg:string/function/reverse", "cfg:string/shared/scatter",
                                          "cfg:record/less/deque", "cfg:record/collation/vector", "cfg:record/function/scatter", "cfg:record/vectable/reverse",
                                          "cfg:tracked/less/reverse", "cfg:tracked/collation/scatter", "cfg:tracked/function/T*", "cfg:tracked/shared/deque"};
// four parts of three configurations, compiled in separate TUs
template <int FAM>
void types_family_a(int cfg, const Case& c) {
    typedef std::string S;
    pbt::label(CFG_LABEL[cfg]);
    switch (cfg) {
    case 0: types_case<FAM, S, CK_NAT, IK_PTR, false>(c); break;
    case 1: types_case<FAM, S, CK_COLLATE, IK_DEQUE, true>(c); break;
    default: types_case<FAM, S, CK_FN, IK_REV, false>(c); break;
    }
}
template <int FAM>
void types_family_b(int cfg, const Case& c) {
    typedef std::string S;
    pbt::label(CFG_LABEL[cfg]);
    switch (cfg) {
    case 3: types_case<FAM, S, CK_SHARED, IK_PERM, false>(c); break;
    case 4: types_case<FAM, SRec, CK_NAT, IK_DEQUE, false>(c); break;
    default: types_case<FAM, SRec, CK_COLLATE, IK_VEC, false>(c); break;
    }
}
template <int FAM>
void types_family_c(int cfg, const Case& c) {
    using verif::Tracked;
    pbt::label(CFG_LABEL[cfg]);
    switch (cfg) {
    case 6: types_case<FAM, SRec, CK_FN, IK_PERM, true>(c); break;
    case 7: types_case<FAM, SRec, CK_OWNVEC, IK_REV, false>(c); break;
    default: types_case<FAM, Tracked, CK_NAT, IK_REV, true>(c); break;
    }
}
template <int FAM>
void types_family_d(int cfg, const Case& c) {
    using verif::Tracked;
    pbt::label(CFG_LABEL[cfg]);
    switch (cfg) {
    case 9: types_case<FAM, Tracked, CK_COLLATE, IK_PERM, false>(c); break;
    case 10: types_case<FAM, Tracked, CK_FN, IK_PTR, false>(c); break;
    default: types_case<FAM, Tracked, CK_SHARED, IK_DEQUE, true>(c); break;
    }
}

// ---- zero-one sweep per comparator kind ------------------------------------------------------------------------

static const char* const ZMODE[2] = {"sortN(a, CS_IfSwap<Cmp>)", "sort(begin, end, Cmp)"};

template <int FAM, int CK>
void zero_one_cmp_block(bool light, int mode, int n, uint32_t first, uint32_t last) {
    typedef MakeCmp<int, CK> MK;
    typedef typename MK::type Cmp;
    RankTable rank;
    for (int k = 0; k < KMAX; ++k) rank[(size_t)k] = k;
    std::unique_ptr<int[]> buf(new int[(size_t)n]), zb(new int[(size_t)n]); // exact size
    int* a = buf.get();
    Trace ref, cur;
    Cmp cmp_ref = MK::make(rank, light ? 2 : KMAX, &ref, light), cmp = MK::make(rank, light ? 2 : KMAX, &cur, light);
    auto run = [&](int* x, const Cmp& c, uint32_t input) {
        try {
            if (mode == 0) c15::direct<FAM>(n, x, sn::CS_IfSwap<Cmp>(c));
            else Dispatch<FAM>::run(x, x + n, c);
        } catch (const pbt::Failure&) {
            throw;
        } catch (const std::exception& e) {
            pbt::fail("C15/exception", std::string(FAMILY_NAME[FAM]) + " " + ZMODE[mode] + " cmp=" + CK_NAME[CK] + " n=" + std::to_string(n) + " zero-one input #" +
                                           std::to_string(input) + ": the sort threw " + e.what());
        }
    };
    for (int i = 0; i < n; ++i) zb[(size_t)i] = 0;
    ref.reset(zb.get(), n);
    run(zb.get(), cmp_ref, 0);
    for (uint32_t x = first; x < last; ++x) {
        int ones = 0;
        for (int i = 0; i < n; ++i) a[i] = (int)((x >> i) & 1), ones += a[i];
        cur.reset(a, n);
        run(a, cmp, x);
        PBT_CHECK(!cur.bad, "C15/comparator-index",
                  FAMILY_NAME[FAM] << " " << ZMODE[mode] << " cmp=" << CK_NAME[CK] << " n=" << n << ": compare-exchange touches elements " << cur.bad_l
                                   << " and " << cur.bad_r << " (outside 0.." << n - 1 << ")");
        bool ok = true;
        for (int i = 0; i < n; ++i) ok = ok && a[i] == (i >= n - ones ? 1 : 0);
        if (!ok) {
            std::ostringstream os;
            os << FAMILY_NAME[FAM] << " " << ZMODE[mode] << " cmp=" << CK_NAME[CK] << " n=" << n << " zero-one input ";
            for (int i = 0; i < n; ++i) os << ((x >> i) & 1);
            os << " -> ";
            for (int i = 0; i < n; ++i) os << a[i];
            pbt::fail("C15/zero-one", os.str());
        }
        PBT_CHECK(cur.same(ref), "C15/oblivious",
                  FAMILY_NAME[FAM] << " " << ZMODE[mode] << " cmp=" << CK_NAME[CK] << " n=" << n << " input " << x
                                   << ": comparator sequence depends on the data: " << cur.str() << " vs " << ref.str());
    }
}

//! zero-one inputs as std::string elements "0" / "1" (destructive move: a compare-exchange that loses or duplicates
//! an element leaves an empty string or a wrong number of ones), std::less<std::string>
template <int FAM>
void zero_one_string_block(int mode, int n, uint32_t first, uint32_t last) {
    typedef std::less<std::string> Cmp;
    std::unique_ptr<std::string[]> buf(new std::string[(size_t)n]);
    std::string* a = buf.get();
    for (uint32_t x = first; x < last; ++x) {
        int ones = 0;
        for (int i = 0; i < n; ++i) a[i].assign(1, (char)('0' + ((x >> i) & 1))), ones += (int)((x >> i) & 1);
        if (mode == 0) c15::direct<FAM>(n, a, sn::CS_IfSwap<Cmp>(Cmp()));
        else Dispatch<FAM>::run(a, a + n, Cmp());
        bool ok = true;
        for (int i = 0; i < n; ++i) ok = ok && a[i].size() == 1 && a[i][0] == (i >= n - ones ? '1' : '0');
        if (!ok) {
            std::ostringstream os;
            os << FAMILY_NAME[FAM] << " " << ZMODE[mode] << " elem=std::string n=" << n << " zero-one input ";
            for (int i = 0; i < n; ++i) os << ((x >> i) & 1);
            os << " -> ";
            for (int i = 0; i < n; ++i) os << (a[i].empty() ? std::string("<empty>") : a[i]);
            pbt::fail("C15/zero-one", os.str());
        }
    }
}

//! kind: 0 collation (small-string table), 1 std::function (closure stored in place), 2 shared_ptr table (all int
//! elements), 3 std::string elements; heavy kinds (bose_nelson / bose_nelson_parameter copy the functor on every nested
//! call, i.e. ~250 allocations per sort16): 4 collation (heap string), 5 std::function (heap closure), 6 vector table
template <int FAM>
void zero_one_cmp_family(int kind, int mode, int n, uint32_t first, uint32_t last) {
    switch (kind) {
    case 0: zero_one_cmp_block<FAM, CK_COLLATE>(true, mode, n, first, last); break;
    case 1: zero_one_cmp_block<FAM, CK_FN>(true, mode, n, first, last); break;
    case 2: zero_one_cmp_block<FAM, CK_SHARED>(true, mode, n, first, last); break;
    case 3: zero_one_string_block<FAM>(mode, n, first, last); break;
    case 4: zero_one_cmp_block<FAM, CK_COLLATE>(false, mode, n, first, last); break;
    case 5: zero_one_cmp_block<FAM, CK_FN>(false, mode, n, first, last); break;
    default: zero_one_cmp_block<FAM, CK_OWNVEC>(false, mode, n, first, last); break;
    }
}

} // namespace c15t
