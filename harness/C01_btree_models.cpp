// C01 — the reference side: std::set / std::multiset / std::map / std::multimap behind the
// type-erased IModel interface (4 kinds x 3 comparators). Every method is one call of the std
// container (plus decoding of the result into ranks / plain ints).
#include "C01_btree_common.hpp"

namespace verif {
namespace bt {
namespace {

template <Kind K, class Cmp>
struct ModelOf;
template <class Cmp>
struct ModelOf<SET, Cmp> {
    typedef std::set<int, Cmp> type;
};
template <class Cmp>
struct ModelOf<MSET, Cmp> {
    typedef std::multiset<int, Cmp> type;
};
template <class Cmp>
struct ModelOf<MAP, Cmp> {
    typedef std::map<int, int, Cmp> type;
};
template <class Cmp>
struct ModelOf<MMAP, Cmp> {
    typedef std::multimap<int, int, Cmp> type;
};

template <Kind K, class CT>
class ModelAdapter final : public IModel {
    static const bool is_map = (K == MAP || K == MMAP);
    static const bool multi = (K == MSET || K == MMAP);
    typedef typename CT::template of<int> Cmp;
    typedef typename ModelOf<K, Cmp>::type M;
    typedef typename M::value_type value_type;
    typedef typename M::iterator iterator;
    typedef typename M::const_iterator const_iterator;
    M m;

    static value_type mk(const KD& e) {
        if constexpr (is_map) return value_type(e.first, e.second);
        else return e.first;
    }
    static KD val(const value_type& v) {
        if constexpr (is_map) return KD(v.first, v.second);
        else return KD(v, 0);
    }
    static const ModelAdapter& down(const IModel& x) { return static_cast<const ModelAdapter&>(x); }
    static ModelAdapter& down(IModel& x) { return static_cast<ModelAdapter&>(x); }
    size_t rank(const_iterator it) const { return (size_t)std::distance(m.begin(), it); }
    static void to_vals(const std::vector<KD>& in, std::vector<value_type>& out) {
        for (const KD& e : in) out.push_back(mk(e));
    }

public:
    ModelAdapter() {}
    explicit ModelAdapter(const Cmp& c) : m(c) {}
    explicit ModelAdapter(const M& o) : m(o) {}

    IModel* make(bool with_cmp, const std::vector<KD>& range, unsigned shift, bool desc) const override {
        std::vector<value_type> v;
        to_vals(range, v);
        ModelAdapter* r = new ModelAdapter();
        if (with_cmp) {
            M x(v.begin(), v.end(), CT::template make<int>(shift, desc));
            r->m.swap(x);
        }
        else {
            M x(v.begin(), v.end());
            r->m.swap(x);
        }
        return r;
    }
    IModel* clone() const override { return new ModelAdapter(m); }
    void assign(const IModel& from) override {
        const M& o = down(from).m;
        m = o;
    }
    void swap(IModel& other) override { m.swap(down(other).m); }
    void clear() override { m.clear(); }
    void relops(const IModel& other, bool out[6]) const override {
        const M &a = m, &b = down(other).m;
        out[0] = (a == b), out[1] = (a != b), out[2] = (a < b), out[3] = (a > b), out[4] = (a <= b), out[5] = (a >= b);
    }
    size_t size() const override { return m.size(); }
    bool empty() const override { return m.empty(); }
    void insert(int k, int d, size_t& r, bool& ok, KD& at) override {
        if constexpr (multi) {
            iterator it = m.insert(mk(KD(k, d)));
            ok = true;
            r = rank(it);
            at = val(*it);
        }
        else {
            std::pair<iterator, bool> p = m.insert(mk(KD(k, d)));
            ok = p.second;
            r = rank(p.first);
            at = val(*p.first);
        }
    }
    void insert_range(const std::vector<KD>& in) override {
        std::vector<value_type> v;
        to_vals(in, v);
        m.insert(v.begin(), v.end());
    }
    void append(const std::vector<KD>& in) override {
        for (const KD& e : in) m.insert(m.end(), mk(e));
    }
    size_t erase_key(int k) override { return m.erase(k); }
    void erase_rank(size_t r) override {
        iterator it = m.begin();
        std::advance(it, r);
        m.erase(it);
    }
    bool erase_entry(int k, const KD& e) override {
        std::pair<iterator, iterator> rg = m.equal_range(k);
        for (iterator it = rg.first; it != rg.second; ++it)
            if (val(*it) == e) {
                m.erase(it);
                return true;
            }
        return false;
    }
    size_t count(int k) const override { return m.count(k); }
    size_t lower_rank(int k) const override { return rank(m.lower_bound(k)); }
    size_t upper_rank(int k) const override { return rank(m.upper_bound(k)); }
    void seq(std::vector<KD>& out) const override {
        out.clear();
        out.reserve(m.size());
        for (const_iterator it = m.begin(); it != m.end(); ++it) out.push_back(val(*it));
    }
    bool less(int a, int b) const override { return m.key_comp()(a, b); }
    void cmp_state(unsigned& shift, bool& desc) const override { CT::state(m.key_comp(), shift, desc); }
    // API audit additions
    bool value_less(const KD& a, const KD& b) const override { return m.value_comp()(mk(a), mk(b)); }
    bool subscript(int k, bool write, int d, int& before, int& after) override {
        if constexpr (K == MAP) {
            int& r = m[k];
            before = r;
            if (write) r = d;
            after = m[k];
            return true;
        }
        else {
            (void)k, (void)write, (void)d, (void)before, (void)after;
            return false;
        }
    }
    void write_rank(size_t r, int d) override {
        if constexpr (is_map) {
            iterator it = m.begin();
            std::advance(it, r);
            it->second = d;
        }
        else (void)r, (void)d;
    }
};

template <Kind K>
IModel* make_kind(CmpId c, unsigned shift, bool desc) {
    switch (c) {
    case CMP_LESS: return new ModelAdapter<K, LessTag>();
    case CMP_GREATER: return new ModelAdapter<K, GreaterTag>();
    default: return new ModelAdapter<K, StateTag>(VCmp<int>(shift, desc));
    }
}
IModel* make_model(Kind k, CmpId c, unsigned shift, bool desc) {
    switch (k) {
    case SET: return make_kind<SET>(c, shift, desc);
    case MSET: return make_kind<MSET>(c, shift, desc);
    case MAP: return make_kind<MAP>(c, shift, desc);
    default: return make_kind<MMAP>(c, shift, desc);
    }
}
struct Install {
    Install() { model_factory() = &make_model; }
} install;

} // namespace
} // namespace bt
} // namespace verif
