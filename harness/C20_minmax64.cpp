// C20 — Aggregate<T> for 64-bit integer T with values that a double cannot represent (target aggregate_minmax64).
// count(), min() and max() are exact by definition whatever the magnitude; mean / variance are doubles and are NOT
// compared here (the other aggregate targets do that on values where the reference is exact). Histories mix add(),
// operator+=, operator+ with operands of 0, 1 and several values, self-combination and temporaries.
#include "../engine/pbt.hpp"

#include <cstdint>
#include <limits>
#include <vector>

#include <tlx/math/aggregate.hpp>

namespace {

template <class T>
T gen_value(pbt::Source& src) {
    typedef typename std::make_unsigned<T>::type U;
    U v;
    switch (src.weighted({4, 3, 2, 1})) {
    case 0: v = ((U)1 << src.range(53, 63)) + (U)src.range(0, 9) - 4; break;         // 2^k +- 4, k = 53..63 (odd neighbours)
    case 1: v = (U)src.bits(8) | ((U)1 << 62) | 1u; break;                             // random, > 2^62, odd
    case 2: v = std::numeric_limits<U>::max() - (U)src.range(0, 5); break;             // next to the maximum
    default: v = (U)src.range(0, 20);                                                  // small
    }
    T t = (T)v;
    if (std::is_signed<T>::value) {
        if (v > (U)std::numeric_limits<T>::max()) t = (T)(v >> 1); // keep it positive and huge
        if (src.boolean()) t = (T)(-t - 1);                        // ... or negative: -max-1 = lowest, never overflows (t >= 0 here)
    }
    return t;
}

template <class T>
void run(pbt::Source& src, const char* name) {
    typedef tlx::Aggregate<T> Agg;
    Agg acc;
    std::vector<T> all;
    bool singleton_combine = false, beyond_double = false;
    unsigned nsteps = (unsigned)src.range(1, 12);
    for (unsigned step = 0; step < nsteps; ++step) {
        unsigned op = (unsigned)src.range(0, 4);
        size_t k = (size_t)src.weighted({1, 5, 3, 1}); // operand of 0, 1, 2 or 3..5 values
        if (k == 3) k = (size_t)src.range(3, 5);
        Agg other;
        std::vector<T> vals;
        for (size_t i = 0; i < (op == 0 ? 1 : k); ++i) {
            T v = gen_value<T>(src);
            vals.push_back(v);
            other.add(v);
            if ((long double)(double)v != (long double)v) beyond_double = true; // x87 long double holds every 64-bit integer exactly
        }
        PBT_LOG(name << " step " << step << ": op " << op << " with " << vals.size() << " value(s)\n");
        switch (op) {
        case 0: acc.add(vals[0]); break;
        case 1: acc += other; break;
        case 2: acc = acc + other; break;
        case 3: acc = other + acc; break;
        default: {
            Agg tmp(acc);
            tmp += other;
            acc = tmp;
        }
        }
        if (op != 0 && vals.size() == 1) singleton_combine = true;
        all.insert(all.end(), vals.begin(), vals.end());
        PBT_CHECK(acc.count() == all.size(), "C20/aggregate64-count", name << ": count() = " << acc.count() << " after feeding " << all.size() << " values");
        if (!all.empty()) {
            T lo = all[0], hi = all[0];
            for (T v : all) lo = v < lo ? v : lo, hi = v > hi ? v : hi;
            PBT_CHECK(acc.min() == lo, "C20/aggregate64-min", name << ": min() = " << acc.min() << " but the smallest value fed is " << lo);
            PBT_CHECK(acc.max() == hi, "C20/aggregate64-max", name << ": max() = " << acc.max() << " but the largest value fed is " << hi);
        }
    }
    if (singleton_combine) pbt::label("combine_with_single_value_operand");
    if (beyond_double) pbt::label("value_not_representable_as_double");
    if (singleton_combine && beyond_double) pbt::nontrivial();
}

} // namespace

PBT_PROPERTY(aggregate_minmax64) {
    if (src.boolean()) {
        pbt::label("type:uint64");
        run<uint64_t>(src, "Aggregate<uint64_t>");
    } else {
        pbt::label("type:int64");
        run<int64_t>(src, "Aggregate<int64_t>");
    }
}
