#include "C04_ps5_sched.hpp"
C04_CONFIG(P0, 4, 2, uint32_t, ClsTreeCalc, 1, true, false);
C04_CONFIG(P1, 8, 4, uint64_t, ClsTreeCalc, 2, true, true);
