// C18 — shared pieces of the StringView harness TUs (C18_string_view.cpp, C18_alias.cpp, C18_api.cpp).
#pragma once
#include "../engine/pbt.hpp"

#include <cstdlib>
#include <cstring>
#include <memory>
#include <sstream>
#include <stdexcept>
#include <string>
#include <string_view>
#include <vector>
#include <tlx/container/string_view.hpp>

namespace c18 {


using SV = tlx::StringView;
using STD = std::string_view;
static const size_t npos = SV::npos;

// alphabet with NUL, high bytes and case pairs
static const unsigned char ALPHA[] = {0x00, 'a', 'b', 'B', 0x7F, 0x80, 0xFF};

//! exact-size heap buffer so that any read past size() hits an ASan red zone
struct Buf {
    std::unique_ptr<char[]> p;
    size_t n = 0;
    Buf() {}
    explicit Buf(const std::string& s, bool terminate = false) : p(new char[s.size() + (terminate ? 1 : 0) + 0]), n(s.size()) {
        if (n) memcpy(p.get(), s.data(), n);
        if (terminate) p[n] = 0;
    }
    const char* data() const { return p.get(); }
};

inline std::string gen_str(pbt::Source& src, size_t maxlen, bool no_nul) {
    size_t n = (size_t)src.range(0, (int64_t)maxlen);
    std::string s;
    for (size_t i = 0; i < n; ++i) {
        unsigned char c = ALPHA[src.range(0, sizeof(ALPHA) - 1)];
        if (no_nul && c == 0) c = 'a';
        s += (char)c;
    }
    return s;
}

inline size_t gen_pos(pbt::Source& src, size_t len) {
    // 0..len+2, npos, npos-1
    int64_t r = src.range(0, (int64_t)len + 4);
    if (r <= (int64_t)len + 2) return (size_t)r;
    return r == (int64_t)len + 3 ? npos : npos - 1;
}

struct Res {
    bool threw = false;
    long long v = 0;
    std::string s;
    bool operator==(const Res& o) const { return threw == o.threw && (threw || (v == o.v && s == o.s)); }
};
inline std::ostream& operator<<(std::ostream& os, const Res& r) {
    if (r.threw) return os << "throws out_of_range";
    os << r.v;
    if (!r.s.empty()) os << " " << pbt::show_bytes(r.s);
    return os;
}
inline int sgn(int x) { return x < 0 ? -1 : x > 0 ? 1 : 0; }

template <class F>
Res eval(F f) {
    Res r;
    try {
        f(r);
    } catch (const std::out_of_range&) {
        r.threw = true;
        r.v = 0;
        r.s.clear();
    }
    return r;
}

#define QUERY(NAME, TLX_EXPR, STD_EXPR)                                                          \
    {                                                                                            \
        qname = NAME;                                                                            \
        rt = eval([&](Res& r) { TLX_EXPR; });                                                    \
        rs = eval([&](Res& r) { STD_EXPR; });                                                    \
    }


//! like QUERY, for blocks that contain top-level commas
template <class FT, class FS>
void query(const char*& qname, Res& rt, Res& rs, const char* name, FT ft, FS fs) {
    qname = name;
    rt = eval(ft);
    rs = eval(fs);
}

} // namespace c18

using namespace c18;
