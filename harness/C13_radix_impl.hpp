// C13 (part 3) — type-erased wrapper around tlx::RadixHeapPair<K, int, Radix>.  Keys cross the interface as
// *ranks* (uint64: number of representable keys smaller than the key), so the monotone history in C13_radix.cpp is
// compiled once; the 8 key types x 6 radices are thin forwarders, one TU per key width (C13_radix_w*.cpp).
#pragma once
#include <cstdint>
#include <cstdlib>
#include <limits>
#include <type_traits>
#include <utility>
#include <vector>

#include <tlx/container/radix_heap.hpp>

namespace c13 {

typedef std::pair<uint64_t, int> RV; // (rank of key, payload id)

struct IRadix {
    virtual ~IRadix() {}
    //! how: 0 push, 1 emplace(key, key, id), 2 emplace_keyfirst, 3 get_bucket + push_to_bucket, 4 get_bucket + emplace_in_bucket
    virtual size_t insert(unsigned how, uint64_t rank, int id) = 0;
    virtual RV top() = 0;
    virtual void pop() = 0;
    virtual void swap_top_bucket(std::vector<RV>& out) = 0;
    virtual uint64_t peak_top_rank() = 0;
    virtual size_t size() = 0;
    virtual bool empty() = 0;
    virtual void clear() = 0;
    virtual void copy_move(unsigned how) = 0;
    //! (types target only) insert a copy of the heap's own top element through the reference top() returned;
    //! returns what top() showed. how: 0 push, 1 push_to_bucket, 2 emplace_in_bucket, 3 emplace
    virtual RV insert_top(unsigned) { abort(); }
    virtual long long show(uint64_t rank) = 0; // key as number for messages
};

template <class K, unsigned R>
struct RadixImpl : IRadix {
    typedef typename std::make_unsigned<K>::type UK;
    typedef std::numeric_limits<K> lim;
    typedef std::pair<K, int> Value;
    typedef tlx::RadixHeapPair<K, int, R> Heap;
    Heap h;
    // rank = number of representable keys smaller than k (independent of tlx' IntegerRank)
    static uint64_t rank(K k) { return (UK)((UK)k - (UK)lim::min()); }
    static K unrank(uint64_t r) { return (K)(UK)((UK)r + (UK)lim::min()); }
    size_t insert(unsigned how, uint64_t r, int id) override {
        K k = unrank(r);
        switch (how) {
        case 0: return h.push(Value(k, id));
        case 1: return h.emplace(k, k, id);
        case 2: return h.emplace_keyfirst(k, id);
        case 3: {
            Value v(k, id);
            size_t idx = h.get_bucket(v);
            h.push_to_bucket(idx, v);
            return idx;
        }
        default: {
            size_t idx = h.get_bucket_key(k);
            h.emplace_in_bucket(idx, k, id);
            return idx;
        }
        }
    }
    RV top() override {
        const Value& v = h.top();
        return RV(rank(v.first), v.second);
    }
    void pop() override { h.pop(); }
    void swap_top_bucket(std::vector<RV>& out) override {
        std::vector<Value> ex; // the exchange bucket has to be empty
        h.swap_top_bucket(ex);
        for (const Value& v : ex) out.push_back(RV(rank(v.first), v.second));
    }
    uint64_t peak_top_rank() override { return rank(h.peak_top_key()); }
    size_t size() override { return h.size(); }
    bool empty() override { return h.empty(); }
    void clear() override { h.clear(); }
    void copy_move(unsigned how) override {
        if (how == 0) {
            Heap c(h);
            h.clear();
            h = std::move(c);
        } else if (how == 1) {
            Heap m(std::move(h));
            h = m;
        } else {
            Heap c;
            c.push(Value(lim::max(), 0));
            c = h;
            h = c;
        }
    }
    long long show(uint64_t r) override { return (long long)unrank(r); }
};

template <class K>
IRadix* make_radix_k(unsigned rsel) {
    switch (rsel) {
    case 0: return new RadixImpl<K, 2>();
    case 1: return new RadixImpl<K, 4>();
    case 2: return new RadixImpl<K, 8>();
    case 3: return new RadixImpl<K, 16>();
    case 4: return new RadixImpl<K, 32>();
    default: return new RadixImpl<K, 64>();
    }
}
// defined in the per-width TUs; rsel selects the radix {2,4,8,16,32,64}
IRadix* make_radix_w8(bool is_signed, unsigned rsel);
IRadix* make_radix_w16(bool is_signed, unsigned rsel);
IRadix* make_radix_w32(bool is_signed, unsigned rsel);
IRadix* make_radix_w64(bool is_signed, unsigned rsel);

} // namespace c13
