#include "C04_ps5_sched.hpp"
C04_CONFIG(P2, 32, 4, uint64_t, ClsTree, 3, false, false);
C04_CONFIG(P3, 8, 2, uint32_t, ClsEqual, 2, true, false);
