// C05 — plain int, std::vector iterators, std::less (also the defaulted comparator argument), unstable entry points
#include "C05_merge.hpp"

namespace c05 {
void run_int_less_u(pbt::Source& src, const Cfg& cfg) { run_case<int, false, false>(src, cfg, std::less<int>()); }
} // namespace c05
