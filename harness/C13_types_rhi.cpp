// C13 (types) — DAryHeap<SRec, 5..8, {less, one state-owning comparator per arity}> instantiations
#include "C13_types_impl.hpp"
namespace c13t {
IDaryT* make_dary_r_hi(unsigned arity, unsigned ck, const std::vector<int>* prio) { return make_dary_t_hi<SRec>(arity, ck, prio); }
} // namespace c13t
