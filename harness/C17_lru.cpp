// C17 (part 1) — tlx::LruCacheSet / LruCacheMap vs. a reference recency list.
// Reference: std::list<(key,value)>, front = most recently put/touched.  "Touched" = touch, touch_if_exists,
// get_touch (get() is a plain lookup in the implementation *and* is distinguished from get_touch by name, so the
// reference does not reorder on get()).
#include "../engine/pbt.hpp"
#include "../engine/tracked.hpp"

#include <list>
#include <stdexcept>
#include <utility>

#include <tlx/container/lru_cache.hpp>

namespace {

using verif::Tracked;

inline int val(int x) { return x; }
inline int val(const Tracked& t) { return t.value(); }

typedef std::list<std::pair<int, int>> Ref;

std::string show(const Ref& r) {
    std::ostringstream os;
    os << "[";
    bool first = true;
    for (auto& e : r) {
        os << (first ? "" : " ") << e.first << ":" << e.second;
        first = false;
    }
    os << "] (most recent first)";
    return os.str();
}

//! uniform view on the two caches
template <class K, bool IsMap>
struct CacheOps;
template <class K>
struct CacheOps<K, false> {
    typedef tlx::LruCacheSet<K, verif::CountingAllocator<K>> Cache;
    static void put(Cache& c, int k, int) { c.put(K(k)); }
    static std::pair<int, int> pop(Cache& c, int v_expected) {
        K k = c.pop();
        return std::make_pair(val(k), v_expected);
    }
};
template <class K>
struct CacheOps<K, true> {
    typedef tlx::LruCacheMap<K, K, verif::CountingAllocator<std::pair<K, K>>> Cache;
    static void put(Cache& c, int k, int v) { c.put(K(k), K(v)); }
    static std::pair<int, int> pop(Cache& c, int) {
        std::pair<K, K> p = c.pop();
        return std::make_pair(val(p.first), val(p.second));
    }
};

template <class Cache, class K>
int get_value(Cache& c, int k, bool touch, std::true_type) {
    return touch ? val(c.get_touch(K(k))) : val(c.get(K(k)));
}
template <class Cache, class K>
int get_value(Cache&, int, bool, std::false_type) {
    return 0;
}

template <class K, bool IsMap>
void lru_history(pbt::Source& src) {
    typedef CacheOps<K, IsMap> Ops;
    typedef typename Ops::Cache Cache;
    verif::Ledger::get().reset();
    verif::AllocLedger::get().reset();
    const int U = (int)src.range(1, 8);
    {
        Cache c;
        Ref ref;
        bool reordered = false, nt = false;
        auto find = [&](int k) {
            auto it = ref.begin();
            while (it != ref.end() && it->first != k) ++it;
            return it;
        };
        auto to_front = [&](Ref::iterator it) {
            if (it != ref.begin()) reordered = true;
            ref.splice(ref.begin(), ref, it);
        };
        auto check = [&](const char* after) {
            PBT_CHECK(c.size() == ref.size(), "C17/lru-size", "after " << after << ": size() " << c.size() << " but reference " << show(ref));
            const Cache& cc = c;
            for (int k = 0; k < U + 1; ++k) {
                bool want = find(k) != ref.end();
                PBT_CHECK(cc.exists(K(k)) == want, "C17/lru-exists", "after " << after << ": exists(" << k << ") = " << cc.exists(K(k)) << " but reference " << show(ref));
            }
        };
        unsigned nops = 0;
        check("construction");
        while (src.more() && nops < 150) {
            ++nops;
            unsigned op = (unsigned)src.weighted({12, 5, 3, 2, 2, 3, 3, 5, 1});
            int k;
            if (op != 0 && !ref.empty() && src.chance(150)) { // mostly keys that are stored
                auto pit = ref.begin();
                std::advance(pit, src.index(ref.size()));
                k = pit->first;
            } else k = (int)src.range(0, U); // U itself is never stored: an always-absent key
            if (k == U && op == 0) k = 0;
            auto it = find(k);
            bool present = it != ref.end();
            if (ref.empty() && op != 0 && op != 7) pbt::label("op_on_empty"), nt = true;
            switch (op) {
            case 0: {
                int v = IsMap ? (int)src.range(0, 9) : 0;
                PBT_LOG("put(" << k << (IsMap ? "," + std::to_string(v) : std::string()) << ")" << (present ? " [replace]" : "") << "\n");
                Ops::put(c, k, v);
                if (present) {
                    if (it != ref.begin()) reordered = true;
                    ref.erase(it);
                    pbt::label("put_replace");
                }
                ref.emplace_front(k, v);
                pbt::label("put");
                break;
            }
            case 1: {
                PBT_LOG("touch(" << k << ")" << (present ? "" : " [absent]") << "\n");
                bool threw = false;
                try {
                    c.touch(K(k));
                } catch (const std::range_error&) {
                    threw = true;
                }
                PBT_CHECK(threw == !present, "C17/lru-exception", "touch(" << k << ") " << (threw ? "threw" : "did not throw") << " std::range_error; reference " << show(ref));
                if (present) to_front(it);
                pbt::label(present ? "touch" : "touch_absent");
                break;
            }
            case 2: {
                PBT_LOG("touch_if_exists(" << k << ")\n");
                bool r = c.touch_if_exists(K(k));
                PBT_CHECK(r == present, "C17/lru-touch_if_exists", "touch_if_exists(" << k << ") = " << r << "; reference " << show(ref));
                if (present) to_front(it);
                pbt::label("touch_if_exists");
                break;
            }
            case 3: {
                PBT_LOG("erase(" << k << ")" << (present ? "" : " [absent]") << "\n");
                bool threw = false;
                try {
                    c.erase(K(k));
                } catch (const std::range_error&) {
                    threw = true;
                }
                PBT_CHECK(threw == !present, "C17/lru-exception", "erase(" << k << ") " << (threw ? "threw" : "did not throw") << " std::range_error; reference " << show(ref));
                if (present) ref.erase(it);
                pbt::label(present ? "erase" : "erase_absent");
                break;
            }
            case 4: {
                PBT_LOG("erase_if_exists(" << k << ")\n");
                bool r = c.erase_if_exists(K(k));
                PBT_CHECK(r == present, "C17/lru-erase_if_exists", "erase_if_exists(" << k << ") = " << r << "; reference " << show(ref));
                if (present) ref.erase(it);
                pbt::label("erase_if_exists");
                break;
            }
            case 5:
            case 6: {
                if (!IsMap) continue;
                bool touch = op == 6;
                PBT_LOG((touch ? "get_touch(" : "get(") << k << ")" << (present ? "" : " [absent]") << "\n");
                bool threw = false;
                int v = 0;
                try {
                    v = get_value<Cache, K>(c, k, touch, std::integral_constant<bool, IsMap>());
                } catch (const std::range_error&) {
                    threw = true;
                }
                PBT_CHECK(threw == !present, "C17/lru-exception", (touch ? "get_touch(" : "get(") << k << ") " << (threw ? "threw" : "did not throw") << " std::range_error; reference " << show(ref));
                if (present) {
                    PBT_CHECK(v == it->second, "C17/lru-value", (touch ? "get_touch(" : "get(") << k << ") = " << v << " but the latest value is " << it->second);
                    if (touch) to_front(it);
                }
                pbt::label(touch ? "get_touch" : "get");
                break;
            }
            case 7: {
                if (ref.empty()) continue;
                std::pair<int, int> want = ref.back();
                std::pair<int, int> got = Ops::pop(c, want.second);
                PBT_LOG("pop() -> " << got.first << ":" << got.second << "\n");
                PBT_CHECK(got == want, "C17/lru-pop-order", "pop() returned " << got.first << ":" << got.second << " but the least recently used entry is " << want.first << ":" << want.second << "; reference " << show(ref));
                ref.pop_back();
                if (reordered) nt = true, pbt::label("pop_after_reorder");
                pbt::label("pop");
                break;
            }
            default: {
                PBT_LOG("clear()\n");
                c.clear();
                ref.clear();
                pbt::label("clear");
                break;
            }
            }
            check("op");
            if (ref.size() >= 5) pbt::label("size>=5");
        }
        // drain: the complete recency order
        PBT_LOG("drain:");
        while (!ref.empty()) {
            PBT_CHECK(c.size() == ref.size(), "C17/lru-size", "drain: size() " << c.size() << " but reference " << show(ref));
            std::pair<int, int> want = ref.back();
            std::pair<int, int> got = Ops::pop(c, want.second);
            PBT_LOG(" " << got.first << ":" << got.second);
            PBT_CHECK(got == want, "C17/lru-pop-order", "drain: pop() returned " << got.first << ":" << got.second << " but the least recently used entry is " << want.first << ":" << want.second << "; reference " << show(ref));
            ref.pop_back();
        }
        PBT_LOG("\n");
        PBT_CHECK(c.size() == 0, "C17/lru-size", "size() " << c.size() << " after draining the reference");
        if (nt) pbt::nontrivial();
    }
    PBT_CHECK(verif::Ledger::get().live_count() == 0, "C17/lru-leak", verif::Ledger::get().live_count() << " key/value objects alive after the cache was destroyed");
    PBT_CHECK(verif::AllocLedger::get().live_count() == 0, "C17/lru-leak", verif::AllocLedger::get().live_count() << " blocks not freed after the cache was destroyed");
}

} // namespace

PBT_PROPERTY(lru) {
    unsigned kind = (unsigned)src.range(0, 3);
    switch (kind) {
    case 0:
        pbt::label("LruCacheSet<int>");
        PBT_LOG("LruCacheSet<int>\n");
        return lru_history<int, false>(src);
    case 1:
        pbt::label("LruCacheMap<int,int>");
        PBT_LOG("LruCacheMap<int,int>\n");
        return lru_history<int, true>(src);
    case 2:
        pbt::label("LruCacheSet<Tracked>");
        PBT_LOG("LruCacheSet<Tracked>\n");
        return lru_history<Tracked, false>(src);
    default:
        pbt::label("LruCacheMap<Tracked,Tracked>");
        PBT_LOG("LruCacheMap<Tracked,Tracked>\n");
        return lru_history<Tracked, true>(src);
    }
}
