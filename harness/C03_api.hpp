// C03 — public-API completeness target `sort_api` (shared runner, included by harness/C03_api_*.cpp).
//
// What the older targets never call or never observe, and this one does:
//  * the string-set types CharStringSet / CCharStringSet (plain `char` strings) handed directly to the detail sorters
//    (the public front-ends cast char** to unsigned char** and therefore never instantiate them);
//  * a start depth != 0 for the seven detail sorters (precondition used by every caller inside tlx: all strings of the
//    set share their first `depth` characters; LCP values stay absolute);
//  * a string set / StringPtr that covers only a WINDOW of a larger array: Set(begin+off, begin+off+n), set.sub(),
//    set.subi(), StringPtr::sub(off, n) / StringLcpPtr::sub(off, n), and the pointer+size front-ends on strings+off:
//    the slots and LCP entries outside the window are observed to be untouched;
//  * StringLcpPtr with an LcpType other than uint32_t (uint64_t);
//  * the alternative public constructors: Set(Container&) and StringSuffixSet::Initialize(text, sa);
//  * the observers StringLcpPtr::lcp() / get_lcp(i) and StringSetBase::at(i) after sorting.
// Oracle: exactly that of the other C03 targets (permutation of the original objects, own unsigned-byte comparison,
// exact lcp[i] for i >= 1 of the window, poisoned exact-size arrays, ASan/UBSan).
#pragma once
#include "C03_runner.hpp"

namespace c03 {

enum ApiRep { AR_CHAR = 0, AR_CCHAR, AR_UCHAR, AR_CUCHAR, AR_STD, AR_UPTR, AR_SUFFIX, NAREP };
static const char* const AREP_NAME[] = {"CharStringSet", "CCharStringSet", "UCharStringSet", "CUCharStringSet",
                                        "StdStringSet",  "UPtrStdStringSet", "StringSuffixSet"};
enum WinForm { W_DIRECT = 0, W_PTRSUB, W_SUBI, W_SUB, NWINFORM };
static const char* const WIN_NAME[] = {"Set(begin+off,begin+off+n)", "StringPtr(whole).sub(off,n)", "whole.subi(off,off+n)",
                                       "whole.sub(begin+off,begin+off+n)"};

struct ApiCase : Case {
    int arep = 0;
    int lcpmode = 0;       // 0 none, 1 uint32_t, 2 uint64_t
    size_t off = 0, tail = 0; // guard slots before / after the window
    int winform = 0;
    int ctor = 0;          // 0 (begin,end); 1 Set(Container&); 2 StringSuffixSet::Initialize (suffix only)
    unsigned depth_sel = 0; // 0: depth 0; else a depth in 1..(common prefix of all strings)
    mutable size_t depth = 0;
};

void api_char(const ApiCase& c);
void api_cchar(const ApiCase& c);
void api_uchar(const ApiCase& c);
void api_cuchar(const ApiCase& c);
void api_std(const ApiCase& c);
void api_uptr(const ApiCase& c);
void api_suffix(const ApiCase& c);

inline std::string api_describe(const ApiCase& c, size_t n) {
    std::ostringstream os;
    os << AREP_NAME[c.arep] << " " << ALGO_NAME[c.algo];
    if (c.algo == A_FRONT) os << "#" << c.front;
    static const char* const LM[] = {"", " +lcp<uint32_t>", " +lcp<uint64_t>"};
    os << LM[c.lcpmode] << " n=" << n << " depth=" << c.depth << " memory=" << c.memory << " window=[" << c.off << "," << c.off + n
       << ") of " << c.off + n + c.tail << " via " << WIN_NAME[c.winform] << " ctor#" << c.ctor;
    return os.str();
}

template <class L>
struct Poison {
    static L value() {
        L v;
        memset(&v, 0xA5, sizeof(v));
        return v;
    }
};

template <class SP>
void call_detail_depth(int algo, const SP& sp, size_t depth, size_t mem) {
    switch (algo) {
    case A_INS: ssd::insertion_sort(sp, depth, mem); break;
    case A_MKQS: ssd::multikey_quicksort(sp, depth, mem); break;
    case A_CE0: ssd::radixsort_CE0(sp, depth, mem); break;
    case A_CE2: ssd::radixsort_CE2(sp, depth, mem); break;
    case A_CE3: ssd::radixsort_CE3(sp, depth, mem); break;
    case A_CI2: ssd::radixsort_CI2(sp, depth, mem); break;
    default: ssd::radixsort_CI3(sp, depth, mem); break;
    }
}

//! StringPtr / StringLcpPtr factory; L = void: no LCP output
template <class Set, class L>
struct PtrOf {
    typedef ssd::StringLcpPtr<Set, L> type;
    static type make(const Set& ss, L* lcp) { return type(ss, lcp); }
    static void observe(const ApiCase& c, const type& sp, L* lcp, size_t n) {
        PBT_CHECK(sp.lcp() == lcp, "C03/lcp-observer", api_describe(c, n) << ": StringLcpPtr::lcp() is not the array it was built with");
        for (size_t i = 1; i < n; ++i)
            PBT_CHECK(sp.get_lcp(i) == lcp[i], "C03/lcp-observer",
                      api_describe(c, n) << ": get_lcp(" << i << ")=" << (uint64_t)sp.get_lcp(i) << " but the array holds " << (uint64_t)lcp[i]);
    }
};
template <class Set>
struct PtrOf<Set, void> {
    typedef ssd::StringPtr<Set> type;
    static type make(const Set& ss, void*) { return type(ss); }
    static void observe(const ApiCase&, const type&, void*, size_t) {}
};

/*!
 * RepT interface (window-aware):
 *   typedef Set;
 *   void build(const ApiCase&);   N = off + n + tail slots, guards outside the window; may normalise c.ctor / c.off / c.tail
 *   size_t n();                    window size
 *   Set whole();  Set direct(const ApiCase&);  (direct honours c.ctor)
 *   bool call_front(const ApiCase&, uint32_t* lcp_window, size_t mem);  pointer+size front-end on the window
 *   void check_guards(const ApiCase&);       slots outside the window hold what they held before
 *   void check_before_order(const ApiCase&); window is a permutation of the original objects
 *   std::pair<const unsigned char*, size_t> view(size_t i);   i-th string of the window
 *   void check_after_order(const ApiCase&);
 */
template <class RepT, class L>
void run_api(const ApiCase& c) {
    typedef typename RepT::Set Set;
    typedef PtrOf<Set, L> P;
    typedef typename P::type SP;
    typedef typename std::conditional<std::is_void<L>::value, char, L>::type Cell;
    RepT rep;
    rep.build(c);
    const size_t n = rep.n(), N = c.off + n + c.tail;

    // start depth: any value up to the length of the prefix common to ALL strings of the window
    size_t common = 0;
    if (n >= 1 && c.depth_sel != 0 && c.algo != A_FRONT) {
        std::pair<const unsigned char*, size_t> f = rep.view(0);
        common = f.second;
        for (size_t i = 1; i < n && common > 0; ++i) {
            std::pair<const unsigned char*, size_t> s = rep.view(i);
            common = std::min(common, compare(f.first, f.second, s.first, s.second).lcp);
        }
    }
    c.depth = 0;
    if (common > 0) {
        switch (c.depth_sel % 4) {
        case 1: c.depth = common; break;
        case 2: c.depth = 1; break;
        case 3: c.depth = common - std::min<size_t>(common - 1, 1); break; // common-1 (>= 1)
        default: c.depth = 1 + (c.depth_sel / 4) % common; break;
        }
    }

    std::unique_ptr<Cell[]> lcp;
    Cell* lw = nullptr; // lcp of the window
    const bool with_lcp = !std::is_void<L>::value;
    if (with_lcp) {
        lcp.reset(new Cell[N]); // exact size
        std::fill(lcp.get(), lcp.get() + N, Poison<Cell>::value());
        lw = lcp.get() + c.off;
    }
    c.memory = compute_memory<SP>(c, n);
    // labels
    {
        static const char* const RL[] = {"rep:char", "rep:cchar", "rep:uchar", "rep:cuchar", "rep:std", "rep:uptr", "rep:suffix"};
        static const char* const AL[] = {"algo:insertion", "algo:mkqs", "algo:CE0", "algo:CE2", "algo:CE3", "algo:CI2", "algo:CI3",
                                         "algo:frontend-window"};
        static const char* const LL[] = {"lcp:off", "lcp:uint32", "lcp:uint64"};
        static const char* const WL[] = {"win:direct", "win:StringPtr::sub", "win:subi", "win:sub"};
        static const char* const CL[] = {"ctor:begin-end", "ctor:container", "ctor:Initialize"};
        pbt::label(RL[c.arep]);
        pbt::label(AL[c.algo]);
        pbt::label(LL[c.lcpmode]);
        pbt::label(WL[c.winform]);
        pbt::label(CL[c.ctor]);
        if (c.off || c.tail) pbt::label("window:proper");
        if (c.depth == 0) pbt::label("depth:0");
        else if (c.depth == common) pbt::label("depth:=common-prefix");
        else pbt::label("depth:<common-prefix");
        if (c.depth >= 8) pbt::label("depth>=8");
        if (n <= 1) pbt::label("n<=1");
        else if (n < 32) pbt::label("n<32");
        else if (n < 300) pbt::label("n>=32");
        else pbt::label("n>=300");
        if (n == 31 || n == 32) pbt::label("n=threshold");
        label_memory<SP>(c, n);
    }
    PBT_LOG("call: " << api_describe(c, n) << " (common prefix of all strings: " << common << ")\n");

    if (c.algo == A_FRONT) {
        bool ok = rep.call_front(c, reinterpret_cast<uint32_t*>(lw), c.memory);
        if (!ok) {
            pbt::inconclusive();
            return;
        }
    } else {
        Set whole = rep.whole();
        switch (c.winform) {
        case W_PTRSUB: {
            SP all = P::make(whole, reinterpret_cast<L*>(lcp.get()));
            SP sub = all.sub(c.off, n);
            PBT_CHECK(sub.size() == n && sub.active().size() == n, "C03/sub-size", api_describe(c, n) << ": sub(off, n).size() = " << sub.size());
            call_detail_depth(c.algo, sub, c.depth, c.memory);
            P::observe(c, sub, reinterpret_cast<L*>(lw), n);
            break;
        }
        case W_SUBI: {
            Set w = whole.subi(c.off, c.off + n);
            PBT_CHECK(w.size() == n, "C03/sub-size", api_describe(c, n) << ": subi(off, off+n).size() = " << w.size());
            SP sp = P::make(w, reinterpret_cast<L*>(lw));
            call_detail_depth(c.algo, sp, c.depth, c.memory);
            P::observe(c, sp, reinterpret_cast<L*>(lw), n);
            break;
        }
        case W_SUB: {
            Set w = whole.sub(whole.begin() + c.off, whole.begin() + c.off + n);
            PBT_CHECK(w.size() == n, "C03/sub-size", api_describe(c, n) << ": sub(b, e).size() = " << w.size());
            SP sp = P::make(w, reinterpret_cast<L*>(lw));
            call_detail_depth(c.algo, sp, c.depth, c.memory);
            P::observe(c, sp, reinterpret_cast<L*>(lw), n);
            break;
        }
        default: {
            Set w = rep.direct(c);
            PBT_CHECK(w.size() == n, "C03/sub-size", api_describe(c, n) << ": set.size() = " << w.size());
            SP sp = P::make(w, reinterpret_cast<L*>(lw));
            call_detail_depth(c.algo, sp, c.depth, c.memory);
            P::observe(c, sp, reinterpret_cast<L*>(lw), n);
            // at(i) is the i-th slot of the window
            for (size_t i = 0; i < n; i += (n / 7) + 1)
                PBT_CHECK(&w.at(i) == &*(w.begin() + i), "C03/at", api_describe(c, n) << ": at(" << i << ") is not slot " << i);
            break;
        }
        }
    }

    // outside the window nothing may have been touched
    rep.check_guards(c);
    if (with_lcp) {
        const Cell poison = Poison<Cell>::value();
        for (size_t i = 0; i < N; ++i) {
            if (i >= c.off && i < c.off + n) continue;
            PBT_CHECK(lcp[i] == poison, "C03/lcp-outside-window",
                      api_describe(c, n) << ": lcp entry " << i << " outside the window was overwritten with " << (uint64_t)lcp[i]);
        }
    }
    rep.check_before_order(c);
    // order + exact LCP inside the window
    bool nt = false;
    for (size_t i = 1; i < n; ++i) {
        std::pair<const unsigned char*, size_t> a = rep.view(i - 1), b = rep.view(i);
        Cmp r = compare(a.first, a.second, b.first, b.second);
        PBT_CHECK(r.leq, "C03/order",
                  api_describe(c, n) << ": output[" << i - 1 << "]=" << pbt::show_bytes(a.first, std::min<size_t>(a.second, 80)) << " > output["
                                     << i << "]=" << pbt::show_bytes(b.first, std::min<size_t>(b.second, 80)));
        if (with_lcp)
            PBT_CHECK((uint64_t)lw[i] == (uint64_t)r.lcp, "C03/lcp",
                      api_describe(c, n) << ": lcp[" << i << "]=" << (uint64_t)lw[i] << (lw[i] == Poison<Cell>::value() ? " (never written)" : "")
                                         << " but common prefix of " << pbt::show_bytes(a.first, std::min<size_t>(a.second, 80)) << " and "
                                         << pbt::show_bytes(b.first, std::min<size_t>(b.second, 80)) << " is " << r.lcp);
        if (r.lcp >= 1 || r.equal) nt = true;
    }
    if (n >= 2 && nt) pbt::nontrivial();
    rep.check_after_order(c);
}

template <class RepT>
void run_api_modes(const ApiCase& c) {
    switch (c.lcpmode) {
    case 0: run_api<RepT, void>(c); break;
    case 1: run_api<RepT, uint32_t>(c); break;
    default: run_api<RepT, uint64_t>(c); break;
    }
}

/******************************************************************************/
// C-string representations: CharT in {char, const char, unsigned char, const unsigned char}

static const char* const GUARD_BEFORE = "\x7f\x7f\x7f\x7f~guard-before"; // larger than most strings
static const char* const GUARD_AFTER = "";                                // smaller than everything

template <class CharT>
struct ApiCharRep {
    typedef ssd::GenericCharStringSet<CharT> Set;
    typedef typename std::remove_const<CharT>::type MChar;
    std::vector<std::unique_ptr<MChar[]>> bufs; // exact-size NUL-terminated buffer per slot
    std::vector<std::string> content;           // what each buffer holds
    std::vector<CharT*> arr, orig;              // exactly N slots
    size_t off = 0, nn = 0;
    typename Set::Container cont;

    void build(const ApiCase& c) {
        off = c.off;
        nn = c.strs.size();
        size_t N = c.off + nn + c.tail;
        bufs.resize(N);
        content.resize(N);
        arr = std::vector<CharT*>(N);
        for (size_t i = 0; i < N; ++i) {
            content[i] = i < off ? std::string(GUARD_BEFORE) : i < off + nn ? c.strs[i - off] : std::string(GUARD_AFTER);
            const std::string& s = content[i];
            bufs[i].reset(new MChar[s.size() + 1]);
            if (!s.empty()) memcpy(bufs[i].get(), s.data(), s.size());
            bufs[i][s.size()] = 0;
            arr[i] = bufs[i].get();
        }
        orig = arr;
    }
    size_t n() const { return nn; }
    Set whole() { return Set(arr.data(), arr.data() + arr.size()); }
    Set direct(const ApiCase& c) {
        if (c.ctor == 1) {
            cont = typename Set::Container(arr.data() + off, nn);
            return Set(cont);
        }
        return Set(arr.data() + off, arr.data() + off + nn);
    }
    //! the four pointer+size front-ends (char**, const char**, unsigned char**, const unsigned char**) on strings + off
    bool call_front(const ApiCase& c, uint32_t* lcp, size_t mem) {
        bool dflt = (mem == 0 && (c.mem_rsel & 1)); // use the defaulted memory argument
        CharT** p = arr.data() + off;
        if (c.lcpmode == 0) dflt ? tlx::sort_strings(p, nn) : tlx::sort_strings(p, nn, mem);
        else dflt ? tlx::sort_strings_lcp(p, nn, lcp) : tlx::sort_strings_lcp(p, nn, lcp, mem);
        return true;
    }

    void check_guards(const ApiCase& c) {
        for (size_t i = 0; i < arr.size(); ++i) {
            if (i >= off && i < off + nn) continue;
            PBT_CHECK(arr[i] == orig[i], "C03/outside-window", api_describe(c, nn) << ": slot " << i << " outside the window was changed");
        }
    }
    void check_before_order(const ApiCase& c) {
        std::vector<CharT*> a(arr.begin() + off, arr.begin() + off + nn), b(orig.begin() + off, orig.begin() + off + nn);
        std::sort(a.begin(), a.end());
        std::sort(b.begin(), b.end());
        for (size_t i = 0; i < a.size(); ++i)
            PBT_CHECK(a[i] == b[i], "C03/permutation",
                      api_describe(c, nn) << ": output is not a permutation of the original pointers (sorted pointer lists differ at " << i << ")");
    }
    std::pair<const unsigned char*, size_t> view(size_t i) {
        const unsigned char* p = reinterpret_cast<const unsigned char*>(arr[off + i]);
        return std::make_pair(p, strlen((const char*)p));
    }
    void check_after_order(const ApiCase& c) {
        for (size_t i = 0; i < bufs.size(); ++i) {
            const std::string& s = content[i];
            PBT_CHECK(memcmp(bufs[i].get(), s.data(), s.size()) == 0 && bufs[i][s.size()] == 0, "C03/content-changed",
                      api_describe(c, nn) << ": bytes of the string in original slot " << i << " were modified");
        }
    }
};

} // namespace c03
