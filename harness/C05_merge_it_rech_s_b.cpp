// C05 — target merge_iters: RecH, stable entry points, (input iterator kind, output iterator kind) pairs 4..7, owning comparator
#include "C05_merge.hpp"

namespace c05 {
void run_it_rech_s_b(pbt::Source& src, const Cfg& cfg) { run_iters_b<RecH, true>(src, cfg); }
} // namespace c05
