// C05 — target merge_advance: dispatcher + the trivially copyable element types (see C05_merge_advance.hpp)
#include "C05_merge_advance.hpp"

PBT_PROPERTY(merge_advance) {
    // ---- selectors first
    const int fn = (int)src.range(0, 2);                    // merge_advance | merge_advance_movc | merge_advance_usual
    const int type = (int)src.weighted({2, 2, 2, 3, 3});    // int, rec8, rec40 | rech, recs (not trivially copy constructible)
    const int pair = (int)src.range(0, 3);                  // (iterator1, iterator2, output, DiffType) combination
    const bool desc = src.boolean();
    switch (type) {
    case 0: c05ma::run_type<int>(src, fn, pair, desc); break;
    case 1: c05ma::run_type<c05::Rec8>(src, fn, pair, desc); break;
    case 2: c05ma::run_type<c05::Rec40>(src, fn, pair, desc); break;
    default: c05ma::run_owning(src, type, fn, pair, desc); break;
    }
}
