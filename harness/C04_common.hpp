// C04 — shared pieces: string-multiset generator and the sorted-permutation + exact-LCP oracle.
#pragma once
#include "../engine/pbt.hpp"

#include <algorithm>
#include <cstdint>
#include <cstring>
#include <string>
#include <vector>

namespace c04 {

struct Input {
    std::vector<std::string> strs;          // owned, NUL-free
    std::vector<unsigned char*> ptrs;        // the array that gets sorted
    std::vector<const unsigned char*> orig;  // original pointer multiset
    std::vector<uint32_t> lcp;
    const char* shape = "";
};

static const uint32_t POISON = 0xABCD1234u;

//! strings over 0x01..0xFF constructed for deep recursion: small alphabets, shared prefixes,
//! duplicates, empties, prefix chains; plus the degenerate classes named in the property
inline void gen_input(pbt::Source& src, Input& in, size_t max_n, size_t keybytes) {
    int shape = (int)src.weighted({6, 2, 2, 2, 2, 1});
    static const char* names[] = {"generic", "all_equal", "all_shorter_than_key", "one_giant_bucket", "two_distinct", "prefix_chain"};
    in.shape = names[shape];
    size_t n = (size_t)src.range(0, (int64_t)max_n);
    static const unsigned char ALPHAS[4][4] = {{'a', 'a', 'a', 'a'}, {'a', 'b', 'a', 'b'}, {'a', 'b', 0xFF, 0x01}, {0x80, 'a', 0xFF, 0x7F}};
    const unsigned char* alpha = ALPHAS[src.range(0, 3)];
    size_t asz = (size_t)src.range(1, 4);
    // shared prefix class; the last one (250..600 bytes) crosses every 8-bit quantity in the LCP bookkeeping
    size_t plen = (size_t)src.weighted({6, 4, 4, 2, 1});
    plen = plen == 0 ? 0 : plen == 1 ? (size_t)src.range(1, 7) : plen == 2 ? (size_t)src.range(8, 20) : plen == 3 ? (size_t)src.range(21, 40) : (size_t)src.range(250, 600);
    if (plen >= 250) pbt::label("prefix>=250");
    std::string prefix;
    for (size_t i = 0; i < plen; ++i) prefix += (char)alpha[src.index(asz)];
    in.strs.clear();
    auto rnd = [&](size_t maxlen) {
        std::string s;
        size_t l = (size_t)src.range(0, (int64_t)maxlen);
        for (size_t i = 0; i < l; ++i) s += (char)alpha[src.index(asz)];
        return s;
    };
    switch (shape) {
    case 1: {
        std::string s = prefix + rnd(6);
        in.strs.assign(n, s);
        break;
    }
    case 2:
        for (size_t i = 0; i < n; ++i) in.strs.push_back(rnd(keybytes - 1));
        break;
    case 3: { // most strings identical, a few others
        std::string s = prefix + rnd(10);
        for (size_t i = 0; i < n; ++i) in.strs.push_back(src.chance(230) ? s : prefix + rnd(12));
        break;
    }
    case 4: {
        std::string a = prefix + rnd(10), b = prefix + rnd(10);
        for (size_t i = 0; i < n; ++i) in.strs.push_back(src.boolean() ? a : b);
        break;
    }
    case 5: { // every string a prefix of one long string
        std::string s = prefix + rnd(30);
        for (size_t i = 0; i < n; ++i) in.strs.push_back(s.substr(0, (size_t)src.range(0, (int64_t)s.size())));
        break;
    }
    default:
        for (size_t i = 0; i < n; ++i) {
            if (!in.strs.empty() && src.chance(48)) in.strs.push_back(in.strs[src.index(in.strs.size())]); // duplicate
            else in.strs.push_back((src.chance(200) ? prefix : std::string()) + rnd(12));
        }
    }
    in.ptrs.clear();
    for (auto& s : in.strs) in.ptrs.push_back(reinterpret_cast<unsigned char*>(&s[0]));
    // std::string::data() of an empty string is a valid "" ; keep exactly these pointers
    in.orig.assign(in.ptrs.begin(), in.ptrs.end());
    in.lcp.assign(n + 1, POISON);
}

inline size_t common_prefix(const unsigned char* a, const unsigned char* b) {
    size_t h = 0;
    while (a[h] != 0 && a[h] == b[h]) ++h;
    return h;
}

//! throws pbt::Failure via PBT_CHECK-like reporting through `report(label,msg)`
template <class Report>
void check_output(const Input& in, bool with_lcp, Report report) {
    size_t n = in.ptrs.size();
    // permutation of the original objects
    std::vector<const unsigned char*> a(in.orig), b(in.ptrs.begin(), in.ptrs.end());
    std::sort(a.begin(), a.end());
    std::sort(b.begin(), b.end());
    if (a != b) {
        report("C04/not-a-permutation", "the output is not a permutation of the original string pointers");
        return;
    }
    for (size_t i = 1; i < n; ++i) {
        const unsigned char *x = in.ptrs[i - 1], *y = in.ptrs[i];
        size_t h = common_prefix(x, y);
        if (x[h] > y[h]) {
            std::ostringstream os;
            os << "position " << i << ": " << pbt::show_bytes(x, strlen((const char*)x)) << " > " << pbt::show_bytes(y, strlen((const char*)y));
            report("C04/not-sorted", os.str());
            return;
        }
        if (with_lcp && in.lcp[i] != h) {
            std::ostringstream os;
            os << "lcp[" << i << "]=" << (in.lcp[i] == POISON ? std::string("<untouched>") : std::to_string(in.lcp[i])) << " but strings "
               << pbt::show_bytes(x, strlen((const char*)x)) << " and " << pbt::show_bytes(y, strlen((const char*)y)) << " share " << h << " bytes (n=" << n << ")";
            report("C04/wrong-lcp", os.str());
            return;
        }
    }
    if (with_lcp && n < in.lcp.size() && in.lcp[n] != POISON) report("C04/lcp-overrun", "lcp array written past n");
}

inline void describe(const Input& in) {
    if (!pbt::verbose()) return;
    PBT_LOG("shape=" << in.shape << " n=" << in.strs.size() << " strings:");
    for (size_t i = 0; i < in.strs.size() && i < 40; ++i) PBT_LOG(" " << pbt::show_bytes(in.strs[i]));
    if (in.strs.size() > 40) PBT_LOG(" ...");
    PBT_LOG("\n");
}

} // namespace c04
