// C03 — uptr representation, entry points without LCP output
#include "C03_rep_uptr_impl.hpp"
