// C19 / icase, helpers_alias, codec_extra, byte_sweep — public entry points, overloads and argument shapes that the
// original targets never call (strengthening round 4):
//
//   icase (+ icase_long)  equal_icase and less_icase, all four overloads each ((cstr,cstr) (cstr,view) (view,cstr) (view,view)),
//                  the functors less_icase_asc / less_icase_desc, cross-checked with compare_icase; separate buffers, both
//                  arguments inside ONE buffer (overlapping sub-ranges, same start / different length), the very same object
//   helpers_alias  every view-taking helper with all its view arguments pointing into ONE buffer (overlapping sub-ranges,
//                  interior sub-views with droppable / matching neighbours on both sides, C strings that are suffixes of the
//                  same buffer); histories of in-place operations on ONE re-used std::string / string_view object
//                  (to_lower/to_upper/trim*/erase_all/replace_* through the pointer forms, capacity left over from an earlier,
//                  larger content); levenshtein_algorithm<Param> with other cost / equality parameter structs
//   codec_extra    hexdump_type / hexdump_lc_type on objects of several types, hexdump_sourcecode (the data must be
//                  recoverable from the snippet), base64_encode / base64_decode with their default arguments
//   byte_sweep     EXHAUSTIVE: all 256 x 256 byte pairs (as one-character strings and embedded in a common context that differs
//                  in case) through every case-insensitive helper (levenshtein_icase both overloads, compare_icase, equal_icase,
//                  less_icase + functors, starts_with_icase, ends_with_icase; all overloads) and through the per-character
//                  helpers (contains / erase_all / replace_* / trim* / pad with a char argument, base64 of the two-byte string);
//                  all 256 bytes through to_lower / to_upper (char, in-place and copy forms) and hexdump* / parse_hexdump
//
// less_icase: documented "a < b without regard for letter case". compare_icase orders bytes as unsigned char (like strcmp),
// less_icase compares char; the documentation does not fix the order of a byte >= 0x80 against an ASCII byte, so the VALUE is
// asserted only when the first differing lower-cased bytes are both < 0x80 or both >= 0x80 (or one string is a prefix of the
// other); irreflexivity, asymmetry, trichotomy with equal_icase and the agreement of the four overloads are asserted always.
#include "C19_common.hpp"

#include <array>
#include <cstdlib>
#include <stdexcept>

#include <tlx/string/base64.hpp>
#include <tlx/string/compare_icase.hpp>
#include <tlx/string/contains.hpp>
#include <tlx/string/ends_with.hpp>
#include <tlx/string/equal_icase.hpp>
#include <tlx/string/erase_all.hpp>
#include <tlx/string/hexdump.hpp>
#include <tlx/string/join.hpp>
#include <tlx/string/less_icase.hpp>
#include <tlx/string/levenshtein.hpp>
#include <tlx/string/pad.hpp>
#include <tlx/string/replace.hpp>
#include <tlx/string/split.hpp>
#include <tlx/string/starts_with.hpp>
#include <tlx/string/to_lower.hpp>
#include <tlx/string/to_upper.hpp>
#include <tlx/string/trim.hpp>

using namespace c19;

namespace {

typedef tlx::string_view SV;
const size_t npos = std::string::npos;

int sign(int x) { return x < 0 ? -1 : x > 0 ? 1 : 0; }

//! "a < b without regard for letter case": 1 / 0, or -1 where the documentation leaves the order open (first difference
//! between a byte >= 0x80 and an ASCII byte)
int ref_less_icase(const std::string& a, const std::string& b) {
    size_t n = std::min(a.size(), b.size());
    for (size_t i = 0; i < n; ++i) {
        unsigned char x = ref_lower((unsigned char)a[i]), y = ref_lower((unsigned char)b[i]);
        if (x == y) continue;
        if ((x < 0x80) != (y < 0x80)) return -1;
        return x < y ? 1 : 0;
    }
    return a.size() < b.size() ? 1 : 0;
}

//! one argument of a two-string function, available as a C string and as a view: either in buffers of its own (exact size
//! for the view) or inside a shared pool buffer
struct Operand {
    std::string val;
    Buf own_z, own_x;
    const char* c = nullptr;
    SV v;
};
//! separate buffers (the C string form is used by the caller only if s has no NUL)
void bind_own(Operand& o, const std::string& s) {
    o.val = s;
    o.own_z = Buf(s, true), o.own_x = Buf(s);
    o.c = o.own_z.data(), o.v = o.own_x.view();
}
//! inside `base`, which holds the NUL-free pool (plus a terminator if any C string is needed); a C string must be a suffix
//! of the pool, otherwise it gets a buffer of its own
void bind_pool(Operand& o, const std::string& pool, const Buf& base, size_t off, size_t len, bool terminated) {
    o.val = pool.substr(off, len);
    o.v = SV(base.data() + off, len);
    if (terminated && off + len == pool.size()) o.c = base.data() + off;
    else o.own_z = Buf(o.val, true), o.c = o.own_z.data();
}

// form: 0 (cstr,cstr) 1 (cstr,view) 2 (view,cstr) 3 (view,view)
inline bool first_cstr(int form) { return form == 0 || form == 1; }
inline bool second_cstr(int form) { return form == 0 || form == 2; }
inline int mirror(int form) { return form == 1 ? 2 : form == 2 ? 1 : form; }
#define CALL4(FN, FORM, A, B)                                                                                          \
    ((FORM) == 0 ? tlx::FN((A).c, (B).c) : (FORM) == 1 ? tlx::FN((A).c, (B).v) : (FORM) == 2 ? tlx::FN((A).v, (B).c) : tlx::FN((A).v, (B).v))

const char* const FORM_NAME[4] = {"(cstr,cstr)", "(cstr,view)", "(view,cstr)", "(view,view)"};

//! everything that is asserted about equal_icase / less_icase / compare_icase for the pair (A, B) through overload `form`
void check_icase_pair(int form, const Operand& A, const Operand& B, const Operand& R, bool functors) {
    // R: the string a once more (for the reflexive calls), NUL-free unless form is (view,view)
    const std::string &a = A.val, &b = B.val;
    const char* fo = FORM_NAME[form];
    bool want_eq = ref_lower(a) == ref_lower(b);
    bool eq = CALL4(equal_icase, form, A, B);
    PBT_CHECK(eq == want_eq, "C19/equal_icase",
              "equal_icase(" << show(a) << ", " << show(b) << ") " << fo << " = " << eq << ", the lower-cased strings are "
                             << (want_eq ? "equal" : "different"));
    bool eq_m = CALL4(equal_icase, mirror(form), B, A);
    PBT_CHECK(eq_m == want_eq, "C19/equal_icase",
              "equal_icase(" << show(b) << ", " << show(a) << ") " << FORM_NAME[mirror(form)] << " = " << eq_m
                             << ", the lower-cased strings are " << (want_eq ? "equal" : "different"));
    bool lt = CALL4(less_icase, form, A, B), gt = CALL4(less_icase, mirror(form), B, A);
    int wl = ref_less_icase(a, b), wg = ref_less_icase(b, a);
    if (wl >= 0)
        PBT_CHECK(lt == (wl == 1), "C19/less_icase",
                  "less_icase(" << show(a) << ", " << show(b) << ") " << fo << " = " << lt << ", comparing the lower-cased strings gives " << wl);
    if (wg >= 0)
        PBT_CHECK(gt == (wg == 1), "C19/less_icase",
                  "less_icase(" << show(b) << ", " << show(a) << ") " << FORM_NAME[mirror(form)] << " = " << gt
                                << ", comparing the lower-cased strings gives " << wg);
    PBT_CHECK(!(lt && gt), "C19/less_icase-asymmetry",
              "less_icase(" << show(a) << ", " << show(b) << ") " << fo << " and less_icase(" << show(b) << ", " << show(a) << ") are both true");
    PBT_CHECK((lt || gt) == !want_eq, "C19/less_icase-trichotomy",
              "less_icase(" << show(a) << ", " << show(b) << ") " << fo << " = " << lt << ", reversed = " << gt << ", but the strings are "
                            << (want_eq ? "equal" : "different") << " up to case");
    int cmp = CALL4(compare_icase, form, A, B);
    PBT_CHECK(sign(cmp) == ref_compare_icase(a, b), "C19/compare_icase",
              "compare_icase(" << show(a) << ", " << show(b) << ") " << fo << " = " << cmp << ", strcmp on the lower-cased strings gives "
                               << ref_compare_icase(a, b));
    // agreement of the overloads: the (view,view) overload on fresh exact-size copies of the same two strings
    Buf fa(a), fb(b);
    bool lt_vv = tlx::less_icase(fa.view(), fb.view()), eq_vv = tlx::equal_icase(fa.view(), fb.view());
    PBT_CHECK(lt == lt_vv, "C19/less_icase-overloads",
              "less_icase(" << show(a) << ", " << show(b) << ") = " << lt << " through " << fo << " but " << lt_vv << " through (view,view)");
    PBT_CHECK(eq == eq_vv, "C19/equal_icase-overloads",
              "equal_icase(" << show(a) << ", " << show(b) << ") = " << eq << " through " << fo << " but " << eq_vv << " through (view,view)");
    // a string against itself (same object as both arguments where the overload allows it)
    PBT_CHECK(!CALL4(less_icase, form, R, R), "C19/less_icase-irreflexive", "less_icase(" << show(R.val) << ", " << show(R.val) << ") " << fo << " is true");
    PBT_CHECK(CALL4(equal_icase, form, R, R), "C19/equal_icase", "equal_icase(" << show(R.val) << ", " << show(R.val) << ") " << fo << " is false");
    PBT_CHECK(CALL4(compare_icase, form, R, R) == 0, "C19/compare_icase", "compare_icase(" << show(R.val) << ", " << show(R.val) << ") " << fo << " is not 0");
    if (functors) {
        bool asc = tlx::less_icase_asc()(fa.view(), fb.view()), desc = tlx::less_icase_desc()(fa.view(), fb.view());
        bool gt_vv = tlx::less_icase(fb.view(), fa.view());
        PBT_CHECK(asc == lt_vv, "C19/less_icase_asc", "less_icase_asc()(" << show(a) << ", " << show(b) << ") = " << asc << ", less_icase gives " << lt_vv);
        // "descending case-insensitive less order relation for std::map": the strict order with the arguments exchanged
        PBT_CHECK(desc == gt_vv, "C19/less_icase_desc",
                  "less_icase_desc()(" << show(a) << ", " << show(b) << ") = " << desc << ", less_icase(b, a) gives " << gt_vv
                                       << " (a map comparator must be a strict order: irreflexive and asymmetric)");
    }
}

void label_icase_pair(const std::string& a, const std::string& b) {
    size_t n = std::min(a.size(), b.size());
    bool eq = ref_lower(a) == ref_lower(b);
    bool prefix = a.size() != b.size() && ref_lower(a.substr(0, n)) == ref_lower(b.substr(0, n));
    bool high = false;
    for (unsigned char c : a + b) high = high || c >= 0x80;
    int wl = ref_less_icase(a, b);
    pbt::label(eq ? "icase:equal" : wl < 0 ? "icase:first-difference-high-vs-ascii" : wl ? "icase:less" : "icase:greater");
    if (prefix) pbt::label("icase:proper-prefix");
    if (high) pbt::label("icase:byte>=0x80");
    if (eq && a != b) pbt::label("icase:equal-up-to-case");
    if (a.empty() || b.empty()) pbt::label("icase:one-empty");
    if (prefix || high || (eq && a != b)) pbt::nontrivial();
}

void c19_icase(pbt::Source& src) {
    int layout = (int)src.weighted({4, 3, 1}); // 0 separate buffers, 1 one shared buffer, 2 the same object twice
    bool two_free = src.boolean();
    std::string alphabet = ALPHA;
    if (two_free) { // two arbitrary bytes and their case partners among a few letters
        unsigned char c1 = src.u8(), c2 = src.u8();
        alphabet = std::string("aZ") + (char)c1 + (char)c2 + (char)(c1 ^ 0x20) + (char)(c2 ^ 0x20);
    }
    std::string a, b;
    size_t ao = 0, bo = 0;
    std::string pool;
    if (layout == 0) {
        a = gen_main(src, alphabet, 6, 5000, HUGE_OK), b = gen_related(src, a, alphabet, 6);
        if (src.boolean()) std::swap(a, b);
    } else {
        // NUL-free pool with a short period, so that different sub-ranges are often equal up to case
        std::string pa = strip_nul(alphabet.substr(0, 6));
        std::string period = gen_over(src, pa, 3);
        if (period.empty()) period = "a";
        size_t n = long_mode() ? gen_long_len(src, 5000, HUGE_OK) : (size_t)src.range(0, 12);
        while (pool.size() < n) pool += flip_case(period, src);
        pool.resize(n);
        if (long_mode()) label_len(n);
        size_t al, bl;
        ao = src.index(n + 1), al = src.boolean() ? n - ao : src.index(n - ao + 1);
        if (layout == 2) bo = ao, bl = al;
        else {
            bo = src.chance(96) ? ao : src.index(n + 1); // often the same start with another length
            bl = src.boolean() ? n - bo : src.index(n - bo + 1);
        }
        a = pool.substr(ao, al), b = pool.substr(bo, bl);
    }
    static const char* const LL[3] = {"icase:separate-buffers", "icase:shared-buffer", "icase:same-object"};
    pbt::label(LL[layout]);
    PBT_LOG("icase pair a=" << show(a) << " b=" << show(b) << " [" << LL[layout] << "]\n");
    for (int form = 0; form < 4; ++form) {
        Operand A, B, R;
        if (layout == 0) {
            std::string af = first_cstr(form) ? strip_nul(a) : a, bf = second_cstr(form) ? strip_nul(b) : b;
            bind_own(A, af), bind_own(B, bf), bind_own(R, form == 3 ? a : strip_nul(a));
            if (form == 3) label_icase_pair(af, bf);
            check_icase_pair(form, A, B, R, form == 3);
        } else {
            Buf base(pool, form != 3); // the views and C strings of one call live in the same buffer
            bind_pool(A, pool, base, ao, a.size(), form != 3), bind_pool(B, pool, base, bo, b.size(), form != 3);
            bind_pool(R, pool, base, ao, a.size(), form != 3);
            if (form == 3) label_icase_pair(a, b);
            check_icase_pair(form, A, B, R, form == 3);
        }
    }
}


// =====================================================================================================================
// helpers_alias
// =====================================================================================================================

struct Sub {
    size_t off, len;
};
Sub gen_sub(pbt::Source& src, size_t n) {
    Sub r;
    r.off = src.index(n + 1);
    r.len = src.boolean() ? n - r.off : src.index(n - r.off + 1);
    return r;
}
//! a sub-range related to `to`: the same start, the same end, the same range, or anything
Sub gen_sub_related(pbt::Source& src, size_t n, Sub to) {
    Sub r = gen_sub(src, n);
    switch (src.range(0, 3)) {
    case 1: r.off = to.off, r.len = src.index(n - r.off + 1); break;
    case 2: // same end
        if (to.off + to.len >= r.off) r.len = to.off + to.len - r.off;
        break;
    case 3: r = to; break;
    default: break;
    }
    return r;
}

//! weighted edit distance with an arbitrary equality (full matrix)
template <class Eq>
size_t ref_weighted_levenshtein(const std::string& a, const std::string& b, size_t cid, size_t crep, Eq eq) {
    const size_t w = b.size() + 1;
    std::vector<size_t> d((a.size() + 1) * w, 0);
    for (size_t i = 0; i <= a.size(); ++i) d[i * w] = i * cid;
    for (size_t j = 0; j <= b.size(); ++j) d[j] = j * cid;
    for (size_t i = 1; i <= a.size(); ++i)
        for (size_t j = 1; j <= b.size(); ++j)
            d[i * w + j] = std::min(std::min(d[(i - 1) * w + j] + cid, d[i * w + j - 1] + cid), d[(i - 1) * w + j - 1] + (eq(a[i - 1], b[j - 1]) ? 0 : crep));
    return d[a.size() * w + b.size()];
}
// parameter structs other than the two standard ones (public template parameter of levenshtein_algorithm)
struct ParamCost12 { // a replacement costs as much as delete + insert
    static const unsigned int cost_insert_delete = 1;
    static const unsigned int cost_replace = 2;
    static bool char_equal(const char& a, const char& b) { return a == b; }
};
struct ParamCost23 {
    static const unsigned int cost_insert_delete = 2;
    static const unsigned int cost_replace = 3;
    static bool char_equal(const char& a, const char& b) { return a == b; }
};
struct ParamCost31 { // cheap replacement
    static const unsigned int cost_insert_delete = 3;
    static const unsigned int cost_replace = 1;
    static bool char_equal(const char& a, const char& b) { return a == b; }
};
struct ParamClass { // unit costs, characters equal if they agree in the low two bits (symmetric, like the icase one)
    static const unsigned int cost_insert_delete = 1;
    static const unsigned int cost_replace = 1;
    static bool char_equal(const char& a, const char& b) { return (a & 3) == (b & 3); }
};

//! split at every non-overlapping occurrence of sep (left to right); at most `limit` fields, the last one takes the rest
std::vector<std::string> ref_split_str(const std::string& sep, const std::string& str, size_t limit) {
    std::vector<std::string> out;
    if (limit == 0) return out;
    size_t pos = 0;
    for (;;) {
        size_t hit = npos;
        for (size_t p = pos; p + sep.size() <= str.size(); ++p)
            if (contains_at(str, p, sep)) {
                hit = p;
                break;
            }
        if (hit == npos || out.size() + 1 >= limit) {
            out.push_back(str.substr(pos));
            return out;
        }
        out.push_back(str.substr(pos, hit - pos));
        pos = hit + sep.size();
    }
}

void c19_helpers_alias(pbt::Source& src) {
    int fn = (int)src.range(0, 13);
    int ov = (int)src.range(0, 7);
    switch (fn) {
    case 0:
    case 1: { // ---- replace_first / replace_all, copy forms: str, needle, instead inside one buffer ----
        bool all = fn == 1, chars = (ov & 1) != 0;
        const std::string A = src.boolean() ? std::string("aab") : std::string("abc") + '\0' + (char)0x80;
        std::string pool = gen_over(src, A, 12);
        Buf pb(pool);
        size_t n = pool.size();
        Sub rs = gen_sub(src, n), rn = gen_sub_related(src, n, rs), ri = gen_sub_related(src, n, rs);
        if (rn.len > 3) rn.len = 1 + rn.len % 3;
        pbt::label(all ? "fn:replace_all" : "fn:replace_first");
        std::string str = pool.substr(rs.off, rs.len);
        SV sv(pb.data() + rs.off, rs.len);
        if (chars) {
            pbt::label("alias:replace-char,interior-view");
            char nc = A[src.index(A.size())], ic = A[src.index(A.size())];
            std::string want = ref_replace(str, std::string(1, nc), std::string(1, ic), all);
            if (want != str) pbt::nontrivial();
            PBT_LOG("replace(" << show(str) << " inside " << show(pool) << ", " << show_char(nc) << ", " << show_char(ic) << ")\n");
            std::string got = all ? tlx::replace_all(sv, nc, ic) : tlx::replace_first(sv, nc, ic);
            PBT_CHECK(got == want, all ? "C19/replace_all" : "C19/replace_first",
                      "replace(" << show(str) << " [interior view of " << show(pool) << "], " << show_char(nc) << ", " << show_char(ic)
                                 << ") = " << show(got) << ", definition gives " << show(want));
            break;
        }
        if (rn.len == 0) { // the needle must not be empty
            if (n == 0) break;
            rn.off = std::min(rn.off, n - 1), rn.len = 1;
        }
        std::string needle = pool.substr(rn.off, rn.len), instead = pool.substr(ri.off, ri.len);
        std::string want = ref_replace(str, needle, instead, all);
        pbt::label("alias:replace-string,shared-buffer");
        if (rn.off >= rs.off && rn.off + rn.len <= rs.off + rs.len) pbt::label("alias:needle-inside-str");
        if (want != str) pbt::nontrivial();
        PBT_LOG("replace(" << show(str) << ", " << show(needle) << ", " << show(instead) << ") all views inside " << show(pool) << "\n");
        SV nv(pb.data() + rn.off, rn.len), iv(pb.data() + ri.off, ri.len);
        std::string got = all ? tlx::replace_all(sv, nv, iv) : tlx::replace_first(sv, nv, iv);
        PBT_CHECK(got == want, all ? "C19/replace_all" : "C19/replace_first",
                  "replace(" << show(str) << ", " << show(needle) << ", " << show(instead) << ") [views at " << rs.off << "," << rn.off << ","
                             << ri.off << " of " << show(pool) << "] = " << show(got) << ", definition gives " << show(want));
        PBT_CHECK(std::string(pb.data(), n) == pool, "C19/argument-modified", "a copy form modified its arguments");
        break;
    }
    case 2: { // ---- trim family on an interior view, drop set inside the same buffer ----
        int which = ov % 3;                   // 0 trim, 1 trim_left, 2 trim_right
        bool left = which != 2, right = which != 1;
        int form = (int)src.range(0, 1);      // 0 string_view*, 1 string_view by value
        int dropkind = (int)src.range(0, 2);  // 0 default, 1 view into the same buffer, 2 char
        const std::string A = std::string(" \t\n\rab") + '\0' + (char)0xFF;
        std::string pool = gen_over(src, A, 12);
        Buf pb(pool);
        size_t n = pool.size();
        Sub rs = gen_sub(src, n), rd = gen_sub_related(src, n, rs);
        if (rd.len > 3 && src.boolean()) rd.len = rd.len % 4;
        std::string str = pool.substr(rs.off, rs.len), drop = " \r\n\t";
        if (dropkind == 1) drop = pool.substr(rd.off, rd.len);
        if (dropkind == 2) drop = std::string(1, A[src.index(A.size())]);
        std::string want = ref_trim(str, drop, left, right);
        static const char* const FL[3] = {"fn:trim", "fn:trim_left", "fn:trim_right"};
        pbt::label(FL[which]);
        pbt::label(form == 0 ? "alias:trim,string_view*" : "alias:trim,string_view");
        if (dropkind == 1) pbt::label("alias:trim,drop-in-same-buffer");
        // droppable neighbours just outside the view: a trim that looks at the buffer instead of the view would differ
        bool nb = (rs.off > 0 && drop.find(pool[rs.off - 1]) != npos) || (rs.off + rs.len < n && drop.find(pool[rs.off + rs.len]) != npos);
        if (nb) pbt::label("alias:trim,droppable-neighbour-outside-view");
        if (want.size() != str.size() || nb) pbt::nontrivial();
        PBT_LOG(FL[which] << "(" << show(str) << " at " << rs.off << " of " << show(pool) << ", drop=" << show(drop) << ")\n");
        SV sv(pb.data() + rs.off, rs.len), dv(pb.data() + rd.off, rd.len);
        std::string got;
#define TRIMV(F)                                                                                                       \
    if (form == 0) {                                                                                                   \
        SV work = sv;                                                                                                  \
        SV& r = dropkind == 0 ? tlx::F(&work) : dropkind == 1 ? tlx::F(&work, dv) : tlx::F(&work, drop[0]);            \
        PBT_CHECK(&r == &work, "C19/trim", #F " does not return its argument");                                        \
        got = work.to_string();                                                                                        \
    } else {                                                                                                           \
        SV r = dropkind == 0 ? tlx::F(sv) : dropkind == 1 ? tlx::F(sv, dv) : tlx::F(sv, drop[0]);                      \
        got = r.to_string();                                                                                           \
    }
        if (which == 0) { TRIMV(trim) }
        else if (which == 1) { TRIMV(trim_left) }
        else { TRIMV(trim_right) }
#undef TRIMV
        PBT_CHECK(got == want, which == 0 ? "C19/trim" : which == 1 ? "C19/trim_left" : "C19/trim_right",
                  FL[which] + 3 << "(" << show(str) << " [view at " << rs.off << " of " << show(pool) << "], drop=" << show(drop) << ") = "
                                << show(got) << ", definition gives " << show(want));
        break;
    }
    case 3: { // ---- erase_all copy forms ----
        const std::string A = std::string(" ab") + '\0' + (char)0xFF;
        std::string pool = gen_over(src, A, 12);
        Buf pb(pool);
        size_t n = pool.size();
        Sub rs = gen_sub(src, n), rd = gen_sub_related(src, n, rs);
        if (rd.len > 3 && src.boolean()) rd.len = rd.len % 4;
        int dropkind = ov % 3; // 0 default, 1 view into the same buffer, 2 char
        std::string str = pool.substr(rs.off, rs.len), drop = " ";
        if (dropkind == 1) drop = pool.substr(rd.off, rd.len);
        if (dropkind == 2) drop = std::string(1, A[src.index(A.size())]);
        std::string want;
        for (char c : str)
            if (drop.find(c) == npos) want += c;
        pbt::label("fn:erase_all");
        pbt::label(dropkind == 1 ? "alias:erase_all,drop-in-same-buffer" : "alias:erase_all,interior-view");
        if (want.size() != str.size()) pbt::nontrivial();
        PBT_LOG("erase_all(" << show(str) << " at " << rs.off << " of " << show(pool) << ", " << show(drop) << ")\n");
        SV sv(pb.data() + rs.off, rs.len), dv(pb.data() + rd.off, rd.len);
        std::string got = dropkind == 0 ? tlx::erase_all(sv) : dropkind == 1 ? tlx::erase_all(sv, dv) : tlx::erase_all(sv, drop[0]);
        PBT_CHECK(got == want, "C19/erase_all",
                  "erase_all(" << show(str) << " [view at " << rs.off << " of " << show(pool) << "], " << show(drop) << ") = " << show(got)
                               << ", expected " << show(want));
        break;
    }
    case 4:
    case 5:
    case 6: { // ---- starts_with / ends_with / contains (+icase): both arguments inside one buffer ----
        bool icase = ov & 1;
        int form = (ov >> 1) & 3; // ends_with only: 0 (cstr,cstr) 1 (cstr,view) 2 (view,cstr) 3 (view,view)
        if (fn != 5) form = 3;
        std::string period = gen_over(src, "aAb[{", 3);
        if (period.empty()) period = "a";
        size_t n = (size_t)src.range(0, 12);
        std::string pool;
        while (pool.size() < n) pool += flip_case(period, src);
        pool.resize(n);
        Buf base(pool, form != 3);
        Sub rs = gen_sub(src, n), rm = gen_sub_related(src, n, rs);
        if (src.boolean() && rm.len > rs.len) rm.len = rs.len ? rm.len % (rs.len + 1) : 0;
        Operand S, M;
        bind_pool(S, pool, base, rs.off, rs.len, form != 3), bind_pool(M, pool, base, rm.off, rm.len, form != 3);
        const std::string &str = S.val, &m = M.val;
        bool want, got;
        const char* name;
        if (fn == 4) {
            want = m.size() <= str.size() && (icase ? ref_lower(str.substr(0, m.size())) == ref_lower(m) : str.compare(0, m.size(), m) == 0);
            got = icase ? tlx::starts_with_icase(S.v, M.v) : tlx::starts_with(S.v, M.v);
            name = icase ? "starts_with_icase" : "starts_with";
            pbt::label(icase ? "fn:starts_with_icase" : "fn:starts_with");
        } else if (fn == 5) {
            want = m.size() <= str.size() &&
                   (icase ? ref_lower(str.substr(str.size() - m.size())) == ref_lower(m) : str.compare(str.size() - m.size(), m.size(), m) == 0);
            got = icase ? CALL4(ends_with_icase, form, S, M) : CALL4(ends_with, form, S, M);
            name = icase ? "ends_with_icase" : "ends_with";
            pbt::label(icase ? "fn:ends_with_icase" : "fn:ends_with");
            pbt::label(form == 0 ? "alias:suffix,(cstr,cstr)" : form == 1 ? "alias:suffix,(cstr,view)" : form == 2 ? "alias:suffix,(view,cstr)" : "alias:suffix,(view,view)");
        } else {
            want = false;
            for (size_t i = 0; i + m.size() <= str.size(); ++i) want = want || contains_at(str, i, m);
            got = tlx::contains(S.v, M.v);
            name = "contains";
            pbt::label("fn:contains(string)");
        }
        pbt::label(want ? "alias:match-true" : "alias:match-false");
        if (rs.off == rm.off) pbt::label("alias:same-start");
        if (want && !m.empty()) pbt::nontrivial();
        PBT_LOG(name << "(" << show(str) << ", " << show(m) << ") " << FORM_NAME[form] << " at " << rs.off << "," << rm.off << " of " << show(pool) << "\n");
        PBT_CHECK(got == want, fn == 4 ? (icase ? "C19/starts_with_icase" : "C19/starts_with") : fn == 5 ? (icase ? "C19/ends_with_icase" : "C19/ends_with") : "C19/contains",
                  name << "(" << show(str) << ", " << show(m) << ") " << FORM_NAME[form] << " [at " << rs.off << " and " << rm.off << " of " << show(pool)
                       << "] = " << got);
        break;
    }
    case 7: { // ---- levenshtein / levenshtein_icase: both arguments inside one buffer ----
        bool icase = ov & 1, cstr = ov & 2;
        std::string pool = gen_over(src, std::string("abAB[{") + (char)0xC1 + (char)0xE1, 12);
        size_t n = pool.size();
        Buf base(pool, cstr);
        Sub ra = gen_sub(src, n), rb = gen_sub_related(src, n, ra);
        Operand A, B;
        bind_pool(A, pool, base, ra.off, ra.len, cstr), bind_pool(B, pool, base, rb.off, rb.len, cstr);
        size_t want = ref_levenshtein(A.val, B.val, icase);
        pbt::label(icase ? "fn:levenshtein_icase" : "fn:levenshtein");
        pbt::label(cstr ? "alias:lev,(cstr,cstr)" : "alias:lev,(view,view)");
        if (want != 0 && !A.val.empty() && !B.val.empty()) pbt::nontrivial();
        PBT_LOG("levenshtein(" << show(A.val) << ", " << show(B.val) << ") inside " << show(pool) << "\n");
        size_t got = cstr ? (icase ? tlx::levenshtein_icase(A.c, B.c) : tlx::levenshtein(A.c, B.c))
                          : (icase ? tlx::levenshtein_icase(A.v, B.v) : tlx::levenshtein(A.v, B.v));
        PBT_CHECK(got == want, icase ? "C19/levenshtein_icase" : "C19/levenshtein",
                  (icase ? "levenshtein_icase(" : "levenshtein(") << show(A.val) << ", " << show(B.val) << ") [at " << ra.off << " and " << rb.off << " of "
                                                                  << show(pool) << "] = " << got << ", full-matrix DP gives " << want);
        break;
    }
    case 8: { // ---- one-argument copy forms on an interior view: pad, to_lower, to_upper ----
        std::string pool = gen_over(src, ALPHA, 12);
        Buf pb(pool);
        Sub rs = gen_sub(src, pool.size());
        std::string str = pool.substr(rs.off, rs.len);
        SV sv(pb.data() + rs.off, rs.len);
        PBT_LOG("interior view " << show(str) << " at " << rs.off << " of " << show(pool) << "\n");
        if (ov % 3 == 0) {
            size_t len = (size_t)src.range(0, 14);
            bool dflt = src.boolean();
            char pc = dflt ? ' ' : ALPHA[src.index(ALPHA.size())];
            std::string want = str.substr(0, std::min(len, str.size()));
            want.resize(len, pc);
            pbt::label("fn:pad");
            if (len != str.size()) pbt::nontrivial();
            std::string got = dflt ? tlx::pad(sv, len) : tlx::pad(sv, len, pc);
            PBT_CHECK(got == want, "C19/pad", "pad(" << show(str) << " [interior view of " << show(pool) << "], " << len << ", " << show_char(pc) << ") = " << show(got));
        } else {
            bool upper = ov % 3 == 2;
            pbt::label(upper ? "fn:to_upper" : "fn:to_lower");
            std::string want = upper ? ref_upper(str) : ref_lower(str);
            if (want != str) pbt::nontrivial();
            std::string got = upper ? tlx::to_upper(sv) : tlx::to_lower(sv);
            PBT_CHECK(got == want, upper ? "C19/to_upper" : "C19/to_lower",
                      (upper ? "to_upper(" : "to_lower(") << show(str) << " [interior view of " << show(pool) << "]) = " << show(got));
            PBT_CHECK(std::string(pb.data(), pool.size()) == pool, "C19/argument-modified", "a copy form modified its argument");
        }
        break;
    }
    case 9: { // ---- history of in-place operations on ONE re-used std::string ----
        const std::string A = std::string(" \tabAB") + '\0';
        std::string model = gen_over(src, A, 12), work;
        int prep = (int)src.range(0, 3);
        switch (prep) { // what the object held before
        case 1: work.reserve(200), work = model; break;                       // spare capacity
        case 2: work = model + std::string(100, ' ') + "b", work.resize(model.size()); break; // shrunk from a longer content
        case 3: work = model, work.shrink_to_fit(); break;
        default: work = model; break;
        }
        pbt::label("fn:in-place-history");
        size_t nops = 0, changed = 0;
        while (src.more() && nops < 8) {
            ++nops;
            int op = (int)src.range(0, 11);
            std::string before = model;
            std::string* r = nullptr;
            std::string arg1, arg2;
            const char* opname = "";
            switch (op) {
            case 0: opname = "to_lower", model = ref_lower(model), r = &tlx::to_lower(&work); break;
            case 1: opname = "to_upper", model = ref_upper(model), r = &tlx::to_upper(&work); break;
            case 2:
            case 3:
            case 4: {
                bool left = op != 4, right = op != 3;
                int dk = (int)src.range(0, 2);
                arg1 = dk == 0 ? std::string(" \r\n\t") : dk == 1 ? gen_over(src, A, 3) : std::string(1, A[src.index(A.size())]);
                Buf db(arg1);
                model = ref_trim(model, arg1, left, right);
                opname = op == 2 ? "trim" : op == 3 ? "trim_left" : "trim_right";
                if (op == 2) r = dk == 0 ? &tlx::trim(&work) : dk == 1 ? &tlx::trim(&work, db.view()) : &tlx::trim(&work, arg1[0]);
                else if (op == 3) r = dk == 0 ? &tlx::trim_left(&work) : dk == 1 ? &tlx::trim_left(&work, db.view()) : &tlx::trim_left(&work, arg1[0]);
                else r = dk == 0 ? &tlx::trim_right(&work) : dk == 1 ? &tlx::trim_right(&work, db.view()) : &tlx::trim_right(&work, arg1[0]);
                break;
            }
            case 5: {
                int dk = (int)src.range(0, 2);
                arg1 = dk == 0 ? std::string(" ") : dk == 1 ? gen_over(src, A, 3) : std::string(1, A[src.index(A.size())]);
                Buf db(arg1);
                std::string w;
                for (char c : model)
                    if (arg1.find(c) == npos) w += c;
                model = w;
                opname = "erase_all";
                r = dk == 0 ? &tlx::erase_all(&work) : dk == 1 ? &tlx::erase_all(&work, db.view()) : &tlx::erase_all(&work, arg1[0]);
                break;
            }
            case 6:
            case 7: {
                bool all = op == 7;
                arg1 = gen_over(src, "abA ", 2), arg2 = gen_over(src, "abx ", 4);
                if (arg1.empty()) arg1 = "a";
                Buf nb(arg1), ib(arg2);
                model = ref_replace(model, arg1, arg2, all);
                opname = all ? "replace_all" : "replace_first";
                r = all ? &tlx::replace_all(&work, nb.view(), ib.view()) : &tlx::replace_first(&work, nb.view(), ib.view());
                break;
            }
            case 8:
            case 9: {
                bool all = op == 9;
                arg1 = std::string(1, A[src.index(A.size())]), arg2 = std::string(1, A[src.index(A.size())]);
                model = ref_replace(model, arg1, arg2, all);
                opname = all ? "replace_all(char)" : "replace_first(char)";
                r = all ? &tlx::replace_all(&work, arg1[0], arg2[0]) : &tlx::replace_first(&work, arg1[0], arg2[0]);
                break;
            }
            case 10: { // the caller appends between two operations
                arg1 = gen_over(src, A, 6);
                model += arg1, work += arg1;
                opname = "append";
                r = &work;
                break;
            }
            default: { // chained through the returned references
                model = ref_lower(ref_trim(model, " \r\n\t", true, true));
                opname = "to_lower(&trim(&s))";
                r = &tlx::to_lower(&tlx::trim(&work));
                break;
            }
            }
            PBT_LOG("  " << opname << "(" << show(before) << ", " << show(arg1) << ", " << show(arg2) << ") -> " << show(work) << "\n");
            PBT_CHECK(r == &work, "C19/in-place-result", opname << " does not return its argument");
            if (model != before) ++changed;
            PBT_CHECK(work == model, "C19/in-place-history",
                      "step " << nops << ": " << opname << "(" << show(before) << ", " << show(arg1) << ", " << show(arg2) << ") on a re-used std::string (prep "
                              << prep << ") = " << show(work) << ", definition gives " << show(model));
        }
        if (changed >= 2) pbt::label("alias:history,>=2-changing-steps"), pbt::nontrivial();
        break;
    }
    case 10: { // ---- history of trims on ONE string_view object ----
        const std::string A = std::string(" \tab") + '\0';
        std::string pool = gen_over(src, A, 14);
        Buf pb(pool);
        Sub rs = gen_sub(src, pool.size());
        std::string model = pool.substr(rs.off, rs.len);
        SV work(pb.data() + rs.off, rs.len);
        pbt::label("fn:view-trim-history");
        size_t nops = 0, changed = 0;
        while (src.more() && nops < 6) {
            ++nops;
            int which = (int)src.range(0, 2), dk = (int)src.range(0, 2);
            std::string drop = dk == 0 ? std::string(" \r\n\t") : dk == 1 ? gen_over(src, A, 3) : std::string(1, A[src.index(A.size())]);
            Buf db(drop);
            std::string before = model;
            model = ref_trim(model, drop, which != 2, which != 1);
            SV* r;
            if (which == 0) r = dk == 0 ? &tlx::trim(&work) : dk == 1 ? &tlx::trim(&work, db.view()) : &tlx::trim(&work, drop[0]);
            else if (which == 1) r = dk == 0 ? &tlx::trim_left(&work) : dk == 1 ? &tlx::trim_left(&work, db.view()) : &tlx::trim_left(&work, drop[0]);
            else r = dk == 0 ? &tlx::trim_right(&work) : dk == 1 ? &tlx::trim_right(&work, db.view()) : &tlx::trim_right(&work, drop[0]);
            PBT_LOG("  trim kind " << which << " (" << show(before) << ", drop=" << show(drop) << ") -> " << show(work.to_string()) << "\n");
            PBT_CHECK(r == &work, "C19/in-place-result", "trim(string_view*) does not return its argument");
            if (model != before) ++changed;
            PBT_CHECK(work.to_string() == model, "C19/in-place-history",
                      "step " << nops << ": trim kind " << which << " of the re-used view " << show(before) << " with drop=" << show(drop) << " = "
                              << show(work.to_string()) << ", definition gives " << show(model));
        }
        if (changed >= 2) pbt::label("alias:view-history,>=2-changing-steps"), pbt::nontrivial();
        break;
    }
    case 12: { // ---- split: separator and string inside one buffer; result vector returned or written into a re-used one ----
        std::string pool = gen_over(src, "ab/", 12);
        Buf pb(pool);
        size_t n = pool.size();
        if (n == 0) break;
        Sub rs = gen_sub(src, n), rp = gen_sub_related(src, n, rs);
        rp.len = 1 + rp.len % 2; // separators of one or two bytes; never empty
        if (rp.off + rp.len > n) rp.off = n - std::min(n, rp.len), rp.len = std::min(n, rp.len);
        static const size_t LIM[5] = {npos, npos, 1, 2, 3};
        size_t limit = LIM[src.range(0, 4)];
        bool into_form = ov & 1;
        std::string str = pool.substr(rs.off, rs.len), sep = pool.substr(rp.off, rp.len);
        std::vector<std::string> want = ref_split_str(sep, str, limit);
        pbt::label("fn:split");
        pbt::label(into_form ? "alias:split,into-reused-vector" : "alias:split,returned");
        if (want.size() > 1) pbt::nontrivial();
        PBT_LOG("split(" << show(sep) << ", " << show(str) << ", " << (limit == npos ? std::string("npos") : std::to_string(limit)) << ") inside " << show(pool) << "\n");
        SV sv(pb.data() + rs.off, rs.len), pv(pb.data() + rp.off, rp.len);
        std::vector<std::string> got;
        if (into_form) {
            std::vector<std::string> into = {"junk", std::string(40, 'x'), ""};
            std::vector<std::string>& r = limit == npos && (ov & 2) ? tlx::split(&into, pv, sv) : tlx::split(&into, pv, sv, limit);
            PBT_CHECK(&r == &into, "C19/split", "split(into, ...) does not return its destination");
            got = into;
        } else got = limit == npos && (ov & 2) ? tlx::split(pv, sv) : tlx::split(pv, sv, limit);
        PBT_CHECK(got == want, "C19/split",
                  "split(" << show(sep) << ", " << show(str) << ", limit " << (limit == npos ? std::string("npos") : std::to_string(limit)) << ") [views at "
                           << rp.off << " and " << rs.off << " of " << show(pool) << (into_form ? ", into a re-used vector" : "") << "] = " << show(got)
                           << ", definition gives " << show(want));
        break;
    }
    case 13: { // ---- join: the glue is a view / C string inside one of the parts ----
        size_t np = (size_t)src.range(1, 4);
        std::vector<std::string> parts;
        for (size_t i = 0; i < np; ++i) parts.push_back(gen_over(src, "ab,", 5));
        size_t gi = src.index(np);
        bool cglue = ov & 1;
        const std::string& host = parts[gi];
        Sub rg = gen_sub(src, host.size());
        if (cglue) rg.len = host.size() - rg.off; // a C string glue runs to the end of its host
        std::string glue = host.substr(rg.off, rg.len), want;
        for (size_t i = 0; i < np; ++i) want += (i ? glue : std::string()) + parts[i];
        pbt::label("fn:join");
        pbt::label(cglue ? "alias:join,cstr-glue-inside-a-part" : "alias:join,view-glue-inside-a-part");
        if (np > 1 && !glue.empty()) pbt::nontrivial();
        PBT_LOG("join(" << show(glue) << " inside part " << gi << ", " << show(parts) << ")\n");
        std::string got = cglue ? tlx::join(host.c_str() + rg.off, parts) : tlx::join(SV(host.data() + rg.off, rg.len), parts);
        PBT_CHECK(got == want, "C19/join", "join(" << show(glue) << " [inside part " << gi << "], " << show(parts) << ") = " << show(got));
        break;
    }
    default: { // ---- levenshtein_algorithm<Param> with other parameter structs ----
        int which = ov & 3;
        // (parameter structs with cost_insert_delete != 1 exposed F40, fixes/C19/F40-levenshtein-insert-delete-cost.txt)
        std::string a = gen_over(src, "abcdABCD", src.chance(16) ? 24 : 7), b = gen_related(src, a, "abcdABCD", 7);
        if (src.boolean()) std::swap(a, b);
        Buf ax(a), bx(b);
        size_t got, want;
        static const char* const PN[4] = {"lev:param-cost(1,2)", "lev:param-cost(2,3)", "lev:param-cost(3,1)", "lev:param-equality-classes"};
        pbt::label("fn:levenshtein_algorithm");
        pbt::label(PN[which]);
        auto exact = [](char x, char y) { return x == y; };
        switch (which) {
        case 0: got = tlx::levenshtein_algorithm<ParamCost12>(ax.data(), ax.n, bx.data(), bx.n), want = ref_weighted_levenshtein(a, b, 1, 2, exact); break;
        case 1: got = tlx::levenshtein_algorithm<ParamCost23>(ax.data(), ax.n, bx.data(), bx.n), want = ref_weighted_levenshtein(a, b, 2, 3, exact); break;
        case 2: got = tlx::levenshtein_algorithm<ParamCost31>(ax.data(), ax.n, bx.data(), bx.n), want = ref_weighted_levenshtein(a, b, 3, 1, exact); break;
        default:
            got = tlx::levenshtein_algorithm<ParamClass>(ax.data(), ax.n, bx.data(), bx.n);
            want = ref_weighted_levenshtein(a, b, 1, 1, [](char x, char y) { return (x & 3) == (y & 3); });
            break;
        }
        if (want != 0 && !a.empty() && !b.empty()) pbt::nontrivial();
        if (a.size() < b.size()) pbt::label("lev:first-shorter");
        PBT_LOG("levenshtein_algorithm<" << PN[which] << ">(" << show(a) << ", " << show(b) << ")\n");
        PBT_CHECK(got == want, "C19/levenshtein_algorithm",
                  "levenshtein_algorithm<" << PN[which] << ">(" << show(a) << ", " << show(b) << ") = " << got << ", full-matrix DP with these costs gives " << want);
        break;
    }
    }
}

// =====================================================================================================================
// codec_extra
// =====================================================================================================================

struct Packed13 {
    unsigned char b[13];
};

template <class T>
void check_hexdump_type(pbt::Source& src, const char* tname) {
    unsigned char raw[sizeof(T)];
    for (size_t i = 0; i < sizeof(T); ++i) raw[i] = src.u8();
    // the object lives in an exact-size heap block: reading more than sizeof(T) bytes is an ASan report
    // (operator new[] storage is aligned for every fundamental type; T is trivially copyable)
    std::unique_ptr<unsigned char[]> mem(new unsigned char[sizeof(T)]);
    memcpy(mem.get(), raw, sizeof(T));
    std::string bytes((const char*)raw, sizeof(T));
    T& obj = *reinterpret_cast<T*>(mem.get());
    const T& cref = obj;
    std::string up = tlx::hexdump_type(cref), lo = tlx::hexdump_lc_type(obj);
    PBT_LOG("hexdump_type<" << tname << ">(" << show(bytes) << ") = " << up << " / " << lo << "\n");
    PBT_CHECK(up == ref_hex(bytes, true), "C19/hexdump_type", "hexdump_type<" << tname << "> of the object bytes " << show(bytes) << " = " << show(up));
    PBT_CHECK(lo == ref_hex(bytes, false), "C19/hexdump_lc_type", "hexdump_lc_type<" << tname << "> of the object bytes " << show(bytes) << " = " << show(lo));
    std::string back = tlx::parse_hexdump(lo);
    PBT_CHECK(back == bytes, "C19/hexdump-roundtrip", "parse_hexdump(hexdump_lc_type(" << show(bytes) << ")) = " << show(back));
}

void c19_codec_extra(pbt::Source& src) {
    int op = (int)src.range(0, 2);
    if (op == 0) { // ---- hexdump_type / hexdump_lc_type ----
        int t = (int)src.range(0, 9);
        pbt::label("fn:hexdump_type");
        pbt::nontrivial();
        switch (t) {
        case 0: check_hexdump_type<unsigned char>(src, "unsigned char"); break;
        case 1: check_hexdump_type<char>(src, "char"); break;
        case 2: check_hexdump_type<uint16_t>(src, "uint16_t"); break;
        case 3: check_hexdump_type<int32_t>(src, "int32_t"); break;
        case 4: check_hexdump_type<uint64_t>(src, "uint64_t"); break;
        case 5: check_hexdump_type<double>(src, "double"); break;
        case 6: check_hexdump_type<std::array<unsigned char, 3>>(src, "array<uchar,3>"); break;
        case 7: check_hexdump_type<Packed13>(src, "struct of 13 bytes"); break;
        case 8: check_hexdump_type<char[5]>(src, "char[5]"); break;
        default: check_hexdump_type<std::array<uint16_t, 17>>(src, "array<uint16_t,17>"); break;
        }
        return;
    }
    size_t n = (size_t)src.range(0, src.chance(32) ? 70 : 20);
    std::string x;
    for (size_t i = 0; i < n; ++i) x += (char)src.u8();
    Buf xb(x);
    if (op == 1) { // ---- hexdump_sourcecode: a C snippet that defines an array holding the data ----
        bool dflt = src.boolean();
        std::string name = "name";
        if (!dflt) {
            name = std::string(1, "abnx_"[src.index(5)]) + gen_over(src, "abnx_019", 6);
        }
        Buf nb(name);
        std::string out = dflt ? tlx::hexdump_sourcecode(xb.view()) : tlx::hexdump_sourcecode(xb.view(), nb.view());
        pbt::label("fn:hexdump_sourcecode");
        pbt::label(n == 0 ? "src:empty" : n % 16 == 0 ? "src:multiple-of-16" : n > 16 ? "src:several-lines" : "src:one-line");
        if (n > 0) pbt::nontrivial();
        PBT_LOG("hexdump_sourcecode(" << show(x) << ", " << name << ") = " << show(out) << "\n");
        // tolerant reading: white space is irrelevant; <name>[<n or empty>]={<integer literals separated by commas>};
        std::string t;
        for (char c : out)
            if (c != ' ' && c != '\n' && c != '\t' && c != '\r') t += c;
#define SRC_FAIL(why) pbt::fail("C19/hexdump_sourcecode", "hexdump_sourcecode(" + show(x) + ", " + name + ") = " + show(out) + ": " + why)
        size_t p = t.find(name + "[");
        if (p == npos) SRC_FAIL("the array variable is not declared");
        p += name.size() + 1;
        size_t q = t.find(']', p);
        if (q == npos) SRC_FAIL("no closing bracket");
        if (q != p && t.substr(p, q - p) != std::to_string(n)) SRC_FAIL("declared array size is not " + std::to_string(n));
        p = q + 1;
        if (t.compare(p, 2, "={") != 0) SRC_FAIL("no initialiser list");
        p += 2;
        std::string data;
        while (p < t.size() && t[p] != '}') {
            char* end = nullptr;
            unsigned long v = strtoul(t.c_str() + p, &end, 0);
            if (end == t.c_str() + p || v > 255) SRC_FAIL("bad literal at offset " + std::to_string(p) + " of the snippet without white space");
            data += (char)(unsigned char)v;
            p = (size_t)(end - t.c_str());
            if (p < t.size() && t[p] == ',') ++p;
            else if (p >= t.size() || t[p] != '}') SRC_FAIL("literals are not separated by commas");
        }
        if (t.compare(p, 2, "};") != 0 || p + 2 != t.size()) SRC_FAIL("the initialiser list is not closed by };");
        if (data != x) SRC_FAIL("the array holds " + show(data));
#undef SRC_FAIL
        return;
    }
    // ---- base64 with the default arguments (no line breaks; strict decoding) ----
    pbt::label("fn:base64-default-arguments");
    if (x.size() % 3 != 0) pbt::nontrivial();
    bool ptr = src.boolean();
    std::string enc = ptr ? tlx::base64_encode(xb.data(), xb.n) : tlx::base64_encode(xb.view());
    std::string want = ref_base64(x);
    PBT_LOG("base64_encode(" << show(x) << ") = " << show(enc) << "\n");
    PBT_CHECK(enc == want, "C19/base64-encode", "base64_encode(" << show(x) << ") [default line_break] = " << show(enc) << ", RFC 4648 gives " << show(want));
    Buf eb(want);
    std::string dec;
    try {
        dec = ptr ? tlx::base64_decode(eb.data(), eb.n) : tlx::base64_decode(eb.view());
    } catch (const std::runtime_error& e) {
        pbt::fail("C19/base64-roundtrip", "base64_decode(" + show(want) + ") [default strict] throws \"" + e.what() + "\"");
    }
    PBT_CHECK(dec == x, "C19/base64-roundtrip", "base64_decode(" << show(want) << ") [default strict] = " << show(dec) << ", expected " << show(x));
}

// =====================================================================================================================
// byte_sweep (enumerate step)
// =====================================================================================================================

#define SWEEP_CHECK(cond, lab, what)                                                                                   \
    PBT_CHECK(cond, lab, what << " for bytes x=" << (int)x << " y=" << (int)y << ", strings a=" << show(a) << " b=" << show(b))

//! every case-insensitive helper on the pair of strings (a, b) that differ exactly where x / y sit
void sweep_pair(unsigned char x, unsigned char y, const std::string& a, const std::string& b, bool cstr_ok) {
    Operand A, B;
    bind_own(A, a), bind_own(B, b);
    const bool want_eq = ref_lower(a) == ref_lower(b);
    const int want_cmp = ref_compare_icase(a, b);
    const int wl = ref_less_icase(a, b), wg = ref_less_icase(b, a);
    const size_t want_lev_i = ref_levenshtein(a, b, true), want_lev = ref_levenshtein(a, b, false);
    for (int form = cstr_ok ? 0 : 3; form < 4; ++form) {
        bool eq = CALL4(equal_icase, form, A, B);
        SWEEP_CHECK(eq == want_eq, "C19/equal_icase", "equal_icase " << FORM_NAME[form] << " = " << eq);
        int cmp = CALL4(compare_icase, form, A, B);
        SWEEP_CHECK(sign(cmp) == want_cmp, "C19/compare_icase", "compare_icase " << FORM_NAME[form] << " = " << cmp << ", expected sign " << want_cmp);
        bool lt = CALL4(less_icase, form, A, B), gt = CALL4(less_icase, mirror(form), B, A);
        if (wl >= 0) SWEEP_CHECK(lt == (wl == 1), "C19/less_icase", "less_icase(a,b) " << FORM_NAME[form] << " = " << lt);
        if (wg >= 0) SWEEP_CHECK(gt == (wg == 1), "C19/less_icase", "less_icase(b,a) " << FORM_NAME[mirror(form)] << " = " << gt);
        SWEEP_CHECK(!(lt && gt), "C19/less_icase-asymmetry", "less_icase(a,b) and less_icase(b,a) " << FORM_NAME[form] << " both true");
        SWEEP_CHECK((lt || gt) == !want_eq, "C19/less_icase-trichotomy", "less_icase(a,b) = " << lt << ", less_icase(b,a) = " << gt << " " << FORM_NAME[form]);
        if (form != 3) {
            bool lt_vv = tlx::less_icase(A.v, B.v);
            SWEEP_CHECK(lt == lt_vv, "C19/less_icase-overloads", "less_icase " << FORM_NAME[form] << " = " << lt << " but (view,view) = " << lt_vv);
        } else {
            bool asc = tlx::less_icase_asc()(A.v, B.v), desc = tlx::less_icase_desc()(A.v, B.v);
            SWEEP_CHECK(asc == lt, "C19/less_icase_asc", "less_icase_asc = " << asc << ", less_icase = " << lt);
            SWEEP_CHECK(desc == gt, "C19/less_icase_desc", "less_icase_desc(a,b) = " << desc << ", less_icase(b,a) = " << gt);
        }
    }
    size_t li = tlx::levenshtein_icase(A.v, B.v), l = tlx::levenshtein(A.v, B.v);
    SWEEP_CHECK(li == want_lev_i, "C19/levenshtein_icase", "levenshtein_icase(view,view) = " << li << ", expected " << want_lev_i);
    SWEEP_CHECK(l == want_lev, "C19/levenshtein", "levenshtein(view,view) = " << l << ", expected " << want_lev);
    if (cstr_ok) {
        li = tlx::levenshtein_icase(A.c, B.c), l = tlx::levenshtein(A.c, B.c);
        SWEEP_CHECK(li == want_lev_i, "C19/levenshtein_icase", "levenshtein_icase(cstr,cstr) = " << li << ", expected " << want_lev_i);
        SWEEP_CHECK(l == want_lev, "C19/levenshtein", "levenshtein(cstr,cstr) = " << l << ", expected " << want_lev);
    }
}

//! starts_with(_icase) / ends_with(_icase): `str` = a plus one more letter at the far end, match = the part of b from the
//! near end up to and including y
void sweep_affix(unsigned char x, unsigned char y, const std::string& a, const std::string& b, size_t pos, bool cstr_ok) {
    // prefix test: a + "t" starts with b[0..pos]
    {
        Operand S, M;
        bind_own(S, a + "t"), bind_own(M, b.substr(0, pos + 1));
        bool want_i = ref_lower(a.substr(0, pos + 1)) == ref_lower(M.val), want = a.substr(0, pos + 1) == M.val;
        bool got_i = tlx::starts_with_icase(S.v, M.v), got = tlx::starts_with(S.v, M.v);
        SWEEP_CHECK(got_i == want_i, "C19/starts_with_icase", "starts_with_icase(" << show(S.val) << ", " << show(M.val) << ") = " << got_i);
        SWEEP_CHECK(got == want, "C19/starts_with", "starts_with(" << show(S.val) << ", " << show(M.val) << ") = " << got);
    }
    // suffix test: "t" + a ends with b[pos..]
    {
        Operand S, M;
        bind_own(S, "t" + a), bind_own(M, b.substr(pos));
        bool want_i = ref_lower(a.substr(pos)) == ref_lower(M.val), want = a.substr(pos) == M.val;
        for (int form = cstr_ok ? 0 : 3; form < 4; ++form) {
            bool got_i = CALL4(ends_with_icase, form, S, M), got = CALL4(ends_with, form, S, M);
            SWEEP_CHECK(got_i == want_i, "C19/ends_with_icase", "ends_with_icase(" << show(S.val) << ", " << show(M.val) << ") " << FORM_NAME[form] << " = " << got_i);
            SWEEP_CHECK(got == want, "C19/ends_with", "ends_with(" << show(S.val) << ", " << show(M.val) << ") " << FORM_NAME[form] << " = " << got);
        }
    }
}

//! helpers with a `char` parameter, and the codecs, on the two-byte string xy
void sweep_char_helpers(unsigned char x, unsigned char y) {
    const char cx = (char)x, cy = (char)y;
    const std::string a = std::string(1, cx) + "q" + cx, b(1, cy); // a = x q x
    Buf ab(a);
    SV av = ab.view();
    SWEEP_CHECK(tlx::contains(av, cy) == (a.find(cy) != npos), "C19/contains", "contains(a, y)");
    std::string e = tlx::erase_all(av, cy), we;
    for (char c : a)
        if (c != cy) we += c;
    SWEEP_CHECK(e == we, "C19/erase_all", "erase_all(a, y) = " << show(e));
    std::string ra = tlx::replace_all(av, cy, 'Q'), rf = tlx::replace_first(av, cy, 'Q');
    std::string wra = a, wrf = a;
    for (char& c : wra)
        if (c == cy) c = 'Q';
    for (char& c : wrf)
        if (c == cy) {
            c = 'Q';
            break;
        }
    SWEEP_CHECK(ra == wra, "C19/replace_all", "replace_all(a, y, 'Q') = " << show(ra));
    SWEEP_CHECK(rf == wrf, "C19/replace_first", "replace_first(a, y, 'Q') = " << show(rf));
    std::string t = tlx::trim(av, cy).to_string(), tl = tlx::trim_left(av, cy).to_string(), tr = tlx::trim_right(av, cy).to_string();
    SWEEP_CHECK(t == ref_trim(a, b, true, true), "C19/trim", "trim(a, y) = " << show(t));
    SWEEP_CHECK(tl == ref_trim(a, b, true, false), "C19/trim_left", "trim_left(a, y) = " << show(tl));
    SWEEP_CHECK(tr == ref_trim(a, b, false, true), "C19/trim_right", "trim_right(a, y) = " << show(tr));
    {
        std::string w = a;
        tlx::trim(&w, cy);
        SWEEP_CHECK(w == ref_trim(a, b, true, true), "C19/trim", "trim(&a, y) = " << show(w));
        w = a, tlx::erase_all(&w, cy);
        SWEEP_CHECK(w == we, "C19/erase_all", "erase_all(&a, y) = " << show(w));
        w = a, tlx::replace_all(&w, cy, 'Q');
        SWEEP_CHECK(w == wra, "C19/replace_all", "replace_all(&a, y, 'Q') = " << show(w));
    }
    std::string p = tlx::pad(SV(ab.data(), 1), 3, cy), wp = std::string(1, cx) + cy + cy;
    SWEEP_CHECK(p == wp, "C19/pad", "pad(x, 3, y) = " << show(p));
    // codecs on the two-byte string xy
    std::string xy = std::string(1, cx) + cy;
    Buf xyb(xy);
    std::string enc = tlx::base64_encode(xyb.view()), wenc = ref_base64(xy);
    SWEEP_CHECK(enc == wenc, "C19/base64-encode", "base64_encode(xy) = " << show(enc));
    Buf eb(enc);
    SWEEP_CHECK(tlx::base64_decode(eb.view()) == xy, "C19/base64-roundtrip", "base64_decode(base64_encode(xy))");
    std::string hu = tlx::hexdump(xyb.view()), hl = tlx::hexdump_lc(xyb.view());
    SWEEP_CHECK(hu == ref_hex(xy, true), "C19/hexdump", "hexdump(xy) = " << hu);
    SWEEP_CHECK(hl == ref_hex(xy, false), "C19/hexdump_lc", "hexdump_lc(xy) = " << hl);
    SWEEP_CHECK(tlx::parse_hexdump(hu) == xy && tlx::parse_hexdump(hl) == xy, "C19/hexdump-roundtrip", "parse_hexdump(hexdump(xy))");
}

//! all forms of to_lower / to_upper and the one-byte hexdump overloads for the byte x
void sweep_byte(unsigned char x) {
    const unsigned char y = x; // for the message macro
    const char cx = (char)x;
    const unsigned char wl = ref_lower(x), wu = ref_upper(x);
    for (int shape = 0; shape < 2; ++shape) {
        const std::string a = shape == 0 ? std::string(1, cx) : std::string("aZ") + cx + "zA" + cx, b = a;
        SWEEP_CHECK((unsigned char)tlx::to_lower(cx) == wl, "C19/to_lower", "to_lower(char) = " << (int)(unsigned char)tlx::to_lower(cx));
        SWEEP_CHECK((unsigned char)tlx::to_upper(cx) == wu, "C19/to_upper", "to_upper(char) = " << (int)(unsigned char)tlx::to_upper(cx));
        Buf ab(a);
        std::string lo = tlx::to_lower(ab.view()), up = tlx::to_upper(ab.view());
        SWEEP_CHECK(lo == ref_lower(a), "C19/to_lower", "to_lower(view) = " << show(lo));
        SWEEP_CHECK(up == ref_upper(a), "C19/to_upper", "to_upper(view) = " << show(up));
        std::string w = a;
        SWEEP_CHECK(&tlx::to_lower(&w) == &w && w == ref_lower(a), "C19/to_lower", "to_lower(&s) = " << show(w));
        w = a;
        SWEEP_CHECK(&tlx::to_upper(&w) == &w && w == ref_upper(a), "C19/to_upper", "to_upper(&s) = " << show(w));
        std::vector<char> vc(a.begin(), a.end());
        std::vector<std::uint8_t> vu(a.begin(), a.end());
        const std::string hu = ref_hex(a, true), hl = ref_hex(a, false);
        SWEEP_CHECK(tlx::hexdump(ab.data(), ab.n) == hu && tlx::hexdump(ab.view()) == hu && tlx::hexdump(vc) == hu && tlx::hexdump(vu) == hu, "C19/hexdump",
                    "a hexdump overload differs from " << hu);
        SWEEP_CHECK(tlx::hexdump_lc(ab.data(), ab.n) == hl && tlx::hexdump_lc(ab.view()) == hl && tlx::hexdump_lc(vc) == hl && tlx::hexdump_lc(vu) == hl,
                    "C19/hexdump_lc", "a hexdump_lc overload differs from " << hl);
    }
    const std::string a(1, cx), b = a;
    SWEEP_CHECK(tlx::hexdump_type(x) == ref_hex(a, true) && tlx::hexdump_type(cx) == ref_hex(a, true), "C19/hexdump_type", "hexdump_type(byte)");
    SWEEP_CHECK(tlx::hexdump_lc_type(x) == ref_hex(a, false) && tlx::hexdump_lc_type(cx) == ref_hex(a, false), "C19/hexdump_lc_type", "hexdump_lc_type(byte)");
}

void c19_byte_sweep(pbt::Source& src) {
    uint64_t idx = src.bits(8), total = src.bits(8);
    if (total == 0) total = 1, idx = 0; // a case file shorter than 16 bytes: run everything
    uint64_t pairs = 0;
    for (uint64_t xi = idx; xi < 256; xi += total) {
        const unsigned char x = (unsigned char)xi;
        sweep_byte(x);
        for (unsigned yi = 0; yi < 256; ++yi) {
            const unsigned char y = (unsigned char)yi;
            const bool cstr_ok = x != 0 && y != 0;
            // one-character strings
            sweep_pair(x, y, std::string(1, (char)x), std::string(1, (char)y), cstr_ok);
            sweep_affix(x, y, std::string(1, (char)x), std::string(1, (char)y), 0, cstr_ok);
            // the pair embedded in a common context that differs in case only
            const std::string a = std::string("aZ") + (char)x + "[q", b = std::string("Az") + (char)y + "[Q";
            sweep_pair(x, y, a, b, cstr_ok);
            sweep_affix(x, y, a, b, 2, cstr_ok);
            sweep_char_helpers(x, y);
            ++pairs;
        }
    }
    pbt::count(pairs); // byte pairs (each through every helper listed above)
    pbt::label("chunk");
    pbt::nontrivial();
    PBT_LOG("byte_sweep chunk " << idx << " of " << total << "\n");
}

} // namespace

PBT_PROPERTY(icase) { c19::long_mode() = false, c19_icase(src); }
PBT_PROPERTY(icase_long) { c19::long_mode() = true, c19_icase(src); }
PBT_PROPERTY(helpers_alias) { c19::long_mode() = false, c19_helpers_alias(src); }
PBT_PROPERTY(codec_extra) { c19::long_mode() = false, c19_codec_extra(src); }
PBT_PROPERTY(byte_sweep) { c19::long_mode() = false, c19_byte_sweep(src); }
