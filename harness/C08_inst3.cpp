// C08 oracle instantiation: Rec / KLess
#include "C08_common.hpp"
namespace c08 {
void run_cfg3(int rsel, bool ptr, const std::vector<std::vector<int>>& keys, bool dp, bool ds, Stats& st) {
    disp_rank<Rec, KLess, false>(rsel, ptr, keys, dp, ds, st);
}
} // namespace c08
