// C13 (types) — RadixHeap<record{std::string,K,Tracked}, functor owning std::function, K, R> instantiations
#include "C13_radix_types_impl.hpp"
namespace c13 {
IRadix* make_radix_types_b(unsigned cfg) {
    switch (cfg) {
    case 4: return new RadixImplP<uint16_t, 16, RecPay<uint16_t, 16>>();
    case 5: return new RadixImplP<int32_t, 32, RecPay<int32_t, 32>>();
    case 6: return new RadixImplP<uint64_t, 8, RecPay<uint64_t, 8>>();
    default: return new RadixImplP<int8_t, 2, RecPay<int8_t, 2>>();
    }
}
} // namespace c13
