// C09 — target loser_tree_api, value type K24 (see C09_loser_tree_api.hpp)
#include "C09_loser_tree_api.hpp"

namespace c09api {
void run_k24(pbt::Source& src, int tc) { run_api<K24>(src, tc, "type=K24"); }
} // namespace c09api
