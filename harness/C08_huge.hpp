// C08 — shared part of the partition_huge / selection_huge targets (see C08_huge.cpp for the description): work budget,
// element types and orders, storage (heap block or anonymous zero-page mapping), run-structure model and the oracle
// template.  The oracle is instantiated per configuration in C08_hinst<N>.cpp so that the TUs compile in parallel.
#pragma once
#include "C08_common.hpp"

#include <climits>
#include <cstring>
#include <sys/mman.h>
#include <unistd.h>

#if defined(__SANITIZE_ADDRESS__)
#define C08_ASAN 1
#elif defined(__has_feature)
#if __has_feature(address_sanitizer)
#define C08_ASAN 1
#endif
#endif
#ifdef C08_ASAN
#include <sanitizer/asan_interface.h>
#endif

static_assert(sizeof(size_t) == 8 && sizeof(ptrdiff_t) == 8 && sizeof(long long) == 8 && sizeof(void*) == 8,
              "C08 *_huge targets address sequences of more than 2^32 elements: 64-bit platform required");

namespace c08h {
using c08::splitmix;

// ----- work budget ------------------------------------------------------------------------------------------------
struct Budget {
    uint64_t ticks = 0, limit = UINT64_MAX;
    uint64_t max_used = 0; // per case: largest number of comparisons one call used
    uint64_t rank = 0, N = 0;
    int m = 0;
    const char* what = "";
};
extern Budget g_budget; // C08_huge.cpp

[[noreturn]] void runaway(); // C08_huge.cpp: fails the case with C08/runaway-operation

inline void tick() {
    if (++g_budget.ticks > g_budget.limit) runaway();
}
inline int ilog2(uint64_t x) {
    int l = 0;
    while (x >>= 1) ++l;
    return l;
}
//! comparisons + iterator dereferences one call may make: the halving refinement needs O(m log m) per round and log2(nmax+1) rounds; measured
//! worst case over 3000 generated tuples (all rank samples) is 50x below this bound (C08_HUGE_STATS in C08_huge.cpp)
inline uint64_t work_limit(int m, uint64_t nmax) {
    return 100000 + 128 * (uint64_t)(m + 2) * (uint64_t)(ilog2((uint64_t)m) + 2) * (uint64_t)(ilog2(nmax + 1) + 2);
}

// ----- element types and orders -----------------------------------------------------------------------------------
// The byte pattern zero must be a key in the middle of the order: signed one-byte keys.
struct EL { // used with the DEFAULT comparator argument (std::less<EL> -> this operator<)
    int8_t k;
};
inline bool operator<(const EL& a, const EL& b) {
    tick();
    return a.k < b.k;
}
struct EN { // no operator< / operator==: the routines may use nothing but the comparator
    int8_t k;
};
struct ER { // 2-byte record, no operators; tag distinguishes equal keys
    int8_t k;
    uint8_t tag;
};
static_assert(sizeof(EL) == 1 && sizeof(EN) == 1 && sizeof(ER) == 2, "element sizes");

struct HLess {
    template <class T>
    bool operator()(const T& a, const T& b) const {
        tick();
        return a.k < b.k;
    }
};
struct HGreater {
    template <class T>
    bool operator()(const T& a, const T& b) const {
        tick();
        return a.k > b.k;
    }
};
//! projection order: bytes are equivalent iff floor((k+128)/4) is equal; the zero byte shares its class with 1, 2, 3
struct HProj {
    template <class T>
    bool operator()(const T& a, const T& b) const {
        tick();
        return (((int)a.k + 128) >> 2) < (((int)b.k + 128) >> 2);
    }
};

// A configuration maps "class offsets" d in [-30, 30] (position of an equivalence class relative to the class of the
// zero byte, ascending in comparator order) to elements and back.
struct CfgDefault {
    typedef EL T;
    typedef std::less<EL> Comp;
    static constexpr bool Default = true;
    static T make(int d, unsigned) { return EL{(int8_t)d}; }
    static int dcls(const T& x) { return x.k; }
};
struct CfgGreater {
    typedef EN T;
    typedef HGreater Comp;
    static constexpr bool Default = false;
    static T make(int d, unsigned) { return EN{(int8_t)-d}; }
    static int dcls(const T& x) { return -x.k; }
};
struct CfgProj {
    typedef EN T;
    typedef HProj Comp;
    static constexpr bool Default = false;
    static T make(int d, unsigned h) { return EN{(int8_t)(4 * d + (int)(h & 3))}; }
    static int dcls(const T& x) { return (((int)x.k + 128) >> 2) - 32; }
};
struct CfgRec {
    typedef ER T;
    typedef HLess Comp;
    static constexpr bool Default = false;
    static T make(int d, unsigned h) { return ER{(int8_t)d, (uint8_t)(h >> 8)}; }
    static int dcls(const T& x) { return x.k; }
};

// ----- counting iterator -------------------------------------------------------------------------------------------
//! random-access iterator over T* whose every dereference counts towards the work budget (a priority queue of one
//! or two sequences makes hardly any comparison, so comparisons alone would not bound a runaway loop for m <= 2)
template <class T>
struct CIt {
    typedef std::random_access_iterator_tag iterator_category;
    typedef T value_type;
    typedef ptrdiff_t difference_type;
    typedef T* pointer;
    typedef T& reference;
    T* p = nullptr;
    CIt() = default;
    explicit CIt(T* q) : p(q) {}
    reference operator*() const {
        tick();
        return *p;
    }
    pointer operator->() const {
        tick();
        return p;
    }
    reference operator[](difference_type i) const {
        tick();
        return p[i];
    }
    CIt& operator++() { return ++p, *this; }
    CIt& operator--() { return --p, *this; }
    CIt operator++(int) { return CIt(p++); }
    CIt operator--(int) { return CIt(p--); }
    CIt& operator+=(difference_type d) { return p += d, *this; }
    CIt& operator-=(difference_type d) { return p -= d, *this; }
    friend CIt operator+(CIt a, difference_type d) { return CIt(a.p + d); }
    friend CIt operator+(difference_type d, CIt a) { return CIt(a.p + d); }
    friend CIt operator-(CIt a, difference_type d) { return CIt(a.p - d); }
    friend difference_type operator-(const CIt& a, const CIt& b) { return a.p - b.p; }
    friend bool operator==(const CIt& a, const CIt& b) { return a.p == b.p; }
    friend bool operator!=(const CIt& a, const CIt& b) { return a.p != b.p; }
    friend bool operator<(const CIt& a, const CIt& b) { return a.p < b.p; }
    friend bool operator>(const CIt& a, const CIt& b) { return a.p > b.p; }
    friend bool operator<=(const CIt& a, const CIt& b) { return a.p <= b.p; }
    friend bool operator>=(const CIt& a, const CIt& b) { return a.p >= b.p; }
};

// ----- storage ----------------------------------------------------------------------------------------------------
template <class T>
struct Block {
    T* p = nullptr;
    uint64_t len = 0;
    T* heap = nullptr;
    uint8_t* base = nullptr;
    size_t total = 0;
    uint8_t* slack = nullptr;
    size_t slack_len = 0;

    Block() = default;
    Block(const Block&) = delete;
    Block& operator=(const Block&) = delete;
    ~Block() { release(); }

    bool alloc(uint64_t n, bool on_heap) {
        len = n;
        if (on_heap) {
            heap = new T[n];
            p = heap;
            return true;
        }
        const size_t page = (size_t)sysconf(_SC_PAGESIZE);
        const size_t bytes = (size_t)n * sizeof(T);
        const size_t rounded = (bytes + page - 1) / page * page;
        total = rounded + 2 * page;
        void* r = mmap(nullptr, total, PROT_READ | PROT_WRITE, MAP_PRIVATE | MAP_ANONYMOUS | MAP_NORESERVE, -1, 0);
        if (r == MAP_FAILED) {
            total = 0;
            return false;
        }
        base = (uint8_t*)r;
        if (mprotect(base, page, PROT_NONE) != 0 || mprotect(base + page + rounded, page, PROT_NONE) != 0) return false;
        p = (T*)(base + page);
        if (rounded > bytes) {
            slack = base + page + bytes;
            slack_len = rounded - bytes;
#ifdef C08_ASAN
            ASAN_POISON_MEMORY_REGION(slack, slack_len);
#endif
        }
        return true;
    }
    void release() {
        delete[] heap;
        heap = nullptr;
        if (base) {
#ifdef C08_ASAN
            if (slack) ASAN_UNPOISON_MEMORY_REGION(slack, slack_len);
#endif
            munmap(base, total);
            base = nullptr;
        }
    }
};

// ----- shape ------------------------------------------------------------------------------------------------------
struct HSeq {
    uint64_t len = 0;
    std::vector<int8_t> head, tail; // class offsets, ascending; head <= 0 and tail >= 0 when zeros > 0
    uint64_t zeros = 0;             // unwritten elements between head and tail (class offset 0)
};
enum { NC_16 = 0, NC_24, NC_31, NC_32, NC_BEYOND, NC_NMAX, NC_MANY };
struct HugeShape {
    int cfg = 0, rsel = 0, ncls = 0, shape = 0, D = 0, m = 1;
    uint64_t seed = 0, N = 0, nmax = 0;
    std::vector<HSeq> seqs;
};

constexpr uint64_t P16 = 1ull << 16, P24 = 1ull << 24, P31 = 1ull << 31, P32 = 1ull << 32, P33 = 1ull << 33;

//! 2^j - 1, 2^j, 2^j + 1 (zero byte -> 2^j - 1)
// ----- model: run structure and closed-form split -----------------------------------------------------------------
struct Model {
    int m = 0;
    uint64_t N = 0;
    std::vector<uint64_t> lens;
    std::vector<std::vector<std::pair<int, uint64_t>>> runs; // per sequence: (class index = d + 32, count), ascending
    uint64_t T[64] = {}, P[65] = {};
    bool class_in_two_seqs = false;

    explicit Model(const HugeShape& sh) : m(sh.m) {
        runs.resize(m);
        int owner[64];
        for (int& o : owner) o = -1;
        for (int i = 0; i < m; ++i) {
            const HSeq& q = sh.seqs[i];
            auto add = [&](int d, uint64_t c) {
                if (c == 0) return;
                int ci = d + 32;
                if (!runs[i].empty() && runs[i].back().first == ci) runs[i].back().second += c;
                else runs[i].emplace_back(ci, c);
                T[ci] += c;
                if (owner[ci] >= 0 && owner[ci] != i) class_in_two_seqs = true;
                owner[ci] = i;
            };
            for (int8_t d : q.head) add(d, 1);
            add(0, q.zeros);
            for (int8_t d : q.tail) add(d, 1);
            lens.push_back(q.len);
            N += q.len;
        }
        for (int c = 0; c < 64; ++c) P[c + 1] = P[c] + T[c];
    }
    //! class containing rank r (r < N)
    int class_of(uint64_t r) const {
        int c = 0;
        while (!(P[c] <= r && r < P[c + 1])) ++c;
        return c;
    }
    //! the first r elements of the stable merge, per sequence
    void expect(uint64_t r, std::vector<uint64_t>& e) const {
        if (r >= N) {
            e = lens;
            return;
        }
        const int C = class_of(r);
        uint64_t rem = r - P[C];
        for (int i = 0; i < m; ++i) {
            uint64_t less = 0, take = 0;
            for (auto& rn : runs[i]) {
                if (rn.first < C) less += rn.second;
                else if (rn.first == C) take = std::min(rn.second, rem);
                else break;
            }
            rem -= take;
            e[i] = less + take;
        }
    }
    //! [lb, ub) of class index c in sequence i
    void bounds(int i, int c, uint64_t& lb, uint64_t& ub) const {
        lb = 0;
        for (auto& rn : runs[i]) {
            if (rn.first < c) lb += rn.second;
            else if (rn.first == c) {
                ub = lb + rn.second;
                return;
            } else break;
        }
        ub = lb;
    }
};

struct HStats {
    bool cut_multi = false, cut3 = false;
    bool rank_ge_31 = false, rank_ge_32 = false, off_ge_31 = false, off_ge_32 = false;
    size_t ranks_checked = 0;
    bool mmap_failed = false;
};

inline unsigned mixh(uint64_t seed, uint64_t i, uint64_t j) {
    uint64_t z = seed ^ (i * 0x9E3779B97F4A7C15ull) ^ (j * 0xC2B2AE3D27D4EB4Full);
    z = (z ^ (z >> 29)) * 0xBF58476D1CE4E5B9ull;
    return (unsigned)(z >> 24);
}

template <class Cfg, class RankT>
void check_huge(const HugeShape& sh, const Model& mo, const std::vector<uint64_t>& ranks, bool do_partition, bool do_selection,
                HStats& st) {
    typedef typename Cfg::T T;
    typedef typename Cfg::Comp Comp;
    Comp comp;
    const int m = sh.m;
    const uint64_t N = mo.N;

    std::vector<Block<T>> blk(m);
    for (int i = 0; i < m; ++i) {
        const HSeq& q = sh.seqs[i];
        if (!blk[i].alloc(q.len, q.zeros == 0 && q.len <= 64)) {
            st.mmap_failed = true;
            return;
        }
        T* p = blk[i].p;
        for (size_t j = 0; j < q.head.size(); ++j) p[j] = Cfg::make(q.head[j], mixh(sh.seed, (uint64_t)i, j));
        const uint64_t t0 = q.len - q.tail.size();
        for (size_t j = 0; j < q.tail.size(); ++j) p[t0 + j] = Cfg::make(q.tail[j], mixh(sh.seed, (uint64_t)i, t0 + j));
    }
    std::vector<std::vector<T>> hsave(m), tsave(m);
    for (int i = 0; i < m; ++i) {
        const HSeq& q = sh.seqs[i];
        hsave[i].assign(blk[i].p, blk[i].p + q.head.size());
        tsave[i].assign(blk[i].p + (q.len - q.tail.size()), blk[i].p + q.len);
    }

    typedef CIt<T> It;
    std::vector<std::pair<It, It>> seqs(m);
    for (int i = 0; i < m; ++i) seqs[i] = std::make_pair(It(blk[i].p), It(blk[i].p + sh.seqs[i].len));
    const std::vector<std::pair<It, It>> seqs_copy = seqs;

    const uint64_t limit = work_limit(m, sh.nmax);
    g_budget.N = N;
    g_budget.m = m;

    T dummy_storage[1] = {Cfg::make(0, 0)};
    const It dummy(dummy_storage);
    std::vector<uint64_t> expect(m, 0), o(m, 0);
    std::vector<It> offs(m);

    for (uint64_t r : ranks) {
        ++st.ranks_checked;
        if (r >= P31) st.rank_ge_31 = true;
        if (r >= P32) st.rank_ge_32 = true;
        g_budget.rank = r;

        if (do_partition) {
            mo.expect(r, expect);
            std::fill(offs.begin(), offs.end(), dummy);
            const RankT rank = (RankT)r;
            g_budget.what = "multisequence_partition";
            g_budget.ticks = 0;
            g_budget.limit = limit;
            if constexpr (Cfg::Default)
                tlx::multisequence_partition(seqs.begin(), seqs.end(), rank, offs.begin());
            else
                tlx::multisequence_partition(seqs.begin(), seqs.end(), rank, offs.begin(), comp);
            g_budget.limit = UINT64_MAX;
            g_budget.max_used = std::max(g_budget.max_used, g_budget.ticks);

            auto show = [&]() {
                std::ostringstream os;
                os << "rank " << r << " of N=" << N << ": ";
                if (m <= 48) {
                    os << "offsets (";
                    for (int i = 0; i < m; ++i) os << (i ? "," : "") << (int64_t)o[i];
                    os << ") expected (";
                    for (int i = 0; i < m; ++i) os << (i ? "," : "") << expect[i];
                    os << "); lengths";
                    for (int i = 0; i < m; ++i) os << " " << sh.seqs[i].len;
                } else {
                    os << m << " sequences; differing offsets:";
                    int shown = 0;
                    for (int i = 0; i < m && shown < 8; ++i)
                        if (o[i] != expect[i]) os << " seq" << i << "(len " << sh.seqs[i].len << "): " << (int64_t)o[i] << " expected " << expect[i], ++shown;
                }
                return os.str();
            };
            // 1. offsets written and inside their sequences
            for (int i = 0; i < m; ++i) {
                const T* p = offs[i].p;
                const T* b = blk[i].p;
                PBT_CHECK(p != dummy.p, "C08/offset-range", "offset of sequence " << i << " not written at rank " << r << " of N=" << N);
                bool inside = !std::less<const T*>()(p, b) && !std::less<const T*>()(b + sh.seqs[i].len, p);
                o[i] = inside ? (uint64_t)(p - b) : (uint64_t)-1;
                PBT_CHECK(inside, "C08/offset-range", "offset of sequence " << i << " outside the sequence; " << show());
            }
            // 2. left parts hold exactly rank elements
            uint64_t sum = 0;
            for (int i = 0; i < m; ++i) sum += o[i];
            PBT_CHECK(sum == r, "C08/sum", "left parts hold " << sum << " elements; " << show());
            // 3. no element on the left is greater than any element on the right (boundary elements suffice: sorted)
            const T* maxleft = nullptr;
            const T* minright = nullptr;
            for (int i = 0; i < m; ++i) {
                const T* b = blk[i].p;
                if (o[i] > 0 && (!maxleft || comp(*maxleft, b[o[i] - 1]))) maxleft = &b[o[i] - 1];
                if (o[i] < sh.seqs[i].len && (!minright || comp(b[o[i]], *minright))) minright = &b[o[i]];
            }
            if (maxleft && minright)
                PBT_CHECK(!comp(*minright, *maxleft), "C08/order",
                          "left element (class " << Cfg::dcls(*maxleft) << ") is greater than right element (class " << Cfg::dcls(*minright)
                                                 << "); " << show());
            // 4. tie rule on the class cut by the split
            if (maxleft && minright && !comp(*maxleft, *minright)) {
                const int c = Cfg::dcls(*minright) + 32;
                int present = 0;
                bool higher_has_left = false;
                for (int i = m - 1; i >= 0; --i) {
                    uint64_t lb, ub;
                    mo.bounds(i, c, lb, ub);
                    if (ub > lb) ++present;
                    PBT_CHECK(!(higher_has_left && o[i] < ub), "C08/tie-rule",
                              "equivalent elements across the split are not taken from lower-numbered sequences first (sequence "
                                  << i << " keeps one on the right); " << show());
                    if (o[i] > lb) higher_has_left = true;
                }
                if (present >= 2) st.cut_multi = true;
                if (present >= 3) st.cut3 = true;
            }
            // safety net: 1-4 determine the split uniquely = closed form from the run structure
            for (int i = 0; i < m; ++i)
                PBT_CHECK(o[i] == expect[i], "C08/oracle-inconsistent", "oracles 1-4 passed but split differs from the stable merge; " << show());
        }

        if (do_selection && r < N) {
            RankT off = (RankT)12345;
            const RankT rank = (RankT)r;
            T v = Cfg::make(0, 0);
            g_budget.what = "multisequence_selection";
            g_budget.ticks = 0;
            g_budget.limit = limit;
            if constexpr (Cfg::Default)
                v = tlx::multisequence_selection<T>(seqs.begin(), seqs.end(), rank, off);
            else
                v = tlx::multisequence_selection<T>(seqs.begin(), seqs.end(), rank, off, comp);
            g_budget.limit = UINT64_MAX;
            g_budget.max_used = std::max(g_budget.max_used, g_budget.ticks);
            const int C = mo.class_of(r);
            const T want = Cfg::make(C - 32, 0);
            PBT_CHECK(!comp(v, want) && !comp(want, v), "C08/sel-value",
                      "selection at rank " << r << " of N=" << N << " returned an element of class " << Cfg::dcls(v) << ", the element at that rank has class "
                                           << (C - 32));
            const uint64_t woff = r - mo.P[C];
            PBT_CHECK((uint64_t)off == woff && (long long)off >= 0, "C08/sel-offset",
                      "selection at rank " << r << " of N=" << N << " (class " << (C - 32) << "): offset " << (long long)off << ", expected " << woff);
            if (woff >= P31) st.off_ge_31 = true;
            if (woff >= P32) st.off_ge_32 = true;
        }
    }

    // iterator pairs and the written regions untouched
    for (int i = 0; i < m; ++i) {
        const HSeq& q = sh.seqs[i];
        PBT_CHECK(seqs[i] == seqs_copy[i], "C08/inputs-modified", "iterator pair " << i << " changed");
        bool same = (hsave[i].empty() || memcmp(hsave[i].data(), blk[i].p, hsave[i].size() * sizeof(T)) == 0) &&
                    (tsave[i].empty() || memcmp(tsave[i].data(), blk[i].p + (q.len - q.tail.size()), tsave[i].size() * sizeof(T)) == 0);
        PBT_CHECK(same, "C08/inputs-modified", "sequence " << i << " changed");
    }
}

template <class Cfg>
void disp_huge(const HugeShape& sh, const Model& mo, const std::vector<uint64_t>& ranks, bool dp, bool ds, HStats& st, int rsel) {
    switch (rsel) {
    case 0: check_huge<Cfg, ptrdiff_t>(sh, mo, ranks, dp, ds, st); break;
    case 1: check_huge<Cfg, size_t>(sh, mo, ranks, dp, ds, st); break;
    case 2: check_huge<Cfg, long long>(sh, mo, ranks, dp, ds, st); break;
    default: check_huge<Cfg, int>(sh, mo, ranks, dp, ds, st); break; // only when N <= INT_MAX
    }
}

// one function per configuration (C08_hinst<N>.cpp)
void run_hcfg0(const HugeShape& sh, const Model& mo, const std::vector<uint64_t>& ranks, bool dp, bool ds, HStats& st, int rsel); // 1-byte / default std::less
void run_hcfg1(const HugeShape& sh, const Model& mo, const std::vector<uint64_t>& ranks, bool dp, bool ds, HStats& st, int rsel); // 1-byte / greater
void run_hcfg2(const HugeShape& sh, const Model& mo, const std::vector<uint64_t>& ranks, bool dp, bool ds, HStats& st, int rsel); // 1-byte / projection
void run_hcfg3(const HugeShape& sh, const Model& mo, const std::vector<uint64_t>& ranks, bool dp, bool ds, HStats& st, int rsel); // 2-byte record / less

} // namespace c08h
