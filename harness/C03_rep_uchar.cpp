// C03 — uchar representation, entry points without LCP output
#include "C03_rep_uchar_impl.hpp"
