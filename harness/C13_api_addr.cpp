// C13 (api, part 2) — target addressable_api (see C13_api_addr_impl.hpp); configurations 0..3, 4..6 are in C13_api_addr_b.cpp
#include "C13_api_addr_impl.hpp"

void c13_addr_api_hi(pbt::Source& src, unsigned cfg, size_t U, std::vector<int>& prio, const char* name);

PBT_PROPERTY(addressable_api) {
    unsigned cfg = (unsigned)src.range(0, 6);
    // key universe 0..U-1: small, or large enough for a second level of the big arities
    size_t U = src.chance(64) ? (size_t)src.range(21, 200) : (size_t)src.range(1, 20);
    static const char* const CL[7] = {"cfg=AddrHeap<uint32>",         "cfg=d_ary_addressable_int_heap<uint16,3>", "cfg=AddrHeap<uint32,16,greater>", "cfg=AddrHeap<uint64,64,table>",
                                      "cfg=AddrHeap<uint8,13,fnptr>", "cfg=AddrHeap<ulonglong,9,closure>",        "cfg=AddrHeap<uint8,64>"};
    pbt::label(CL[cfg]);
    if (U > 20) pbt::label("universe>20");
    const bool table = cfg == 3 || cfg == 4 || cfg == 5;
    std::vector<int> prio(U + 3, 0);
    if (table)
        for (size_t i = 0; i < U; ++i) prio[i] = (int)src.range(0, 6);
    const std::vector<int>* pp = &prio;
    switch (cfg) {
    case 0: {
        typedef tlx::DAryAddressableIntHeap<uint32_t> H; // every default: arity 2, std::less, default-constructed comparator
        history<H>(src, ORD_LESS, U, prio, [] { return H(); }, 2, CL[cfg]);
        break;
    }
    case 1: {
        typedef tlx::d_ary_addressable_int_heap<uint16_t, 3> H;
        history<H>(src, ORD_LESS, U, prio, [] { return H(); }, 3, CL[cfg]);
        break;
    }
    case 2: {
        typedef tlx::DAryAddressableIntHeap<uint32_t, 16, std::greater<uint32_t>> H;
        history<H>(src, ORD_GREATER, U, prio, [] { return H(); }, 16, CL[cfg]);
        break;
    }
    case 3: {
        typedef tlx::DAryAddressableIntHeap<uint64_t, 64, TableCmp<uint64_t>> H;
        history<H>(src, ORD_TABLE, U, prio, [pp] { return H(TableCmp<uint64_t>{pp}); }, 64, CL[cfg]);
        break;
    }
    default: c13_addr_api_hi(src, cfg, U, prio, CL[cfg]); break;
    }
}
