// C17 (part 2) — tlx::SplayTree (set and multiset, less/greater, int and Tracked keys, CountingAllocator) vs.
// std::multiset<int>: return values, size, in-order key sequence, membership, validity as a search tree (own walk
// from the root), every node allocated = stored (freed exactly once), including operations on the empty tree and
// reuse after clear().
// Rule 2/3: find(k) on an absent key may return any node of the tree (or nullptr on an empty tree); check() is
// only asserted while no duplicates are stored (it is written for strict order).
#include "../engine/pbt.hpp"
#include "../engine/tracked.hpp"

#include <algorithm>
#include <memory>
#include <set>

#include "C17_splay_impl.hpp"

namespace {

using c17::ISplay;

std::string show(const std::vector<int>& v) {
    std::ostringstream os;
    os << "{";
    for (size_t i = 0; i < v.size(); ++i) os << (i ? "," : "") << v[i];
    os << "}";
    return os.str();
}

void splay_history(pbt::Source& src, unsigned kind) {
    const bool dup = kind & 1, greater = kind & 2, tracked = kind & 4;
    verif::Ledger::get().reset();
    verif::AllocLedger::get().reset();
    const int U = (int)src.range(1, 12);
    {
        std::unique_ptr<ISplay> tp(tracked ? c17::make_splay_tracked(kind) : c17::make_splay_int(kind));
        ISplay& t = *tp;
        std::multiset<int> model;
        bool cleared = false, nt = false;
        auto before = [&](int a, int b) { return greater ? a > b : a < b; };
        auto sorted_model = [&]() {
            std::vector<int> v(model.begin(), model.end());
            if (greater) std::reverse(v.begin(), v.end());
            return v;
        };
        auto erase_one = [&](int k) { model.erase(model.find(k)); };
        auto has_dups = [&]() {
            for (auto it = model.begin(); it != model.end(); ++it)
                if (model.count(*it) > 1) return true;
            return false;
        };
        c17::Walk w;
        auto check = [&](const char* after) {
            std::vector<int> want = sorted_model();
            PBT_CHECK(t.size() == model.size(), "C17/splay-size", "after " << after << ": size() " << t.size() << " but model " << show(want));
            PBT_CHECK(t.empty() == model.empty(), "C17/splay-empty", "after " << after << ": empty() " << t.empty() << " but model " << show(want));
            // every node allocated is stored, every stored node is allocated once
            PBT_CHECK(verif::AllocLedger::get().live_count() == model.size(), "C17/splay-nodes",
                      "after " << after << ": " << verif::AllocLedger::get().live_count() << " nodes allocated but " << model.size() << " keys stored");
            if (tracked)
                PBT_CHECK(verif::Ledger::get().live_count() == model.size(), "C17/splay-keys-alive",
                          "after " << after << ": " << verif::Ledger::get().live_count() << " key objects alive but " << model.size() << " keys stored");
            // own walk from the root: finite tree of distinct live nodes, in-order sequence == model (hence a valid search tree)
            w = c17::Walk();
            t.walk(w, model.size());
            PBT_CHECK(w.err.empty(), "C17/splay-structure", "after " << after << ": " << w.err << "; model " << show(want));
            PBT_CHECK(w.inorder == want, "C17/splay-inorder", "after " << after << ": in-order walk " << show(w.inorder) << " but model " << show(want));
            for (size_t i = 1; i < w.inorder.size(); ++i)
                PBT_CHECK(dup ? !before(w.inorder[i], w.inorder[i - 1]) : before(w.inorder[i - 1], w.inorder[i]), "C17/splay-order",
                          "after " << after << ": not a search tree, in-order " << show(w.inorder));
            std::vector<int> tr;
            t.traverse(tr);
            PBT_CHECK(tr == want, "C17/splay-traverse", "after " << after << ": traverse_preorder gives " << show(tr) << " but model " << show(want));
            if (!has_dups()) PBT_CHECK(t.check(), "C17/splay-check", "after " << after << ": check() false; model " << show(want));
        };

        unsigned nops = 0;
        check("construction");
        while (src.more() && nops < 150) {
            ++nops;
            unsigned op = (unsigned)src.weighted({10, 6, 4, 4, 3, 1});
            int k;
            if (op != 0 && !model.empty() && src.chance(128)) { // half of the queries/erasures hit a stored key
                auto pit = model.begin();
                std::advance(pit, src.index(model.size()));
                k = *pit;
            } else k = (int)src.range(0, U);
            bool present = model.count(k) > 0;
            if (model.empty() && op != 0) pbt::label("op_on_empty"), nt = true;
            if (cleared) nt = true;
            switch (op) {
            case 0: {
                bool r = t.insert(k);
                PBT_LOG("insert(" << k << ") -> " << r << (present ? " [already present]" : "") << "\n");
                bool want = dup || !present;
                PBT_CHECK(r == want, "C17/splay-insert", "insert(" << k << ") returned " << r << "; model " << show(sorted_model()));
                if (want) model.insert(k);
                if (present && dup) pbt::label("insert_duplicate");
                if (present && !dup) pbt::label("insert_existing_rejected");
                pbt::label("insert");
                break;
            }
            case 1: {
                bool r = t.erase(k);
                PBT_LOG("erase(" << k << ") -> " << r << "\n");
                PBT_CHECK(r == present, "C17/splay-erase", "erase(" << k << ") returned " << r << "; model " << show(sorted_model()));
                if (present && model.count(k) > 1) pbt::label("erase_one_of_duplicates");
                if (present) erase_one(k);
                pbt::label(present ? "erase" : "erase_absent");
                break;
            }
            case 2: {
                bool r = t.exists(k);
                PBT_LOG("exists(" << k << ") -> " << r << "\n");
                PBT_CHECK(r == present, "C17/splay-exists", "exists(" << k << ") returned " << r << "; model " << show(sorted_model()));
                pbt::label(model.empty() ? "exists_on_empty" : "exists");
                break;
            }
            case 3: {
                int key = 0;
                const void* node = nullptr;
                int r = t.find(k, &key, &node);
                PBT_LOG("find(" << k << ") -> " << (r ? "node " + std::to_string(key) : std::string("nullptr")) << "\n");
                if (present) PBT_CHECK(r == 1 && key == k, "C17/splay-find", "find(" << k << ") did not return a node with that key although it is stored (got " << (r ? std::to_string(key) : std::string("nullptr")) << ")");
                else PBT_CHECK(r == 0 || key != k, "C17/splay-find", "find(" << k << ") returned a node with key " << k << " although it is not stored");
                if (model.empty()) PBT_CHECK(r == 0, "C17/splay-find", "find(" << k << ") on an empty tree returned a node");
                if (r) {
                    // whatever it returns must be a node of this tree
                    c17::Walk w2;
                    t.walk(w2, model.size());
                    PBT_CHECK(w2.err.empty() && w2.nodes.count(node), "C17/splay-find", "find(" << k << ") returned a pointer that is not a node of the tree");
                }
                pbt::label(model.empty() ? "find_on_empty" : present ? "find_present" : "find_absent");
                break;
            }
            case 4: {
                // erase(const Node*) with whatever node find(k) returned
                int key = 0;
                int r = t.erase_node(k, &key);
                PBT_LOG("erase(find(" << k << ")) -> " << (r < 0 ? std::string("find returned nullptr") : "node " + std::to_string(key) + ", erase -> " + std::to_string(r)) << "\n");
                if (r < 0) {
                    PBT_CHECK(model.empty(), "C17/splay-find", "find(" << k << ") returned nullptr on a non-empty tree " << show(sorted_model()));
                } else {
                    PBT_CHECK(model.count(key) > 0, "C17/splay-find", "find(" << k << ") returned a node with key " << key << " which is not stored");
                    PBT_CHECK(r == 1, "C17/splay-erase", "erase(node with key " << key << ") returned false");
                    if (present) PBT_CHECK(key == k, "C17/splay-find", "find(" << k << ") returned key " << key << " although " << k << " is stored");
                    erase_one(key);
                }
                pbt::label("erase_node");
                break;
            }
            default: {
                PBT_LOG("clear()\n");
                if (!model.empty()) pbt::label("clear_nonempty");
                t.clear();
                model.clear();
                cleared = true;
                pbt::label("clear");
                break;
            }
            }
            check("op");
            if (cleared && !model.empty()) pbt::label("reuse_after_clear");
            if (model.size() >= 6) pbt::label("size>=6");
        }
        if (nt) pbt::nontrivial();
        if (src.boolean()) {
            // erase everything key by key before destruction
            std::vector<int> keys = sorted_model();
            for (int k : keys) {
                PBT_CHECK(t.erase(k), "C17/splay-erase", "final erase(" << k << ") returned false");
                erase_one(k);
            }
            check("final erase");
        }
    }
    // destructor ran: every node freed exactly once (double frees are reported by the allocator ledger / ASan)
    PBT_CHECK(verif::AllocLedger::get().live_count() == 0, "C17/splay-nodes", verif::AllocLedger::get().live_count() << " nodes not freed by the destructor");
    if (tracked) PBT_CHECK(verif::Ledger::get().live_count() == 0, "C17/splay-keys-alive", verif::Ledger::get().live_count() << " key objects alive after destruction");
}

} // namespace

PBT_PROPERTY(splay) {
    unsigned kind = (unsigned)src.range(0, 7);
    static const char* const L[] = {"set/less/int",     "multiset/less/int",     "set/greater/int",     "multiset/greater/int",
                                    "set/less/Tracked", "multiset/less/Tracked", "set/greater/Tracked", "multiset/greater/Tracked"};
    pbt::label(L[kind]);
    PBT_LOG("SplayTree " << L[kind] << "\n");
    splay_history(src, kind);
}
