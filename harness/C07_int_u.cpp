// C07 — instantiation: element type int, Stable = false
#include "C07_common.hpp"

namespace c07 {
void run_int_u(pbt::Source& src, const Cfg& cfg) { run_case<int, false>(src, cfg); }
} // namespace c07
