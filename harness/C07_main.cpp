// C07 — parallel multiway merge equals the sequential merge for every thread
// count.  Dispatcher: draws the configuration selectors first, then hands the
// source to one of the per-type TUs (see C07_common.hpp for generator + oracle).
#include "C07_common.hpp"

PBT_PROPERTY(pmerge) {
    using namespace c07;
    reset_globals(); // global tuning variables of tlx/algorithm/parallel_multiway_merge.cpp
    Cfg c;
    // selectors first: short buffers must still reach every configuration
    const size_t ty = src.weighted({3, 1});     // record + counting output / int + raw output
    const bool stable = !src.boolean();          // zero byte -> stable entry points
    c.entry = (int)src.weighted({5, 2, 3});      // front-end, *_sentinels front-end, parallel_multiway_merge_base
    c.sampling = src.boolean();                  // zero byte -> MWMSA_EXACT
    switch (src.weighted({6, 2, 4, 4, 6, 4, 3})) {
    case 0: c.threads = 2; break;
    case 1: c.threads = 1; break;
    case 2: c.threads = 3; break;
    case 3: c.threads = 4; break;
    case 4: c.threads = (int)src.range(5, 8); break;
    case 5: c.threads = (int)src.range(9, 16); break;
    default: c.threads = (int)src.range(17, 32); break;
    }
    c.alg = (int)src.range(0, 3);
    static const int OS[4] = {10, 1, 2, 3};
    c.oversampling = OS[src.range(0, 3)];
    c.gate = (int)src.weighted({24, 1, 2, 3});
    c.mink = c.minn = 0;
    if (c.gate == 3) {
        c.mink = (int)src.range(1, 5);
        c.minn = (int)src.range(0, 40);
    }
    c.desc = src.boolean();
    if (ty == 0) {
        if (stable) run_rec_s(src, c);
        else run_rec_u(src, c);
    } else {
        if (stable) run_int_s(src, c);
        else run_int_u(src, c);
    }
}
