// C07 — parallel multiway merge equals the sequential merge for every thread
// count.  Dispatcher: draws the configuration selectors first, then hands the
// source to one of the per-type TUs (see C07_common.hpp for generator + oracle).
#include "C07_common.hpp"

PBT_PROPERTY(pmerge) {
    using namespace c07;
    reset_globals(); // global tuning variables of tlx/algorithm/parallel_multiway_merge.cpp
    Cfg c;
    // selectors first: short buffers must still reach every configuration
    const size_t ty = src.weighted({3, 1});     // record + counting output / int + raw output
    const bool stable = !src.boolean();          // zero byte -> stable entry points
    c.entry = (int)src.weighted({5, 2, 3});      // front-end, *_sentinels front-end, parallel_multiway_merge_base
    c.sampling = src.boolean();                  // zero byte -> MWMSA_EXACT
    switch (src.weighted({6, 2, 4, 4, 6, 4, 3})) {
    case 0: c.threads = 2; break;
    case 1: c.threads = 1; break;
    case 2: c.threads = 3; break;
    case 3: c.threads = 4; break;
    case 4: c.threads = (int)src.range(5, 8); break;
    case 5: c.threads = (int)src.range(9, 16); break;
    default: c.threads = (int)src.range(17, 32); break;
    }
    c.alg = (int)src.range(0, 3);
    static const int OS[4] = {10, 1, 2, 3};
    c.oversampling = OS[src.range(0, 3)];
    c.gate = (int)src.weighted({24, 1, 2, 3});
    c.mink = c.minn = 0;
    if (c.gate == 3) {
        c.mink = (int)src.range(1, 5);
        c.minn = (int)src.range(0, 40);
    }
    c.desc = src.boolean();
    if (ty == 0) {
        if (stable) run_rec_s(src, c);
        else run_rec_u(src, c);
    } else {
        if (stable) run_int_s(src, c);
        else run_int_u(src, c);
    }
}

// Scale classes (a separate target so that the byte -> case mapping of `pmerge` and its stored witnesses stay valid):
// the same oracle on shapes whose SIZE parameters are far from the small-shape generator above — 41..400 and
// 1000..3000 sequences, 2..64 threads, the public tuning variable parallel_multiway_merge_oversampling over
// 1..1200, totals of 20000..60000 elements (per-thread chunks of >= 1000), more threads than elements with
// hundreds of (mostly empty) sequences, and minimal_k / minimal_n thresholds right at the actual k / length.
// Every case is (selectors, a few shape parameters, 64-bit seed) expanded by a local PRNG in run_case<>.
PBT_PROPERTY(pmerge_scale) {
    using namespace c07;
    reset_globals();
    Cfg c;
    // the size selectors come first: short buffers must still reach the scale classes
    c.scale = 1 + (int)src.weighted({6, 3, 2, 3}); // many sequences | big chunks | very many very short | sparse
    switch (src.weighted({2, 3, 3, 5, 4, 4, 1})) {
    case 0: c.threads = 2; break;
    case 1: c.threads = (int)src.range(3, 8); break;
    case 2: c.threads = (int)src.range(9, 16); break;
    case 3: c.threads = (int)src.range(17, 32); break;
    case 4: c.threads = (int)src.range(33, 48); break;
    case 5: c.threads = (int)src.range(49, 64); break;
    default: c.threads = 1; break;
    }
    {
        // any value >= 1 is a legal oversampling factor (public variable, no documented upper bound)
        const size_t oc = src.weighted({4, 2, 2, 3, 4, 3, 3, 3});
        static const int OS[7] = {10, 1, 2, 33, 100, 300, 1000};
        c.oversampling = oc < 7 ? OS[oc] : (int)src.range(1, 1200);
    }
    c.sampling = !src.boolean();                 // zero byte -> MWMSA_SAMPLING (the splitter with a tuning parameter)
    const size_t ty = src.weighted({3, 2});      // record + counting output / int + raw output
    const bool stable = !src.boolean();
    c.entry = (int)src.weighted({5, 2, 3});
    c.alg = (int)src.range(0, 3);
    c.gate = (int)src.weighted({12, 3, 1, 4});   // force_parallel | defaults (k >= 2, n >= 1000) | force_sequential | custom
    c.mink = c.minn = 0;
    if (c.gate == 3) {
        c.mink_rel = (int)src.range(0, 3);
        c.minn_rel = (int)src.range(0, 3);
    }
    c.desc = src.boolean();
    if (ty == 0) {
        if (stable) run_rec_s(src, c);
        else run_rec_u(src, c);
    } else {
        if (stable) run_int_s(src, c);
        else run_int_u(src, c);
    }
}

// ITERATOR / TYPE classes (a separate target: the byte -> case mapping of `pmerge` stays valid). The statement
// quantifies over sequences given by any random-access iterators: inputs held in std::deque (several 512-byte blocks,
// begin not at a block start) or read through std::reverse_iterator over a vector stored back to front; output through
// std::deque iterators / std::reverse_iterator (guard cells) besides the counting iterator; element type owning a
// std::string besides the plain 16-byte record; comparator owning a std::string, a std::vector and a std::function.
// Same configuration selectors as `pmerge` (kind and type drawn first), same shape generator, same oracle.
PBT_PROPERTY(pmerge_iters) {
    using namespace c07;
    reset_globals();
    Cfg c;
    const int kind = (int)src.weighted({4, 3, 3, 3}); // see ITK_LABEL
    const size_t ty = src.weighted({1, 1});          // 16-byte record / record owning a std::string
    const bool stable = !src.boolean();
    c.entry = (int)src.weighted({5, 2, 3});
    c.sampling = src.boolean();
    switch (src.weighted({6, 2, 4, 4, 6, 4, 3})) {
    case 0: c.threads = 2; break;
    case 1: c.threads = 1; break;
    case 2: c.threads = 3; break;
    case 3: c.threads = 4; break;
    case 4: c.threads = (int)src.range(5, 8); break;
    case 5: c.threads = (int)src.range(9, 16); break;
    default: c.threads = (int)src.range(17, 32); break;
    }
    c.alg = (int)src.range(0, 3);
    static const int OS[4] = {10, 1, 2, 3};
    c.oversampling = OS[src.range(0, 3)];
    c.gate = (int)src.weighted({20, 4, 2, 3}); // more of the default gating (>= 1000 elements: sequences of several deque blocks)
    c.mink = c.minn = 0;
    if (c.gate == 3) {
        c.mink = (int)src.range(1, 5);
        c.minn = (int)src.range(0, 40);
    }
    c.desc = src.boolean();
    if (kind < 2) {
        if (ty == 0) stable ? run_it_rec_s(src, c, kind) : run_it_rec_u(src, c, kind);
        else stable ? run_it_recs_s(src, c, kind) : run_it_recs_u(src, c, kind);
    } else {
        if (ty == 0) stable ? run_it_rec_s_b(src, c, kind) : run_it_rec_u_b(src, c, kind);
        else stable ? run_it_recs_s_b(src, c, kind) : run_it_recs_u_b(src, c, kind);
    }
}
