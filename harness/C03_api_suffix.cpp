// C03 — sort_api: StringSuffixSet with start depth, windows of the index vector, Set(Container&), Initialize(), uint64_t LCPs
#include "C03_api.hpp"

namespace c03 {
namespace {

struct ApiSuffixRep {
    typedef ssd::StringSuffixSet Set;
    Set::Container cont; // pair(text, index vector): the Container constructor refers to both members
    std::vector<size_t> orig;
    size_t off = 0, nn = 0;

    void build(const ApiCase& c) {
        off = c.off;
        nn = c.sa.size();
        cont.first = std::string(c.text.data(), c.text.size());
        if (c.ctor == 2) { // Initialize() must size and fill the vector itself: start from garbage of the wrong size
            cont.second = std::vector<size_t>(c.text.size() / 2 + 3, (size_t)0xA5A5A5A5u);
            nn = c.text.size();
            orig.resize(nn);
            for (size_t i = 0; i < nn; ++i) orig[i] = i;
            return;
        }
        size_t N = c.off + nn + c.tail;
        cont.second = std::vector<size_t>(N);
        // guards: before = the empty suffix (smallest), after = suffix 0 (the longest)
        for (size_t i = 0; i < N; ++i) cont.second[i] = i < off ? c.text.size() : i < off + nn ? c.sa[i - off] : 0;
        orig = cont.second;
    }
    size_t n() const { return nn; }
    Set whole() { return Set(cont.first, cont.second.begin(), cont.second.end()); }
    Set direct(const ApiCase& c) {
        if (c.ctor == 1) return Set(cont);
        if (c.ctor == 2) {
            Set s = Set::Initialize(cont.first, cont.second);
            PBT_CHECK(cont.second.size() == cont.first.size(), "C03/permutation",
                      "StringSuffixSet::Initialize left " << cont.second.size() << " indices for a text of " << cont.first.size());
            return s;
        }
        return Set(cont.first, cont.second.begin() + off, cont.second.begin() + off + nn);
    }
    bool call_front(const ApiCase&, uint32_t*, size_t) { return false; }
    void check_guards(const ApiCase& c) {
        if (c.ctor == 2) return;
        PBT_CHECK(cont.second.size() == orig.size(), "C03/outside-window", api_describe(c, nn) << ": index vector size changed");
        for (size_t i = 0; i < orig.size(); ++i) {
            if (i >= off && i < off + nn) continue;
            PBT_CHECK(cont.second[i] == orig[i], "C03/outside-window", api_describe(c, nn) << ": index " << i << " outside the window was changed");
        }
    }
    void check_before_order(const ApiCase& c) {
        size_t o = c.ctor == 2 ? 0 : off;
        PBT_CHECK(cont.second.size() >= o + nn, "C03/permutation", "index vector shrank");
        std::vector<size_t> a(cont.second.begin() + o, cont.second.begin() + o + nn), b(orig.begin() + o, orig.begin() + o + nn);
        std::sort(a.begin(), a.end());
        std::sort(b.begin(), b.end());
        for (size_t i = 0; i < nn; ++i)
            PBT_CHECK(a[i] == b[i], "C03/permutation",
                      api_describe(c, nn) << ": output is not a permutation of the original suffix indices (sorted lists differ at " << i
                                          << ": " << a[i] << " vs " << b[i] << ")");
    }
    std::pair<const unsigned char*, size_t> view(size_t i) {
        size_t s = cont.second[off + i];
        return std::make_pair((const unsigned char*)cont.first.data() + s, cont.first.size() - s);
    }
    void check_after_order(const ApiCase& c) {
        PBT_CHECK(cont.first == c.text, "C03/content-changed", api_describe(c, nn) << ": the text was modified");
    }
};

} // namespace

void api_suffix(const ApiCase& c) { run_api_modes<ApiSuffixRep>(c); }

} // namespace c03
