// C07 — target pmerge_api, form 3: the comparator is a FUNCTION POINTER (its value-initialised default would be null);
// inputs through Rec*; pairs in a std::deque (begin off the block start); output through std::vector<Rec>::iterator.
#include "C07_api.hpp"

namespace c07 {
static bool api_key_less(const Rec& a, const Rec& b) { return a.key < b.key; }
static bool api_key_greater(const Rec& a, const Rec& b) { return b.key < a.key; }
struct ApiForm3 {
    using El = ElRec;
    using InK = InPtr<Rec>;
    using PairsK = PairsDeque<InK::In>;
    using OutK = OutVecIt<Rec>;
    using Cmp = bool (*)(const Rec&, const Rec&);
    static constexpr bool has_default = false;
    static Cmp make_cmp(bool desc) { return desc ? &api_key_greater : &api_key_less; }
    static bool cmp_intact(const Cmp& c, bool desc) { return c == (desc ? &api_key_greater : &api_key_less); }
};
ApiResult run_api_f3(const ApiCase& c) { return run_form_both<ApiForm3>(c); }
} // namespace c07
