// C04 — parallel string sort: correct, memory-safe, terminating under every schedule (tier 1:
// deterministic scheduler). Parameter sets are linked in from C04_ps5_cfg*.cpp.
#include "C04_ps5_sched.hpp"

namespace c04 {
std::vector<Config>& configs() {
    static std::vector<Config> c;
    return c;
}
} // namespace c04

namespace {
void sched_report(const char* label, const std::string& msg) { pbt::fatal(label, msg); }
} // namespace

PBT_PROPERTY(ps5_sched) {
    auto& cfgs = c04::configs();
    std::sort(cfgs.begin(), cfgs.end(), [](const c04::Config& a, const c04::Config& b) { return strcmp(a.info.name, b.info.name) < 0; });
    size_t ci = src.index(cfgs.size());
    bool with_lcp = src.boolean();
    unsigned hw = (unsigned)src.range(1, 6);
    const c04::Config& cfg = cfgs[ci];
    c04::Input in;
    c04::gen_input(src, in, 120, cfg.info.keybytes);
    PBT_LOG("params " << cfg.info.name << " lcp=" << with_lcp << " workers=" << hw << "\n");
    c04::describe(in);
    pbt::label(in.shape);
    pbt::label(with_lcp ? "lcp" : "nolcp");
    cfg.fn(src, in, with_lcp, hw);
    c04::check_output(in, with_lcp, sched_report);
    size_t distinct = 0;
    {
        std::vector<std::string> s(in.strs);
        std::sort(s.begin(), s.end());
        distinct = (size_t)(std::unique(s.begin(), s.end()) - s.begin());
    }
    bool big = hw >= 2 && in.strs.size() > cfg.info.smallsort_threshold;
    if (big) pbt::label("parallel_big_step");
    if (big && distinct >= 2) pbt::nontrivial();
    PBT_LOG("steps=" << vsched::S().steps << " switches=" << vsched::S().switches << "\n");
}

// public API, default parameters (small inputs take the sequential small-sort job on one worker)
PBT_PROPERTY(ps5_public_small) {
    int variant = (int)src.range(0, 3);
    bool with_lcp = src.boolean();
    unsigned hw = (unsigned)src.range(1, 4);
    c04::Input in;
    c04::gen_input(src, in, 200, 8);
    c04::describe(in);
    pbt::label(in.shape);
    vsched::Thread::hw() = hw;
    tlx::std::minstd_rand::forced_seed() = 1 + (unsigned)src.range(0, 250);
    {
        vsched::Options opt;
        opt.livelock_rounds = 0;
        vsched::Run run(src, opt);
        size_t n = in.ptrs.size();
        switch (variant) {
        case 0:
            if (with_lcp) tlx::sort_strings_parallel_lcp(in.ptrs.data(), n, in.lcp.data(), 0);
            else tlx::sort_strings_parallel(in.ptrs.data(), n, 0);
            break;
        case 1:
            if (with_lcp) tlx::sort_strings_parallel_lcp(reinterpret_cast<char**>(in.ptrs.data()), n, in.lcp.data(), 0);
            else tlx::sort_strings_parallel(reinterpret_cast<char**>(in.ptrs.data()), n, 0);
            break;
        case 2:
            if (with_lcp) tlx::sort_strings_parallel_lcp(in.ptrs, in.lcp.data(), 0);
            else tlx::sort_strings_parallel(in.ptrs, 0);
            break;
        default: {
            std::vector<const unsigned char*> cp(in.ptrs.begin(), in.ptrs.end());
            if (with_lcp) tlx::sort_strings_parallel_lcp(cp, in.lcp.data(), 0);
            else tlx::sort_strings_parallel(cp, 0);
            for (size_t i = 0; i < n; ++i) in.ptrs[i] = const_cast<unsigned char*>(cp[i]);
        }
        }
    }
    c04::check_output(in, with_lcp, sched_report);
    if (in.strs.size() >= 2) pbt::nontrivial();
}
