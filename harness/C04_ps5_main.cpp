// C04 — parallel string sort: correct, memory-safe, terminating under every schedule (tier 1:
// deterministic scheduler). Parameter sets are linked in from C04_ps5_cfg*.cpp.
#include "C04_ps5_sched.hpp"

namespace c04 {
std::vector<Config>& configs() {
    static std::vector<Config> c;
    return c;
}
} // namespace c04

namespace {
void sched_report(const char* label, const std::string& msg) { pbt::fatal(label, msg); }
} // namespace

#ifdef C04_REAL_THREADS
#define C04_MAIN_TARGET ps5_real
#define C04_MAX_N 3000
#else
#define C04_MAIN_TARGET ps5_sched
#define C04_MAX_N 120
#endif
#define C04_PROP2(n) PBT_PROPERTY(n)
#define C04_PROP(n) C04_PROP2(n)

C04_PROP(C04_MAIN_TARGET) {
    auto& cfgs = c04::configs();
    std::sort(cfgs.begin(), cfgs.end(), [](const c04::Config& a, const c04::Config& b) { return strcmp(a.info.name, b.info.name) < 0; });
    size_t ci = src.index(cfgs.size());
    bool with_lcp = src.boolean();
    unsigned hw = (unsigned)src.range(1, 6);
    const c04::Config& cfg = cfgs[ci];
    c04::Input in;
    c04::gen_input(src, in, src.chance(40) ? C04_MAX_N : 120, cfg.info.keybytes);
    PBT_LOG("params " << cfg.info.name << " lcp=" << with_lcp << " workers=" << hw << "\n");
    c04::describe(in);
    pbt::label(in.shape);
    pbt::label(with_lcp ? "lcp" : "nolcp");
    cfg.fn(src, in, with_lcp, hw);
    c04::check_output(in, with_lcp, sched_report);
    size_t distinct = 0;
    {
        std::vector<std::string> s(in.strs);
        std::sort(s.begin(), s.end());
        distinct = (size_t)(std::unique(s.begin(), s.end()) - s.begin());
    }
    bool big = hw >= 2 && in.strs.size() > cfg.info.smallsort_threshold;
    if (big) pbt::label("parallel_big_step");
    if (big && distinct >= 2) pbt::nontrivial();
#ifndef C04_REAL_THREADS
    PBT_LOG("steps=" << vsched::S().steps << " switches=" << vsched::S().switches << "\n");
#endif
}

// public API, default parameters (small inputs take the sequential small-sort job on one worker)
PBT_PROPERTY(ps5_public_small) {
    int variant = (int)src.range(0, 3);
    bool with_lcp = src.boolean();
    unsigned hw = (unsigned)src.range(1, 4);
    c04::Input in;
    c04::gen_input(src, in, 200, 8);
    c04::describe(in);
    pbt::label(in.shape);
    tlx::std::thread::hw() = hw;
    tlx::std::minstd_rand::forced_seed() = 1 + (unsigned)src.range(0, 250);
    {
#ifndef C04_REAL_THREADS
        vsched::Options opt;
        opt.livelock_rounds = 0;
        vsched::Run run(src, opt);
#endif
        size_t n = in.ptrs.size();
        switch (variant) {
        case 0:
            if (with_lcp) tlx::sort_strings_parallel_lcp(in.ptrs.data(), n, in.lcp.data(), 0);
            else tlx::sort_strings_parallel(in.ptrs.data(), n, 0);
            break;
        case 1:
            if (with_lcp) tlx::sort_strings_parallel_lcp(reinterpret_cast<char**>(in.ptrs.data()), n, in.lcp.data(), 0);
            else tlx::sort_strings_parallel(reinterpret_cast<char**>(in.ptrs.data()), n, 0);
            break;
        case 2:
            if (with_lcp) tlx::sort_strings_parallel_lcp(in.ptrs, in.lcp.data(), 0);
            else tlx::sort_strings_parallel(in.ptrs, 0);
            break;
        default: {
            std::vector<const unsigned char*> cp(in.ptrs.begin(), in.ptrs.end());
            if (with_lcp) tlx::sort_strings_parallel_lcp(cp, in.lcp.data(), 0);
            else tlx::sort_strings_parallel(cp, 0);
            for (size_t i = 0; i < n; ++i) in.ptrs[i] = const_cast<unsigned char*>(cp[i]);
        }
        }
    }
    c04::check_output(in, with_lcp, sched_report);
    if (in.strs.size() >= 2) pbt::nontrivial();
}

// public API, EVERY front-end form of strings_parallel.hpp (ps5_public_small covers four of them with memory = 0):
// the ten overloads (unsigned char**, char**, const unsigned char**, const char**, the four std::vector forms of these,
// std::string* + size and std::vector<std::string>) x with/without LCP x the `memory` argument
PBT_PROPERTY(ps5_public_forms) {
    int form = (int)src.range(0, 9);
    bool with_lcp = src.boolean();
    unsigned hw = (unsigned)src.range(1, 4);
    static const size_t MEMS[] = {0, 1, 1000, (size_t)1 << 20, (size_t)1 << 40};
    size_t memory = MEMS[src.range(0, 4)];
    c04::Input in;
    c04::gen_input(src, in, 200, 8);
    c04::describe(in);
    pbt::label(in.shape);
    static const char* const FN[] = {"form:uchar**", "form:char**", "form:const_uchar**", "form:const_char**", "form:vector<char*>", "form:vector<uchar*>",
                                     "form:vector<const_char*>", "form:vector<const_uchar*>", "form:string*", "form:vector<string>"};
    pbt::label(FN[form]);
    if (memory) pbt::label("memory_argument!=0");
    PBT_LOG(FN[form] << " lcp=" << with_lcp << " memory=" << memory << " workers=" << hw << "\n");
    tlx::std::thread::hw() = hw;
    tlx::std::minstd_rand::forced_seed() = 1 + (unsigned)src.range(0, 250);
    const size_t n = in.ptrs.size();
    std::vector<std::string> objs; // forms 8 and 9 sort string OBJECTS
    if (form >= 8)
        for (size_t i = 0; i < n; ++i) objs.emplace_back(reinterpret_cast<const char*>(in.ptrs[i]));
    const std::vector<std::string> objs_before(objs);
    {
#ifndef C04_REAL_THREADS
        vsched::Options opt;
        opt.livelock_rounds = 0;
        vsched::Run run(src, opt);
#endif
        uint32_t* lcp = in.lcp.data();
        switch (form) {
        case 0:
            if (with_lcp) tlx::sort_strings_parallel_lcp(in.ptrs.data(), n, lcp, memory);
            else tlx::sort_strings_parallel(in.ptrs.data(), n, memory);
            break;
        case 1:
            if (with_lcp) tlx::sort_strings_parallel_lcp(reinterpret_cast<char**>(in.ptrs.data()), n, lcp, memory);
            else tlx::sort_strings_parallel(reinterpret_cast<char**>(in.ptrs.data()), n, memory);
            break;
        case 2:
            if (with_lcp) tlx::sort_strings_parallel_lcp((const unsigned char**)(in.ptrs.data()), n, lcp, memory);
            else tlx::sort_strings_parallel((const unsigned char**)(in.ptrs.data()), n, memory);
            break;
        case 3:
            if (with_lcp) tlx::sort_strings_parallel_lcp((const char**)(in.ptrs.data()), n, lcp, memory);
            else tlx::sort_strings_parallel((const char**)(in.ptrs.data()), n, memory);
            break;
        case 4: {
            std::vector<char*> v(n);
            for (size_t i = 0; i < n; ++i) v[i] = reinterpret_cast<char*>(in.ptrs[i]);
            if (with_lcp) tlx::sort_strings_parallel_lcp(v, lcp, memory);
            else tlx::sort_strings_parallel(v, memory);
            for (size_t i = 0; i < n; ++i) in.ptrs[i] = reinterpret_cast<unsigned char*>(v[i]);
            break;
        }
        case 5:
            if (with_lcp) tlx::sort_strings_parallel_lcp(in.ptrs, lcp, memory);
            else tlx::sort_strings_parallel(in.ptrs, memory);
            break;
        case 6: {
            std::vector<const char*> v(n);
            for (size_t i = 0; i < n; ++i) v[i] = reinterpret_cast<const char*>(in.ptrs[i]);
            if (with_lcp) tlx::sort_strings_parallel_lcp(v, lcp, memory);
            else tlx::sort_strings_parallel(v, memory);
            for (size_t i = 0; i < n; ++i) in.ptrs[i] = reinterpret_cast<unsigned char*>(const_cast<char*>(v[i]));
            break;
        }
        case 7: {
            std::vector<const unsigned char*> v(in.ptrs.begin(), in.ptrs.end());
            if (with_lcp) tlx::sort_strings_parallel_lcp(v, lcp, memory);
            else tlx::sort_strings_parallel(v, memory);
            for (size_t i = 0; i < n; ++i) in.ptrs[i] = const_cast<unsigned char*>(v[i]);
            break;
        }
        case 8:
            if (with_lcp) tlx::sort_strings_parallel_lcp(objs.data(), n, lcp, memory);
            else tlx::sort_strings_parallel(objs.data(), n, memory);
            break;
        default:
            if (with_lcp) tlx::sort_strings_parallel_lcp(objs, lcp, memory);
            else tlx::sort_strings_parallel(objs, memory);
        }
    }
    if (form < 8) c04::check_output(in, with_lcp, sched_report);
    else {
        // string objects: same multiset of contents, non-decreasing unsigned-byte order, exact neighbouring LCPs
        if (objs.size() != n) sched_report("C04/not-a-permutation", "the number of string objects changed");
        std::vector<std::string> a(objs_before), b(objs);
        std::sort(a.begin(), a.end());
        std::sort(b.begin(), b.end());
        if (a != b) sched_report("C04/not-a-permutation", "the output strings are not a permutation of the input strings (a string object was lost, duplicated or altered)");
        for (size_t i = 1; i < n; ++i) {
            const std::string &x = objs[i - 1], &y = objs[i];
            size_t h = 0;
            while (h < x.size() && h < y.size() && x[h] == y[h]) ++h;
            bool le = h == x.size() || (h < y.size() && (unsigned char)x[h] < (unsigned char)y[h]);
            if (!le) {
                sched_report("C04/not-sorted", "position " + std::to_string(i) + ": " + pbt::show_bytes(x) + " > " + pbt::show_bytes(y));
                break;
            }
            if (with_lcp && in.lcp[i] != h) {
                sched_report("C04/wrong-lcp", "lcp[" + std::to_string(i) + "]=" + std::to_string(in.lcp[i]) + " but " + pbt::show_bytes(x) + " and " + pbt::show_bytes(y) + " share " + std::to_string(h) + " bytes");
                break;
            }
        }
        if (with_lcp && n < in.lcp.size() && in.lcp[n] != c04::POISON) sched_report("C04/lcp-overrun", "lcp array written past n");
    }
    if (in.strs.size() >= 2) pbt::nontrivial();
}

#ifdef C04_REAL_THREADS
// public API, DEFAULT parameters, n slightly above 2^20 so that the parallel big step (and, for
// prefix-heavy inputs, nested big steps and "no sub-job" buckets) is reached. Pointers to a handful
// of short distinct strings: cheap. Real threads.
PBT_PROPERTY(ps5_public_big) {
    bool with_lcp = src.boolean();
    unsigned hw = (unsigned)src.range(2, 8);
    int shape = (int)src.range(0, 3);
    uint64_t seed = src.bits(4) + 1;
    size_t n = (1u << 20) + 1 + (size_t)src.range(0, 3000);
    if (shape == 3) n = (1u << 21) + 300000 + (size_t)src.range(0, 1000);
    // few distinct strings
    std::vector<std::string> pool;
    size_t npool = shape == 0 ? 3 : shape == 1 ? 1 : (size_t)src.range(2, 40);
    std::string prefix = shape >= 2 ? std::string((size_t)src.range(0, 12), 'p') : std::string();
    for (size_t i = 0; i < npool; ++i) {
        std::string s = prefix;
        size_t l = (size_t)src.range(0, 10);
        for (size_t j = 0; j < l; ++j) s += (char)('a' + src.range(0, 2));
        pool.push_back(s);
    }
    c04::Input in;
    in.shape = "big";
    in.strs = pool;
    auto next = [&seed]() {
        seed ^= seed << 13;
        seed ^= seed >> 7;
        seed ^= seed << 17;
        return seed;
    };
    in.ptrs.resize(n);
    // shape 3: more than half of the strings share one 8-byte-or-longer prefix -> nested big step
    for (size_t i = 0; i < n; ++i) in.ptrs[i] = reinterpret_cast<unsigned char*>(&in.strs[(size_t)(next() % npool)][0]);
    in.orig.assign(in.ptrs.begin(), in.ptrs.end());
    in.lcp.assign(n + 1, c04::POISON);
    PBT_LOG("big n=" << n << " pool=" << npool << " prefix=" << prefix.size() << " workers=" << hw << " lcp=" << with_lcp << "\n");
    tlx::std::thread::hw() = hw;
    tlx::std::minstd_rand::forced_seed() = 1 + (unsigned)src.range(0, 250);
    if (with_lcp) tlx::sort_strings_parallel_lcp(in.ptrs.data(), n, in.lcp.data(), 0);
    else tlx::sort_strings_parallel(in.ptrs.data(), n, 0);
    c04::check_output(in, with_lcp, sched_report);
    pbt::label(with_lcp ? "lcp" : "nolcp");
    if (npool >= 2) pbt::nontrivial();
}
#endif
