// C13 (types) — tlx::DAryHeap over element types with a DESTRUCTIVE move (std::string, a record owning a string,
// verif::Tracked whose moved-from value is a poison constant), comparator objects that OWN state (shared_ptr table,
// std::function, std::vector table) and ALIASING call patterns: h.push(h.top()) (also exactly when
// size() == capacity(), i.e. when the storage has to grow), a reference obtained from top() passed to push(),
// build_heap from containers that the caller goes on using (vector / deque / list / reverse / move iterators),
// copy / move / swap / self-assignment round trips, a moved-from heap reused after clear().
// Same oracle as target dary: size, empty, top() is a stored element (identity tag and contents) that is minimal
// under the MODEL order, sanity_check(), drain non-decreasing and a permutation of the model (with tags).
#include "../engine/pbt.hpp"

#include <algorithm>
#include <exception>
#include <memory>
#include <sstream>
#include <vector>

#include "C13_types_impl.hpp"

namespace {

using c13t::E;
using c13t::IDaryT;

std::string show(const std::vector<E>& v) {
    std::ostringstream os;
    os << "{";
    for (size_t i = 0; i < v.size(); ++i) os << (i ? "," : "") << v[i].key << "#" << v[i].tag;
    os << "}";
    return os.str();
}
std::string show(E e) { return std::to_string(e.key) + "#" + std::to_string(e.tag); }

IDaryT* make(unsigned tk, unsigned arity, unsigned ck, const std::vector<int>* prio) {
    using namespace c13t;
    const bool lo = arity <= 4;
    switch (tk) {
    case 0: return lo ? make_dary_s_lo(arity, ck, prio) : make_dary_s_hi(arity, ck, prio);
    case 1: return lo ? make_dary_r_lo(arity, ck, prio) : make_dary_r_hi(arity, ck, prio);
    default: return lo ? make_dary_t_lo_(arity, ck, prio) : make_dary_t_hi_(arity, ck, prio);
    }
}

void dary_types_history(pbt::Source& src, unsigned tk, unsigned A, unsigned ck) {
    const bool table = ck != c13t::CK_NAT;
    const size_t U = (size_t)src.range(1, c13t::UMAX);
    std::vector<int> prio(U, 0);
    if (table)
        for (size_t i = 0; i < U; ++i) prio[i] = (int)src.range(0, 5);
    // model order; never read back from the comparator object. natural order of all three element types = (key, tag)
    auto cmp = [&](E a, E b) { return table ? prio[(size_t)a.key] < prio[(size_t)b.key] : (a.key != b.key ? a.key < b.key : a.tag < b.tag); };
    std::unique_ptr<IDaryT> hp(make(tk, A, ck, &prio));
    IDaryT& h = *hp;
    const bool mut = h.prio_mutable();
    std::vector<E> model; // multiset
    int next_tag = 0;
    static const char* const CKN[4] = {"std::less", "shared_ptr-table", "std::function", "vector-table"};
    PBT_LOG("DAryHeap<" << h.elem_name() << ", " << A << ", " << CKN[ck] << "> U=" << U << "\n");

    auto gen_elem = [&]() -> E {
        E e{(int)src.index(U), next_tag};
        next_tag = (next_tag + 1) % c13t::TAGS;
        return e;
    };
    auto gen_elems = [&]() {
        std::vector<E> v;
        size_t n = (size_t)src.range(0, 12);
        for (size_t i = 0; i < n; ++i) v.push_back(gen_elem());
        return v;
    };
    auto stored = [&](E t) { return std::find(model.begin(), model.end(), t) != model.end(); };
    auto is_min = [&](E t) {
        for (E e : model)
            if (cmp(e, t)) return false;
        return true;
    };
    auto model_erase = [&](E k) {
        auto it = std::find(model.begin(), model.end(), k);
        if (it == model.end()) return false;
        model.erase(it);
        return true;
    };
    auto check = [&](const char* after) {
        PBT_CHECK(h.size() == model.size(), "C13/dary-size", "after " << after << ": size() " << h.size() << " but model has " << model.size());
        PBT_CHECK(h.empty() == model.empty(), "C13/dary-empty", "after " << after << ": empty() " << h.empty() << ", model size " << model.size());
        if (!model.empty()) {
            E t = h.top();
            PBT_CHECK(stored(t), "C13/dary-top-member",
                      "after " << after << ": top() = " << show(t) << " is not a stored element (-1#-1: contents are not an element the history ever made, e.g. a moved-from value); model " << show(model));
            PBT_CHECK(is_min(t), "C13/dary-top-min", "after " << after << ": top() = " << show(t) << " is not minimal; model " << show(model));
        }
        PBT_CHECK(h.sanity_check(), "C13/dary-sanity", "after " << after << ": sanity_check() false; model " << show(model));
    };
    //! h.push(h.top()) in one of its spellings; the model gets a second copy of whatever the model says top() is
    auto push_top = [&](unsigned how, const char* what) {
        E t = h.top();
        PBT_CHECK(stored(t) && is_min(t), "C13/dary-top-min", "before " << what << ": top() = " << show(t) << " is not a minimal stored element; model " << show(model));
        PBT_LOG(what << " variant " << how << " [top " << show(t) << ", size " << h.size() << ", capacity " << h.capacity() << "]\n");
        if (h.size() == h.capacity()) pbt::label("push_top_at_capacity");
        h.push_top(how);
        model.push_back(t);
    };

    bool nt = false;
    unsigned nops = 0;
    check("construction");
    while (src.more() && nops < 200) {
        ++nops;
        unsigned op = (unsigned)src.weighted({8, 3, 5, 4, 1, 4, 3, 1, 3, 6, 2});
        switch (op) {
        case 0: {
            E e = gen_elem();
            PBT_LOG("push(" << show(e) << ")\n");
            h.push_copy(e);
            model.push_back(e);
            pbt::label("push");
            break;
        }
        case 1: {
            E e = gen_elem();
            PBT_LOG("push(move " << show(e) << ")\n");
            h.push_move(e);
            model.push_back(e);
            pbt::label("push_move");
            break;
        }
        case 2: {
            if (model.empty()) continue;
            E t = h.top();
            PBT_LOG("pop() [top " << show(t) << "]\n");
            h.pop();
            PBT_CHECK(model_erase(t), "C13/dary-top-member", "top() " << show(t) << " not in model " << show(model));
            if (model.size() >= 3) nt = true;
            pbt::label("pop");
            break;
        }
        case 3: {
            if (model.empty()) continue;
            E t = h.extract_top();
            PBT_LOG("extract_top() -> " << show(t) << "\n");
            PBT_CHECK(stored(t), "C13/dary-extract-member", "extract_top() returned " << show(t) << " which is not stored; model " << show(model));
            PBT_CHECK(is_min(t), "C13/dary-extract-min", "extract_top() returned " << show(t) << " which is not minimal; model " << show(model));
            model_erase(t);
            if (model.size() >= 3) nt = true;
            pbt::label("extract_top");
            break;
        }
        case 4:
            PBT_LOG("clear()\n");
            h.clear();
            model.clear();
            pbt::label("clear");
            break;
        case 5: {
            unsigned how = (unsigned)src.index(c13t::N_BUILD);
            std::vector<E> v = gen_elems();
            static const char* const BL[c13t::N_BUILD] = {"build_vector_iter", "build_const_vector", "build_move_vector", "build_deque_iter",
                                                          "build_list_iter",   "build_reverse_iter", "build_move_iter"};
            PBT_LOG(BL[how] << " " << show(v) << (model.empty() ? "" : " on non-empty") << "\n");
            if (!model.empty()) pbt::label("build_nonempty"), nt = true;
            h.build(how, v);
            model = v;
            pbt::label(BL[how]);
            break;
        }
        case 6: {
            if (mut) {
                size_t n = (size_t)src.range(0, 4);
                for (size_t i = 0; i < n; ++i) {
                    size_t k = src.index(U);
                    int p = (int)src.range(0, 5);
                    PBT_LOG("prio[" << k << "] = " << p << "\n");
                    for (E e : model)
                        if ((size_t)e.key == k && prio[k] != p) pbt::label("update_all_changed"), nt = true;
                    prio[k] = p;
                    h.set_prio((int)k, p);
                }
            }
            PBT_LOG("update_all()\n");
            h.update_all();
            pbt::label("update_all");
            break;
        }
        case 7: {
            size_t n = (size_t)src.range(0, 40);
            PBT_LOG("reserve(" << n << ")\n");
            h.reserve(n);
            PBT_CHECK(h.capacity() >= n, "C13/dary-reserve", "capacity() " << h.capacity() << " after reserve(" << n << ")");
            pbt::label("reserve");
            break;
        }
        case 8: {
            unsigned how = (unsigned)src.index(c13t::N_LIFE);
            E extra = gen_elem();
            static const char* const LL[c13t::N_LIFE] = {"life_independent_copy", "life_copy_clear_moveassign", "life_move_copyassign", "life_copyassign_nonempty",
                                                         "life_self_assign",      "life_swap",                  "life_reuse_after_move", "life_move_moveassign",
                                                         "life_copy_of_copy"};
            PBT_LOG(LL[how] << " extra " << show(extra) << "\n");
            h.lifecycle(how, extra);
            pbt::label(LL[how]);
            break;
        }
        case 9: {
            if (model.empty()) continue;
            unsigned how = (unsigned)src.range(0, 2);
            push_top(how, "push(top())");
            pbt::label(how == 2 ? "push_top_copy" : "push_top_alias");
            nt = true;
            break;
        }
        default: {
            // h.push(h.top()) exactly when the storage is full. capacity() is public API; the generator only uses it to
            // decide how many ordinary pushes come first (at most 48, otherwise this step is an ordinary aliased push)
            if (model.empty()) {
                E e = gen_elem();
                h.push_copy(e);
                model.push_back(e);
            }
            size_t room = h.capacity() - h.size();
            if (room <= 48) {
                for (size_t i = 0; i < room; ++i) {
                    E e = gen_elem();
                    h.push_copy(e);
                    model.push_back(e);
                }
                PBT_LOG("filled up to capacity " << h.capacity() << " with " << room << " pushes\n");
            }
            check("filling up to capacity");
            push_top((unsigned)src.range(0, 1), "push(top()) at capacity");
            pbt::label("fill_then_push_top");
            nt = true;
            break;
        }
        }
        check("op");
        if (model.size() >= 9) pbt::label("size>=9");
        if (model.size() >= 33) pbt::label("size>=33");
    }
    // drain: non-decreasing and a permutation of the model
    bool have_prev = false;
    E prev{0, 0};
    PBT_LOG("drain:");
    while (!model.empty()) {
        PBT_CHECK(!h.empty(), "C13/dary-size", "heap empty during drain but model still has " << show(model));
        E t = h.extract_top();
        PBT_LOG(" " << show(t));
        PBT_CHECK(model_erase(t), "C13/dary-drain-perm", "drain produced " << show(t) << " which is not (any more) in the model " << show(model));
        PBT_CHECK(!have_prev || !cmp(t, prev), "C13/dary-drain-order", "drain produced " << show(t) << " after " << show(prev));
        prev = t;
        have_prev = true;
    }
    PBT_LOG("\n");
    PBT_CHECK(h.empty() && h.size() == 0, "C13/dary-size", "heap not empty after draining the model: size " << h.size());
    if (nt) pbt::nontrivial();
}

} // namespace

PBT_PROPERTY(dary_types) {
    verif::Ledger::get().reset();
    unsigned arity = 1 + (unsigned)src.range(0, 7);
    unsigned tk = (unsigned)src.range(0, 2);
    // std::less in 1 of 4 cases, otherwise the state-owning comparator kind compiled for this (element type, arity)
    unsigned ck = src.range(0, 3) == 0 ? (unsigned)c13t::CK_NAT : c13t::stateful_kind(tk, arity);
    static const char* const AL[] = {"", "arity=1", "arity=2", "arity=3", "arity=4", "arity=5", "arity=6", "arity=7", "arity=8"};
    static const char* const TL[] = {"elem=string", "elem=record", "elem=tracked"};
    static const char* const CL[] = {"cmp=less", "cmp=shared_ptr_table", "cmp=std_function", "cmp=vector_table"};
    pbt::label(AL[arity]);
    pbt::label(TL[tk]);
    pbt::label(CL[ck]);
    try {
        dary_types_history(src, tk, arity, ck);
    } catch (const pbt::Failure&) {
        throw;
    } catch (const std::exception& e) {
        pbt::fail("C13/exception", std::string("the heap operation threw ") + e.what() + " (std::bad_function_call = an empty, i.e. moved-from, std::function comparator was called)");
    }
    PBT_CHECK(verif::Ledger::get().live_count() == 0, "C13/lifetime", "elements still alive after the heap and all copies were destroyed: " << verif::Ledger::get().live_count());
}
