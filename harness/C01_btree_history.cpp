// C01 / C02 — the operation-history generator and the oracles (not a template: compiled once, talks
// to the tlx container through ITree and to the std container through IModel).
//
//   C01 mode (model = true):  after EVERY step returned values, iterator positions (rank found with
//       the container's own operator==), the whole contents forward / backward / through the reverse
//       and const iterators, size()/empty() and (on demand) the six relational operators are
//       compared with the std container driven by the same history. For the multi containers the
//       comparison is per run of equivalent keys (as multisets) and the model then adopts the
//       implementation's order, so later rank-based operations address the same entries.
//   C02 mode (model = false): no std model (arguments that must exist are drawn from the contents
//       last observed in the tree itself); after every mutating call the independent structure
//       walk, BTree::verify(), the allocator ledger; at the end of the history the element ledger.
#include "C01_btree_common.hpp"

#include <cmath>
#include <cstring>

namespace verif {
namespace bt {

ModelFactory& model_factory() {
    static ModelFactory f = nullptr;
    return f;
}
std::vector<ConfigEntry>& config_table() {
    static std::vector<ConfigEntry> t;
    return t;
}
std::vector<ConfigEntry>& scale_table() {
    static std::vector<ConfigEntry> t;
    return t;
}
std::vector<ConfigEntry>& alias_table() {
    static std::vector<ConfigEntry> t;
    return t;
}

// ----- runaway-operation bound (see CmpBudget in C01_btree_common.hpp) -----------------------------
namespace {
struct RunawayCtx {
    const char* prefix = "C01";
    std::string (*describe)(const void*) = nullptr;
    const void* self = nullptr;
} g_runaway;
} // namespace
void cmp_runaway() {
    CmpBudget& g = cmp_budget();
    const unsigned long long lim = g.limit;
    g.limit = ~0ull; // describing the case must not trip the bound again
    std::ostringstream os;
    if (g_runaway.describe && g_runaway.self) os << g_runaway.describe(g_runaway.self);
    os << "the container made more than " << lim
       << " key comparisons inside this one operation (the bound is at least 64 times what a B+ tree of this height and node capacity can need): "
          "the operation does not terminate, the std container answers at once";
    std::string lab = std::string(g_runaway.prefix) + "/runaway-operation";
    pbt::fatal(lab.c_str(), os.str()); // no unwinding through the container
}
void alloc_runaway() {
    CmpBudget& g = cmp_budget();
    const unsigned long long lim = g.alloc_limit;
    g.alloc_limit = g.limit = ~0ull;
    std::ostringstream os;
    if (g_runaway.describe && g_runaway.self) os << g_runaway.describe(g_runaway.self);
    os << "the container allocated more than " << lim
       << " nodes inside this one operation (at least 8 times the number of elements involved, every node holds at least one): "
          "the operation does not terminate, the std container answers at once";
    std::string lab = std::string(g_runaway.prefix) + "/runaway-operation";
    pbt::fatal(lab.c_str(), os.str());
}

namespace {

std::string show(const std::vector<KD>& v, bool with_data) {
    std::ostringstream os;
    os << "[";
    for (size_t i = 0; i < v.size(); ++i) {
        if (i) os << " ";
        if (i >= 80) {
            os << "... (" << v.size() << " elements)";
            break;
        }
        os << v[i].first;
        if (with_data) os << ":" << v[i].second;
    }
    os << "]";
    return os.str();
}
std::string show(const KD& e) {
    std::ostringstream os;
    os << e.first << ":" << e.second;
    return os.str();
}

class History {
    size_t MAXSIZE = 900; // inserts turn into erasures above this size (bounds the O(n) per-step checks)
    int MAXOPS = 600;     // operations per history
    int MAXSTEPS = 2500;  // compared steps per history (macro operations count each sub-step)

    struct Slot {
        std::unique_ptr<ITree> t;
        std::unique_ptr<IModel> m;
        Walk shape;                // structure after the last step that touched this slot
        std::vector<KD> obs;       // contents observed through begin()..end() after the last step
        bool bulk_pending = false; // bulk-loaded >= 2 leaves, no mutation since
    };
    enum OpClass { OC_OTHER, OC_INSERT, OC_ERASE };

    pbt::Source& src;
    const ConfigEntry& cfg;
    const CfgInfo& ci;
    const bool WM, INV;
    const bool SC; // scale mode (target btree_scale): huge node capacities, nodes filled first, cost-bounded history
    const bool AL; // alias mode (targets btree_alias / btree_alias_invariants): destructive-move element types + aliasing operations
    const bool AP; // api mode (targets btree_api / btree_api_invariants): all of the above plus the public members found by the API audit
    const char* const prefix;
    Slot s0, s1;
    int U = 8;
    unsigned shift = 0;
    bool desc = false;
    unsigned profile = 0, endmode = 0;
    int nops = 0, nsteps = 0;
    int next_datum = 1;
    int recent_key = 0;
    bool sep_changed = false;      // the step just finished was an erase that changed a separator
    bool sep_changed_prev = false; // ... the step before the current operation was
    bool nt_flag = false, nt_done = false;
    bool any_free = false;
    bool force_full = false;
    const char* opname = "";
    // scale mode
    unsigned stride = 1;      // distance of neighbouring key classes produced by a fill (gaps allow inserts between them)
    unsigned sc_rep = 0;      // length class of the runs of equivalent keys produced by a fill (multi containers)
    bool inner_dim = false;   // the fill sizes aim at the inner node above the leaves (else: at a leaf)
    long NB = 0;              // largest number of elements a fill may produce
    unsigned long cost = 0;   // element visits spent so far on per-step checks
    unsigned long COSTMAX = 0;
    bool have_arg_key = false;
    int arg_key = 0;

    Slot& S(int c) { return c ? s1 : s0; }

    std::string hdr() const {
        std::ostringstream os;
        os << "[" << ci.name << " U=" << U;
        if (ci.stateful()) os << " cmp(shift=" << shift << ",desc=" << desc << ")";
        os << "] step " << nsteps << " " << opname << ": ";
        return os.str();
    }
    static std::string describe_for_runaway(const void* self) {
        const History& h = *static_cast<const History*>(self);
        std::ostringstream os;
        os << h.hdr();
        if (h.have_arg_key) os << "key " << h.arg_key << ", ";
        os << "container sizes " << h.s0.obs.size() << " / " << h.s1.obs.size() << ", heights " << h.s0.shape.height << " / " << h.s1.shape.height << ": ";
        return os.str();
    }

    // ----- runaway-operation bound ----------------------------------------------------------------
    // A correct B+ tree needs, per key it looks up / inserts / erases, one root-to-leaf descent with one in-node search
    // per level: <= (slots + 1) comparisons per node with the linear strategy, <= 2*(log2(slots) + 2) with the binary
    // one, plus a constant number of equality tests; operations on a run of equivalent keys (count, erase(key),
    // erase(iterator) inside a run) repeat that at most once per entry of the run. The budget below is 64 times that
    // (height + 3 levels, so that splits during the operation are covered) plus a constant.
    static unsigned ilog2(unsigned long x) {
        unsigned r = 0;
        while (x > 1) x >>= 1, ++r;
        return r;
    }
    //! `nodes` = upper bound of the nodes a correct implementation can allocate in the operation
    void arm(unsigned long long lim, unsigned long long nodes) {
        CmpBudget& g = cmp_budget();
        g.calls = 0;
        g.limit = lim;
        g.allocs = 0;
        g.alloc_limit = 8ull * nodes + 1000ull;
    }
    //! `k` = number of keys the operation handles (entries of a run of equivalent keys count as keys)
    void arm_keys(unsigned long k) {
        unsigned long H = (unsigned long)std::max(s0.shape.height, s1.shape.height) + 3;
        unsigned long cap = (unsigned long)std::max(ci.leaf, ci.inner);
        unsigned long per = ci.binary ? 2ul * (ilog2(cap) + 3) : cap + 2;
        arm(64ull * (k + 1) * H * per + 100000ull, (k + 1) * H + 2 * (k + 1)); // <= one split per level and key (+ the nodes of a range-constructed tree)
    }
    //! whole-container operations (copy, assign, swap, clear, bulk_load, iteration, relational operators) need no
    //! key comparison at all; allow 64 per element anyway
    //! (nodes: every node of a tree holds at least one element or separates two non-empty subtrees: < 2 per element)
    void arm_bulk(size_t extra = 0) {
        unsigned long long n = s0.obs.size() + s1.obs.size() + extra;
        arm(64ull * (n + 1000), 2ull * n + 8);
    }
    void arm_key(unsigned long k, int key) {
        have_arg_key = true, arg_key = key;
        arm_keys(k);
    }
    void disarm() {
        CmpBudget& g = cmp_budget();
        if (g.limit != ~0ull) {
            unsigned long long pm = g.calls * 1000ull / g.limit;
            if (pm > g.worst_permille) g.worst_permille = pm;
            if (pm >= 10) lab("budget:used>=1%");
        }
        g.limit = g.alloc_limit = ~0ull;
        have_arg_key = false;
    }
    size_t dups(int c, int k) { return WM ? S(c).m->count(k) : 0; }
    //! labels of secondary interest are left out of the (already long) histogram of the scale target
    void minor(const char* l) {
        if (!SC && !AL && !AP) pbt::label(l);
    }
    //! api mode (targets btree_api / btree_api_invariants) runs every operation of the other targets plus its own: only the
    //! operation labels, the classes of the new pieces and a few structural labels are kept (the driver has 96 label slots)
    void lab(const char* l) {
        if (AP && strncmp(l, "op:", 3) != 0 && strncmp(l, "api:", 4) != 0 && strncmp(l, "key:", 4) != 0 && strcmp(l, "height>=3") != 0 &&
            strcmp(l, "leaf_split") != 0 && strcmp(l, "leaf_merge") != 0 && strcmp(l, "mutation_after_bulk_load") != 0 && strcmp(l, "erased_to_empty") != 0)
            return;
        pbt::label(l);
    }
#define BT_CHECK(cond, sub, msgexpr) PBT_CHECK(cond, std::string(prefix) + "/" sub, hdr() << msgexpr)

    //! the order the container in slot c uses (C01: the std container's comparator; C02: the tree's own)
    bool less(int c, int a, int b) { return WM ? S(c).m->less(a, b) : S(c).t->less(a, b); }
    bool equiv(int c, int a, int b) { return !less(c, a, b) && !less(c, b, a); }

    // ----- observation ----------------------------------------------------------------------------
    void observe(int c) {
        Slot& sl = S(c);
        size_t bound = (WM ? sl.m->size() : sl.t->size()) + 4;
        bool ok = sl.t->collect(0, false, bound, sl.obs);
        BT_CHECK(ok, "iterate-forward", "slot " << c << ": begin()..end() yields more than " << bound << " elements (size() = " << sl.t->size() << ")");
        // a moved-from value (empty std::string / the Tracked poison) may be observed in the source of a move only,
        // never among the elements a container holds (C02: the order / separator invariants judge such a key)
        if (WM) {
            for (size_t i = 0; i < sl.obs.size(); ++i) {
                const KD& e = sl.obs[i];
                BT_CHECK(e.first != kPoison && e.second != kPoison, "moved-from-element",
                         "slot " << c << ": the element at rank " << i << " of " << sl.obs.size() << " holds a MOVED-FROM "
                                 << (e.first == kPoison ? "key" : "datum") << " (element type " << ci.elem << ")");
            }
        }
    }

    void compare_model(int c, bool full) {
        if (!WM) return;
        Slot& sl = S(c);
        ITree& t = *sl.t;
        IModel& m = *sl.m;
        std::vector<KD>& o = sl.obs;
        const bool wd = ci.is_map();
        BT_CHECK(t.size() == m.size(), "size", "slot " << c << " size() = " << t.size() << ", std container has " << m.size());
        BT_CHECK(t.empty() == m.empty(), "size", "slot " << c << " empty() = " << t.empty() << ", std container says " << m.empty());
        { // observers found by the API audit (no draw): get_stats().size, max_size(), key_comp() state
            ITree::Stats st;
            t.stats(st);
            BT_CHECK(st.size == m.size(), "size", "slot " << c << " get_stats().size = " << st.size << ", std container has " << m.size());
            BT_CHECK(t.max_size() >= m.size() && t.max_size() == S(1 - c).t->max_size(), "size",
                     "slot " << c << " max_size() = " << t.max_size() << " (size " << m.size() << ", other container's max_size() " << S(1 - c).t->max_size() << ")");
            if (ci.stateful() && full) {
                unsigned ts = 0, ms = 0;
                bool td = false, md = false;
                t.cmp_state(ts, td);
                m.cmp_state(ms, md);
                BT_CHECK(ts == ms && td == md, "comparator",
                         "slot " << c << " key_comp() has state (shift=" << ts << ",desc=" << td << "), the std container's comparator has (shift=" << ms << ",desc=" << md << ")");
            }
        }
        std::vector<KD> mseq;
        m.seq(mseq);
        if (o != mseq) {
            bool ok = ci.multi() && o.size() == mseq.size();
            if (ok) { // equal up to the order inside runs of equivalent keys?
                size_t n = mseq.size(), i = 0;
                while (i < n && ok) {
                    size_t j = i + 1;
                    while (j < n && !m.less(mseq[i].first, mseq[j].first) && !m.less(mseq[j].first, mseq[i].first)) ++j;
                    std::vector<KD> a(o.begin() + i, o.begin() + j), b(mseq.begin() + i, mseq.begin() + j);
                    std::sort(a.begin(), a.end());
                    std::sort(b.begin(), b.end());
                    ok = (a == b);
                    i = j;
                }
            }
            BT_CHECK(ok, "contents", "slot " << c << " contents differ from the std container:\n  tlx: " << show(o, wd) << "\n  std: " << show(mseq, wd));
            // legal difference: the model adopts the implementation's order of equivalent entries
            m.clear();
            m.append(o);
            lab("model_adopts_order");
        }
        // the other traversal directions / iterator kinds must show the same sequence
        size_t bound = o.size() + 4;
        std::vector<KD> x;
        bool ok = t.collect(0, true, bound, x);
        BT_CHECK(ok && x == o, "iterate-backward",
                 "slot " << c << " end()..begin() with --iterator differs from the forward traversal:\n  fwd: " << show(o, wd) << "\n  bwd: " << show(x, wd));
        if (full) {
            ok = t.collect(1, (nsteps & 1) != 0, bound, x);
            BT_CHECK(ok && x == o, "iterate-const", "slot " << c << " const_iterator traversal differs:\n  fwd: " << show(o, wd) << "\n  got: " << show(x, wd));
            std::vector<KD> r(o.rbegin(), o.rend());
            ok = t.collect((nsteps & 2) ? 2 : 3, (nsteps & 4) != 0, bound, x);
            BT_CHECK(ok && x == r, "iterate-reverse",
                     "slot " << c << ((nsteps & 2) ? " reverse_iterator" : " const_reverse_iterator") << " traversal differs:\n  expected: " << show(r, wd)
                             << "\n  got:      " << show(x, wd));
        }
    }

    // ----- structure: labels (both modes) and invariants (C02) -------------------------------------
    static int index_of(const std::vector<const void*>& v, const void* p) {
        for (size_t i = 0; i < v.size(); ++i)
            if (v[i] == p) return (int)i;
        return -1;
    }

    void delta_labels(const Walk& pre, const Walk& post, OpClass oc, const void* target_leaf) {
        if (post.height >= 3) lab("height>=3");
        if (post.height >= 4) lab("height>=4");
        if (post.height >= 5) lab("height>=5");
        if (post.dup_spans) lab("dup_run_spans_leaves");
        if (oc == OC_INSERT) {
            if (post.leaves > pre.leaves) lab("leaf_split");
            bool grew = post.height > pre.height && pre.height >= 1;
            if (grew) lab("root_split");
            if (post.inners > pre.inners + (grew ? 1 : 0)) lab("inner_split");
        }
        else if (oc == OC_ERASE) {
            if (post.leaves < pre.leaves && post.leaves > 0) lab("leaf_merge");
            int hdrop = pre.height > post.height ? pre.height - post.height : 0;
            if (hdrop && post.height >= 1) lab("root_collapse");
            if (post.height == 0 && pre.height >= 1) lab("erased_to_empty");
            if (pre.inners > post.inners + (size_t)hdrop) lab("inner_merge");
            if (post.leaves == pre.leaves && target_leaf) {
                int ti = index_of(pre.leaf_ids, target_leaf);
                if (ti >= 0 && post.leaf_ids == pre.leaf_ids && post.size + 1 == pre.size && post.leaf_fill[ti] != pre.leaf_fill[ti] - 1) {
                    size_t n = pre.leaf_fill.size();
                    if ((size_t)ti + 1 < n && post.leaf_fill[ti + 1] < pre.leaf_fill[ti + 1]) lab("leaf_shift_left");
                    if (ti > 0 && post.leaf_fill[ti - 1] < pre.leaf_fill[ti - 1]) lab("leaf_shift_right");
                }
            }
            // inner shift: a surviving node changed its parent although no node of the parent's level disappeared
            if (pre.height >= 3 && post.height >= 3) {
                std::vector<size_t> cpre(pre.height, 0), cpost(post.height, 0);
                for (const Walk::NI& n : pre.nodes) ++cpre[n.level];
                for (const Walk::NI& n : post.nodes) ++cpost[n.level];
                std::map<const void*, const void*> par;
                for (const Walk::NI& n : pre.nodes) par[n.id] = n.parent;
                std::map<const void*, int> prank;
                int r = 0;
                for (const Walk::NI& n : post.nodes) prank[n.id] = r++;
                for (const Walk::NI& n : post.nodes) {
                    if (!n.parent) continue;
                    auto it = par.find(n.id);
                    if (it == par.end() || it->second == n.parent || !it->second) continue;
                    int pl = n.level + 1;
                    if (pl >= pre.height || pl >= post.height || cpre[pl] != cpost[pl]) continue;
                    if (!prank.count(it->second)) continue; // old parent was freed (merge)
                    if (prank[n.parent] < prank[it->second]) lab("inner_shift_left");
                    else lab("inner_shift_right");
                }
            }
            if (pre.seps != post.seps) {
                lab("erase_changes_separator");
                sep_changed = true;
            }
        }
    }

    //! walk slot c after a step; derive labels; C02: assert the invariants and verify()
    void inspect(int c, OpClass oc, const void* target_leaf) {
        Slot& sl = S(c);
        Walk post;
        sl.t->inspect(post);
        if (INV) {
            if (post.bad) pbt::fail(post.bad, hdr() + "slot " + std::to_string(c) + ": " + post.msg);
            try {
                sl.t->verify();
            } catch (const std::exception& e) {
                pbt::fail("C02/verify", hdr() + "slot " + std::to_string(c) + ": BTree::verify() failed: " + e.what());
            }
            BT_CHECK(sl.t->size() == post.size, "inspect-stats", "size() = " << sl.t->size() << " but the leaves hold " << post.size << " entries");
            // the PUBLIC statistics accessor (get_stats() of the facade, nodes(), avgfill_leaves(), leaf_slots / inner_slots)
            ITree::Stats st;
            sl.t->stats(st);
            const double fill = post.leaves ? (double)post.size / (double)(post.leaves * (size_t)ci.leaf) : 0.0;
            BT_CHECK(st.size == post.size && st.leaves == post.leaves && st.inner_nodes == post.inners && st.nodes == post.leaves + post.inners &&
                         st.leaf_slots == (unsigned)ci.leaf && st.inner_slots == (unsigned)ci.inner && std::fabs(st.avgfill - fill) <= 1e-12,
                     "get-stats",
                     "get_stats() reports size=" << st.size << " leaves=" << st.leaves << " inner_nodes=" << st.inner_nodes << " nodes()=" << st.nodes
                                                 << " avgfill_leaves()=" << st.avgfill << " leaf_slots=" << st.leaf_slots << " inner_slots=" << st.inner_slots
                                                 << " but the structure has size=" << post.size << " leaves=" << post.leaves << " inner nodes=" << post.inners
                                                 << " fill=" << fill << " (capacities " << ci.leaf << "/" << ci.inner << ")");
            // get_allocator() is the allocator the nodes of this tree were obtained from (checked where allocators change hands)
            if (ci.counting && oc == OC_OTHER) {
                const long ar = sl.t->alloc_arena();
                AllocLedger& al = AllocLedger::get();
                for (const Walk::NI& nd : post.nodes) {
                    auto it = al.arena_of.find(nd.id);
                    BT_CHECK(it != al.arena_of.end() && (long)it->second == ar, "get-allocator",
                             "slot " << c << ": get_allocator() is arena " << ar << " but a node of the tree was obtained from arena "
                                     << (it == al.arena_of.end() ? -1 : it->second));
                }
                BT_CHECK(sl.t->alloc_equal(*sl.t), "get-allocator", "get_allocator() != get_allocator() of the same container");
            }
        }
        if (!post.bad) delta_labels(sl.shape, post, oc, target_leaf);
        if (SC) scale_labels(post);
        sl.shape = std::move(post);
    }

    //! scale mode: which node fills (relative to the 8-bit / 15-bit / 16-bit thresholds) does the structure show?
    void scale_labels(const Walk& w) {
        int lf = 0, inf = 0;
        for (const Walk::NI& n : w.nodes) {
            if (n.level == 0) lf = std::max(lf, n.slotuse);
            else inf = std::max(inf, n.slotuse);
        }
        // scale mode non-triviality: a node of one of the big capacities (>= 100 slots) has been filled beyond half
        if ((ci.leaf >= 100 && lf > ci.leaf / 2) || (ci.inner >= 100 && inf > ci.inner / 2)) nt_flag = true;
        if (lf >= 256) lab("scale:leaf_fill>=256");
        if (lf > 32768) lab("scale:leaf_fill>32768");
        if (lf == 65535) lab("scale:leaf_fill=65535");
        if (lf == ci.leaf) lab("scale:leaf_exactly_full");
        if (inf >= 256) lab("scale:inner_fill>=256");
        if (inf > 32768) lab("scale:inner_fill>32768");
        if (inf == ci.inner) lab("scale:inner_exactly_full");
        if (inf == 65535) {
            lab("scale:inner_fill=65535");
            // an inner node with 65535 keys has 65536 children: a class of its own (the child loops must not use a 16-bit
            // counter). Can be switched off through a known-findings exclusion; the case then ends here, as passed,
            // without running any further operation or destructor on that tree.
            if (pbt::excluded("C01/inner-65535-full")) pbt::finish_case_early();
        }
    }

    void check_ledgers() {
        if (!(INV && ci.counting)) return;
        size_t nodes = s0.shape.leaves + s0.shape.inners + s1.shape.leaves + s1.shape.inners;
        size_t live = AllocLedger::get().live_count();
        BT_CHECK(live == nodes, "alloc-live",
                 "the allocator has " << live << " live blocks but the two live trees consist of " << nodes
                                      << " nodes (a node was leaked, or freed without being unlinked)");
        if (AllocLedger::get().frees > 0) any_free = true;
    }

    //! end of one compared step; `mask` = slots touched by the operation
    void finish(int mask, OpClass oc = OC_OTHER, const void* target_leaf = nullptr, bool mutating = true) {
        disarm();
        sep_changed = false;
        for (int c = 0; c < 2; ++c) {
            bool touched = (mask >> c) & 1;
            // scale mode: the O(n) re-observation is spent on the steps that may change a container (every returned value
            // and position of a query is still compared; a query that damaged the tree is caught by the next mutating step
            // or by the full comparison of both slots at the end of the history)
            if (SC && !force_full && (!touched || !mutating)) continue;
            if (!touched && (nsteps & 3) != 3) continue; // the untouched slot is re-checked every 4th step
            if (mutating || !touched) inspect(c, touched ? oc : OC_OTHER, touched ? target_leaf : nullptr);
            observe(c);
            compare_model(c, (mutating && touched) || force_full);
            cost += 6ul * S(c).obs.size() + 2ul * S(c).shape.nodes.size();
        }
        check_ledgers();
        ++nsteps;
        // non-trivial: an erase on a tree of height >= 3, or a mutation after a bulk load of >= 2 leaves
        // (C02 with the counting allocator: and at least one node has been given back already)
        if (nt_flag && !nt_done && (!(INV && ci.counting) || any_free)) {
            pbt::nontrivial();
            nt_done = true;
        }
    }

    void note_mutation(int c, bool is_erase, int height_before) {
        if (is_erase && height_before >= 3) nt_flag = true;
        if (S(c).bulk_pending) {
            nt_flag = true;
            lab("mutation_after_bulk_load");
            S(c).bulk_pending = false;
        }
    }

    // ----- drawing arguments ----------------------------------------------------------------------
    //! position inside a node (or inside the child array of an inner node) that holds `cnt` entries, by class:
    //! last / first / around the middle / three quarters / just past a 8-bit or 15-bit threshold / upper half / anywhere
    size_t pos_in(size_t cnt, unsigned cls) {
        switch (cls % 10) {
        case 0: return cnt - 1;
        case 1: return 0;
        case 2: return cnt / 2;
        case 3: return cnt / 2 + (cnt / 2 + 1 < cnt ? 1 : 0);
        case 4: return cnt >= 2 ? cnt - 2 : 0;
        case 5: return cnt / 2 ? cnt / 2 - 1 : 0;
        case 6: return (3 * cnt) / 4;
        case 7: {
            static const size_t T[6] = {32769, 32768, 32767, 257, 256, 255};
            for (size_t t : T)
                if (t < cnt) return t;
            return cnt - 1;
        }
        case 8: return cnt / 2 + src.index(cnt - cnt / 2);
        default: return src.index(cnt);
        }
    }

    //! rank of the element at a drawn (leaf among the leaves, slot inside the leaf) position of slot c (non-empty)
    size_t rank_by_position(int c) {
        const Slot& sl = S(c);
        const std::vector<int>& lf = sl.shape.leaf_fill;
        if (lf.empty()) return src.index(sl.obs.size());
        unsigned cb = src.u8();
        size_t li = pos_in(lf.size(), cb & 15);
        size_t slot = pos_in((size_t)lf[li], cb >> 4);
        size_t off = 0;
        for (size_t i = 0; i < li; ++i) off += (size_t)lf[i];
        if (off + slot >= sl.obs.size()) return sl.obs.size() - 1; // (cannot happen while obs and shape belong together)
        if (lf[li] >= 256 && slot >= 256) lab("scale:key_at_slot>=256");
        if (slot > 32768) lab("scale:key_at_slot>32768");
        if (li >= 256) lab("scale:key_under_child>=256");
        if (li > 32768) lab("scale:key_under_child>32768");
        return off + slot;
    }

    //! scale mode: most keys are chosen by their POSITION in the structure last observed (which leaf among its
    //! siblings, which slot inside that leaf), so that the in-node searches end in the upper part of a big node,
    //! exactly on / next to a separator, at the first or last slot, ...
    int draw_key_scale(int c) {
        unsigned b = src.u8();
        unsigned mode = b & 7;
        const Slot& sl = S(c);
        const std::vector<KD>& o = sl.obs;
        if (o.empty() || sl.shape.leaf_fill.empty()) return (int)src.range(0, U - 1);
        if (mode <= 3) {
            int k = o[rank_by_position(c)].first;
            unsigned j = (b >> 3) & 3; // 0,1: the key itself; 2: successor value; 3: predecessor value
            if (j == 2) k += 1;
            if (j == 3) k -= 1;
            return k;
        }
        if (mode == 4) return (int)src.range(0, U - 1);
        if (mode == 5) {
            int k = o[src.index(o.size())].first;
            if (b & 8) k += (b & 16) ? 1 : -1;
            return k;
        }
        if (mode == 6) return recent_key + (int)((b >> 3) % 3) - 1;
        return (b & 8) ? U + (int)(b >> 4) : -1 - (int)(b >> 4);
    }

    int draw_key(int c) {
        if (SC) return draw_key_scale(c);
        unsigned b = src.u8();
        unsigned mode = b & 7;
        const std::vector<KD>& o = S(c).obs;
        int k;
        if (mode <= 3 || (o.empty() && mode <= 5)) k = (int)src.range(0, U - 1);
        else if (mode <= 5) {
            k = o[src.index(o.size())].first;
            if (b & 8) k += (b & 16) ? 1 : -1; // neighbour of an existing key
        }
        else if (mode == 6) k = recent_key + (int)((b >> 3) % 3) - 1;
        else k = (b & 8) ? U + (int)(b >> 4) : -1 - (int)(b >> 4); // outside the universe (above / below)
        return k;
    }
    int fresh_datum() { return ci.is_map() ? next_datum++ : 0; }

    //! `count` keys forming an arithmetic pattern inside the universe
    void draw_pattern(std::vector<KD>& out, unsigned count) {
        int start = (int)src.range(0, U - 1);
        static const int strides[8] = {1, 2, 3, 5, 7, 11, -1, 0};
        int stride = strides[src.index(8)];
        for (unsigned i = 0; i < count; ++i) {
            long k = ((long)start + (long)i * stride) % U;
            if (k < 0) k += U;
            out.push_back(KD((int)k, fresh_datum()));
        }
    }

    void need_reachable(const Pos& p, const char* what, size_t n) {
        BT_CHECK(p.reachable, "iterator-position",
                 what << " returned an iterator that is not met when walking begin()..end() with ++ (non-canonical or foreign position; " << n << " elements)");
    }

    // ----- operations -----------------------------------------------------------------------------
    void op_insert(int c, bool with_hint) {
        Slot& sl = S(c);
        if (sl.obs.size() >= MAXSIZE) return op_erase_sweep(c);
        const size_t n = sl.obs.size();
        int k = draw_key(c), d = fresh_datum();
        unsigned two = ci.is_map() ? (unsigned)src.index(2) : 0; // maps: insert2(key, data) as well
        size_t hint_rank = with_hint ? src.index(n + 1) : 0;
        opname = with_hint ? (two ? "insert2(hint,k,d)" : "insert(hint,v)") : (two ? "insert2(k,d)" : "insert(v)");
        lab(with_hint ? "op:insert_hint" : "op:insert");
        PBT_LOG("#" << nsteps << " " << opname << " slot " << c << " k=" << k << " d=" << d);
        if (with_hint) PBT_LOG(" hint@" << hint_rank);
        PBT_LOG("\n");
        recent_key = k;
        int hb = sl.shape.height;
        size_t lbr = 0, ubr = 0;
        if (WM) lbr = sl.m->lower_rank(k), ubr = sl.m->upper_rank(k);
        Pos p;
        bool ok = true, have_ok = false;
        arm_key(2, k);
        sl.t->insert(k, d, two | (with_hint ? 2u : 0u), hint_rank, n, p, ok, have_ok, WM);
        if (WM) {
            size_t er = 0;
            bool mok = true;
            KD mat;
            sl.m->insert(k, d, er, mok, mat);
            need_reachable(p, opname, n + 1);
            BT_CHECK(!p.is_end, "insert-result", "returned end()");
            if (ci.multi()) {
                BT_CHECK(p.rank >= lbr && p.rank <= ubr, "insert-result",
                         "returned iterator at rank " << p.rank << " is outside the run of equivalent keys [" << lbr << "," << ubr << "]");
                BT_CHECK(p.value == KD(k, d), "insert-result", "returned iterator points to " << show(p.value) << ", inserted " << k << ":" << d);
            }
            else {
                if (have_ok) BT_CHECK(ok == mok, "insert-result", "returned bool " << ok << ", std container returned " << mok);
                BT_CHECK(p.rank == er && p.value == mat, "insert-result",
                         "returned iterator at rank " << p.rank << " -> " << show(p.value) << ", std container's at rank " << er << " -> " << show(mat));
                if (!mok) minor("insert_existing_key");
            }
        }
        note_mutation(c, false, hb);
        finish(1 << c, OC_INSERT);
    }

    void op_insert_range(int c) {
        Slot& sl = S(c);
        if (sl.obs.size() >= MAXSIZE) return op_erase_sweep(c);
        unsigned count = (unsigned)src.range(1, 32);
        std::vector<KD> ks;
        draw_pattern(ks, count);
        opname = "insert(first,last)";
        lab("op:insert_range");
        PBT_LOG("#" << nsteps << " " << opname << " slot " << c << " " << show(ks, ci.is_map()) << "\n");
        int hb = sl.shape.height;
        arm_keys(ks.size());
        sl.t->insert_range(ks);
        if (WM) sl.m->insert_range(ks);
        recent_key = ks.back().first;
        note_mutation(c, false, hb);
        finish(1 << c, OC_INSERT);
    }

    //! erase_one(k) as one compared step
    //! (alias_rank >= 0: the argument is a reference to the key of the container's own element at that rank)
    void do_erase_one(int c, int k, long alias_rank = -1) {
        Slot& sl = S(c);
        opname = alias_rank >= 0 ? "erase_one(key of *it) [aliased]" : "erase_one(k)";
        PBT_LOG("#" << nsteps << " " << opname << " slot " << c << " k=" << k << "\n");
        recent_key = k;
        int hb = sl.shape.height;
        const size_t before = sl.obs.size();
        const void* target = nullptr;
        arm_key(3 + dups(c, k), k);
        if (before) { // which leaf will lose an entry (for the shift/merge labels only)
            Pos lp;
            sl.t->locate(3, 0, before, k, lp, false);
            if (!lp.is_end) target = lp.leaf;
        }
        bool r = alias_rank >= 0 ? sl.t->erase_one_alias((size_t)alias_rank, before) : sl.t->erase_one(k);
        if (WM) {
            IModel& m = *sl.m;
            size_t cnt = m.count(k);
            BT_CHECK(r == (cnt > 0), "erase-result", "erase_one(" << k << ") returned " << r << " but the std container holds " << cnt << " such entries");
            if (cnt > 0) {
                if (ci.multi()) {
                    // any one occurrence may go: find out which one went and remove the same from the model
                    size_t lbr = m.lower_rank(k);
                    std::vector<KD> run_before(sl.obs.begin() + lbr, sl.obs.begin() + lbr + cnt);
                    observe(c);
                    BT_CHECK(sl.obs.size() + 1 == before, "contents",
                             "erase_one(" << k << ") changed the number of elements from " << before << " to " << sl.obs.size());
                    std::vector<KD> run_after(sl.obs.begin() + lbr, sl.obs.begin() + lbr + cnt - 1);
                    std::sort(run_before.begin(), run_before.end());
                    std::sort(run_after.begin(), run_after.end());
                    std::vector<KD> gone;
                    std::set_difference(run_before.begin(), run_before.end(), run_after.begin(), run_after.end(), std::back_inserter(gone));
                    BT_CHECK(gone.size() == 1, "erase-result",
                             "erase_one(" << k << ") did not remove exactly one entry of the run of equivalent keys: before "
                                          << show(run_before, ci.is_map()) << " after " << show(run_after, ci.is_map()));
                    bool found = m.erase_entry(k, gone[0]);
                    BT_CHECK(found, "erase-result", "internal: erased entry not found in the model run");
                }
                else m.erase_key(k);
            }
        }
        if (r) note_mutation(c, true, hb);
        finish(1 << c, OC_ERASE, r ? target : nullptr);
    }

    void op_erase_one(int c) {
        lab("op:erase_one");
        do_erase_one(c, draw_key(c));
    }

    void op_erase_key(int c) {
        Slot& sl = S(c);
        int k = draw_key(c);
        opname = "erase(k)";
        lab("op:erase_key");
        PBT_LOG("#" << nsteps << " " << opname << " slot " << c << " k=" << k << "\n");
        recent_key = k;
        int hb = sl.shape.height;
        arm_key(2 + dups(c, k), k);
        size_t n = sl.t->erase_key(k);
        if (WM) {
            size_t e = sl.m->erase_key(k);
            BT_CHECK(n == e, "erase-result", "erase(" << k << ") returned " << n << ", std container erased " << e);
        }
        if (n > 1) minor("erase_key_removes_many");
        if (n) note_mutation(c, true, hb);
        finish(1 << c, OC_ERASE);
    }

    //! erase(iterator): the iterator is obtained with locate(how, ...); one compared step. false: nothing located
    bool do_erase_iter(int c, unsigned how, size_t rank, int k, const char* howname) {
        Slot& sl = S(c);
        const std::vector<KD>& o = sl.obs;
        const size_t n = o.size();
        opname = "erase(iterator)";
        int hb = sl.shape.height;
        Pos p;
        if (how >= 2) arm_key(3 + dups(c, k), k);
        else arm_keys(2);
        sl.t->locate(how, rank, n, k, p, true);
        need_reachable(p, howname, n);
        if (WM && how >= 2) { // the iterator came from find / lower_bound: check it like a lookup
            size_t cnt = sl.m->count(k), lbr = sl.m->lower_rank(k);
            if (how == 2) {
                BT_CHECK(p.is_end == (cnt == 0), "lookup", "find(" << k << ") " << (p.is_end ? "== end()" : "!= end()") << " but std count = " << cnt);
                if (!p.is_end) BT_CHECK(p.rank >= lbr && p.rank < lbr + cnt, "lookup", "find(" << k << ") at rank " << p.rank << " outside [" << lbr << "," << lbr + cnt << ")");
            }
            else BT_CHECK(p.rank == lbr, "bound", "lower_bound(" << k << ") at rank " << p.rank << ", std container's at rank " << lbr);
        }
        if (p.is_end) {
            BT_CHECK(how >= 2, "iterator-position", howname << " " << rank << " of " << n << " is end()");
            return false;
        }
        BT_CHECK(p.rank < n && (how >= 2 || p.rank == rank), "iterator-position", howname << " " << rank << " of " << n << " is at rank " << p.rank);
        KD x = p.value;
        PBT_LOG("#" << nsteps << " " << opname << " slot " << c << " via " << howname << " rank=" << p.rank << " -> " << show(x) << "\n");
        if (WM) BT_CHECK(x == o[p.rank], "iterator-position", howname << " at rank " << p.rank << " dereferences to " << show(x) << ", expected " << show(o[p.rank]));
        recent_key = x.first;
        { // classify: inside a run of duplicates? does the run span leaves?
            size_t lo = p.rank, hi = p.rank + 1;
            while (lo > 0 && equiv(c, o[lo - 1].first, x.first)) --lo;
            while (hi < n && equiv(c, o[hi].first, x.first)) ++hi;
            if (hi - lo >= 2) {
                lab("erase_iter_in_dup_run");
                if (sl.shape.dup_spans && sl.t->leaf_at(lo, n) != sl.t->leaf_at(hi - 1, n)) lab("erase_iter_dup_run_spans_leaves");
            }
        }
        arm_key(3 + dups(c, x.first), x.first); // (the run of equivalent keys may have to be walked child by child)
        sl.t->erase_cursor();
        if (WM) sl.m->erase_rank(p.rank);
        note_mutation(c, true, hb);
        finish(1 << c, OC_ERASE, p.leaf);
        return true;
    }

    void op_erase_iter(int c) {
        Slot& sl = S(c);
        lab("op:erase_iter");
        unsigned how = (unsigned)src.weighted({6, 2, 2, 1});
        if (how == 3 && sl.obs.size() < MAXSIZE) { // erase what insert just returned
            int k = draw_key(c), d = fresh_datum();
            opname = "insert(v) then erase(returned iterator)";
            PBT_LOG("#" << nsteps << " " << opname << " slot " << c << " k=" << k << " d=" << d << "\n");
            Pos p;
            bool ok, have_ok;
            arm_key(4 + dups(c, k), k);
            sl.t->insert(k, d, 0, 0, sl.obs.size(), p, ok, have_ok, false);
            if (WM) {
                size_t er;
                bool mok;
                KD mat;
                sl.m->insert(k, d, er, mok, mat);
                BT_CHECK(!p.is_end && p.value == mat, "insert-result", "insert returned an iterator to " << show(p.value) << ", std container's points to " << show(mat));
                sl.m->erase_rank(er);
            }
            sl.t->erase_cursor();
            recent_key = k;
            minor("erase_just_inserted");
            note_mutation(c, true, sl.shape.height);
            finish(1 << c, OC_OTHER);
            return;
        }
        if (sl.obs.empty()) return;
        if (how == 0 || how == 3) {
            size_t r = SC ? rank_by_position(c) : src.index(sl.obs.size());
            do_erase_iter(c, src.boolean() ? 1 : 0, r, 0, "iterator at rank");
        }
        else {
            int k = draw_key(c);
            do_erase_iter(c, how == 1 ? 2 : 3, 0, k, how == 1 ? "find(k)" : "lower_bound(k)");
        }
    }

    //! macro operation: several consecutive erasures, each one a compared step
    void op_erase_sweep(int c) {
        Slot& sl = S(c);
        lab("op:erase_sweep");
        unsigned count = (unsigned)src.range(1, 24);
        if (SC) count = 1 + (count - 1) % 6; // every erasure is a fully compared O(n) step
        unsigned how = (unsigned)src.index(4);
        size_t start = SC && !sl.obs.empty() ? rank_by_position(c) : src.index(sl.obs.size() + 1);
        for (unsigned i = 0; i < count && !sl.obs.empty() && nsteps < MAXSTEPS && !(SC && cost > COSTMAX); ++i) {
            size_t n = sl.obs.size();
            size_t r = start < n ? start : n - 1;
            if (how == 0) do_erase_iter(c, r <= n / 2 ? 0 : 1, r, 0, "iterator at rank (sweep)");
            else if (how == 1) do_erase_one(c, sl.obs[r].first);
            else if (how == 2) do_erase_iter(c, 1, n - 1, 0, "--end() (sweep)");
            else do_erase_iter(c, 0, 0, 0, "begin() (sweep)");
        }
    }

    void op_lookup(int c) {
        Slot& sl = S(c);
        ITree& t = *sl.t;
        int k = draw_key(c);
        unsigned q = (unsigned)src.index(4);
        static const char* names[4] = {"exists(k)", "count(k)", "find(k)", "find(k) const"};
        opname = names[q];
        lab("op:lookup");
        PBT_LOG("#" << nsteps << " " << opname << " slot " << c << " k=" << k << "\n");
        const size_t n = sl.obs.size();
        size_t cnt = 0, lbr = 0;
        if (WM) cnt = sl.m->count(k), lbr = sl.m->lower_rank(k);
        else
            for (const KD& e : sl.obs) cnt += equiv(c, e.first, k);
        if (sep_changed_prev) minor("lookup_after_separator_change");
        key_class(c, k, cnt > 0);
        arm_key(2 + cnt, k);
        if (q == 0) {
            bool r = t.exists(k);
            if (WM) BT_CHECK(r == (cnt > 0), "lookup", "exists(" << k << ") = " << r << ", std count = " << cnt);
        }
        else if (q == 1) {
            size_t r = t.count(k);
            if (WM) BT_CHECK(r == cnt, "lookup", "count(" << k << ") = " << r << ", std count = " << cnt);
        }
        else {
            Pos p;
            t.find(k, q == 3, p, WM, n);
            if (WM) {
                need_reachable(p, opname, n);
                BT_CHECK(p.is_end == (cnt == 0), "lookup", "find(" << k << ") " << (p.is_end ? "== end()" : "!= end()") << " but std count = " << cnt);
                if (!p.is_end) {
                    BT_CHECK(p.rank >= lbr && p.rank < lbr + cnt, "lookup", "find(" << k << ") at rank " << p.rank << " is outside the run [" << lbr << "," << lbr + cnt << ")");
                    BT_CHECK(p.value == sl.obs[p.rank], "lookup", "find(" << k << ") dereferences to " << show(p.value) << ", element at that rank is " << show(sl.obs[p.rank]));
                }
            }
        }
        lab(cnt ? "lookup_hit" : "lookup_miss");
        finish(1 << c, OC_OTHER, nullptr, false);
    }

    void check_pos(int c, const Pos& p, size_t expect, const char* sub) {
        if (!WM) return;
        const std::vector<KD>& o = S(c).obs;
        need_reachable(p, opname, o.size());
        BT_CHECK(p.rank == expect, "bound",
                 opname << " (" << sub << ") is at rank " << p.rank << " but the std container's is at rank " << expect << " of " << o.size()
                        << "; contents " << show(o, ci.is_map()));
        BT_CHECK(p.is_end == (expect == o.size()), "bound", opname << " (" << sub << ") == end() is " << p.is_end << " at rank " << expect << " of " << o.size());
        if (p.rank < o.size()) BT_CHECK(p.value == o[p.rank], "bound", opname << " (" << sub << ") dereferences to " << show(p.value) << ", expected " << show(o[p.rank]));
    }

    void op_bounds(int c) {
        Slot& sl = S(c);
        int k = draw_key(c);
        unsigned q = (unsigned)src.index(6);
        static const char* names[6] = {"lower_bound(k)", "upper_bound(k)", "equal_range(k)", "lower_bound(k) const", "upper_bound(k) const", "equal_range(k) const"};
        opname = names[q];
        lab("op:bounds");
        if (sep_changed_prev) minor("bound_after_separator_change");
        PBT_LOG("#" << nsteps << " " << opname << " slot " << c << " k=" << k << "\n");
        size_t lbr = 0, ubr = 0;
        if (WM) lbr = sl.m->lower_rank(k), ubr = sl.m->upper_rank(k);
        Pos a, b;
        unsigned which = q % 3;
        if (WM) key_class(c, k, ubr > lbr);
        arm_key(3 + (ubr - lbr), k);
        sl.t->bound(k, which, q >= 3, a, b, WM, sl.obs.size());
        if (which == 0) check_pos(c, a, lbr, "lower");
        else if (which == 1) check_pos(c, a, ubr, "upper");
        else {
            check_pos(c, a, lbr, "first");
            check_pos(c, b, ubr, "second");
        }
        if (ubr > lbr + 1) lab("bounds_on_dup_run");
        if (WM && lbr == sl.obs.size() && !sl.obs.empty()) lab("bound_is_end");
        finish(1 << c, OC_OTHER, nullptr, false);
    }

    //! ++/-- walk (prefix and postfix) from a random position, mirrored on the observed sequence
    void op_walk(int c) {
        Slot& sl = S(c);
        ITree& t = *sl.t;
        const std::vector<KD>& o = sl.obs;
        const size_t n = o.size();
        unsigned kind = (unsigned)src.index(4);
        static const char* kn[4] = {"iterator", "const_iterator", "reverse_iterator", "const_reverse_iterator"};
        const char* kindname = kn[kind];
        opname = "iterator walk";
        lab("op:walk");
        minor(kind >= 2 ? "walk_reverse_iterator" : "walk_forward_iterator");
        size_t pos = src.index(n + 1);
        unsigned steps = (unsigned)src.range(0, 12);
        auto at = [&](size_t i) { return kind >= 2 ? o[n - 1 - i] : o[i]; };
        auto check_here = [&](const WalkState& st, size_t p, const char* what) {
            if (!WM) return;
            BT_CHECK(st.eq_last == (p == n), "iterator-walk", kindname << " " << what << ": position " << p << " of " << n << ", == end is " << st.eq_last);
            BT_CHECK(st.ne_last == (p != n), "iterator-walk", kindname << " " << what << ": position " << p << " of " << n << ", != end is " << st.ne_last);
            BT_CHECK(st.eq_first == (p == 0), "iterator-walk", kindname << " " << what << ": position " << p << " of " << n << ", == begin is " << st.eq_first);
            if (p < n) {
                BT_CHECK(st.value == at(p), "iterator-walk", kindname << " " << what << ": position " << p << " dereferences to " << show(st.value) << ", expected " << show(at(p)));
                BT_CHECK(st.key == at(p).first && st.arrow == st.value, "iterator-walk", kindname << " " << what << ": key() = " << st.key << ", operator-> gives " << show(st.arrow));
            }
        };
        PBT_LOG("#" << nsteps << " walk " << kindname << " slot " << c << " from " << pos << ":");
        WalkState st, old;
        arm_bulk();
        t.walk_start(kind, pos, n);
        t.walk_state(pos < n, st);
        check_here(st, pos, "start");
        for (unsigned i = 0; i < steps; ++i) {
            unsigned mv = (unsigned)src.index(4);
            if ((mv < 2 && pos == n) || (mv >= 2 && pos == 0)) mv ^= 2; // stay inside [begin, end]
            if ((mv < 2 && pos == n) || (mv >= 2 && pos == 0)) break;   // empty container
            size_t was = pos;
            static const char* mn[4] = {" ++i", " i++", " --i", " i--"};
            PBT_LOG(mn[mv]);
            t.walk_move(mv, was < n, old);
            if (mv < 2) ++pos;
            else --pos;
            if (mv & 1) check_here(old, was, mv == 1 ? "value of i++" : "value of i--");
            t.walk_state(pos < n, st);
            check_here(st, pos, "after a move");
        }
        PBT_LOG("\n");
        bool reach = true;
        size_t r = t.walk_rank(n, reach);
        if (WM) BT_CHECK(reach && r == pos, "iterator-walk", kindname << " ends at rank " << r << (reach ? "" : " (unreachable)") << ", expected " << pos);
        finish(1 << c, OC_OTHER, nullptr, false);
    }

    void op_clear(int c) {
        Slot& sl = S(c);
        opname = "clear()";
        lab("op:clear");
        PBT_LOG("#" << nsteps << " clear slot " << c << " (size " << sl.obs.size() << ")\n");
        int hb = sl.shape.height;
        bool had = !sl.obs.empty();
        arm_bulk();
        sl.t->clear();
        if (WM) sl.m->clear();
        if (had) note_mutation(c, false, hb);
        if (hb >= 2) minor("clear_multi_level");
        finish(1 << c, OC_OTHER);
    }

    void op_copy(int c) {
        int j = (int)src.index(2);
        opname = "copy constructor";
        lab("op:copy_construct");
        PBT_LOG("#" << nsteps << " slot " << j << " = new Tree(slot " << c << ") (size " << S(c).obs.size() << ")\n");
        arm_bulk();
        std::unique_ptr<ITree> n(S(c).t->clone());
        S(j).t = std::move(n); // destroys the previous container of slot j
        if (WM && j != c) S(j).m.reset(S(c).m->clone());
        S(j).bulk_pending = false;
        if (S(c).shape.height >= 2) minor("copy_multi_level");
        finish(3, OC_OTHER);
    }

    void op_assign(int c) {
        int j = (int)src.index(2);
        opname = (j == c) ? "operator= (self)" : "operator=";
        lab(j == c ? "op:assign_self" : "op:assign");
        PBT_LOG("#" << nsteps << " slot " << j << " = slot " << c << " (sizes " << S(j).obs.size() << " <- " << S(c).obs.size() << ")\n");
        if (j != c && S(j).shape.height >= 2) minor("assign_over_multi_level");
        arm_bulk();
        S(j).t->assign(*S(c).t);
        if (WM && j != c) S(j).m->assign(*S(c).m);
        if (j != c) S(j).bulk_pending = false;
        finish(3, OC_OTHER);
    }

    void op_swap() {
        opname = "swap";
        lab("op:swap");
        PBT_LOG("#" << nsteps << " slot0.swap(slot1) (sizes " << s0.obs.size() << ", " << s1.obs.size() << ")\n");
        arm_bulk();
        s0.t->swap(*s1.t);
        if (WM) s0.m->swap(*s1.m);
        std::swap(s0.bulk_pending, s1.bulk_pending);
        std::swap(s0.shape, s1.shape); // the cached shapes travel with the contents
        finish(3, OC_OTHER);
    }

    //! api = true (api mode): also the forms with comparator AND allocator, ranges through other iterator types
    void op_construct(int c, bool api = false) {
        Slot& sl = S(c);
        unsigned variant = (unsigned)src.index(api ? 8 : 6);
        unsigned itk = 0;
        const bool ranged = (variant >= 3 && variant != 6);
        std::vector<KD> ks;
        if (ranged) draw_pattern(ks, (unsigned)src.range(0, 24));
        if (api && ranged) itk = (unsigned)src.index(3); // vector::iterator, single-pass input iterator, pointers
        static const char* names[8] = {"Tree()",     "Tree(cmp)", "Tree(alloc)", "Tree(first,last)", "Tree(first,last,cmp)", "Tree(first,last,alloc)",
                                       "Tree(cmp,alloc)", "Tree(first,last,cmp,alloc)"};
        opname = names[variant];
        lab(ranged ? "op:range_construct" : "op:construct_empty");
        if (variant == 6) lab("api:ctor_cmp_alloc");
        if (variant == 7) lab("api:ctor_range_cmp_alloc");
        if (itk) range_label(itk);
        PBT_LOG("#" << nsteps << " slot " << c << " = " << opname << " " << show(ks, ci.is_map()) << " iterator kind " << itk << "\n");
        arm_keys(ks.size() + 1);
        std::unique_ptr<ITree> n(sl.t->make(variant | (itk << 4), ks, shift, desc));
        sl.t = std::move(n); // destroys the previous container
        if (WM) sl.m.reset(sl.m->make(variant == 1 || variant == 4 || variant == 6 || variant == 7, ks, shift, desc));
        sl.bulk_pending = false;
        finish(1 << c, OC_OTHER);
    }

    //! n entries sorted by the comparator of slot c: strictly increasing equivalence classes (`step` apart) for the
    //! unique containers, runs of 3 / 5 / 7 equivalent keys for rep = 1 / 2 / 3
    void sorted_keys(int c, long n, unsigned rep, unsigned step, std::vector<KD>& ks) {
        Slot& sl = S(c);
        unsigned sh = 0;
        bool ds = false;
        if (WM) sl.m->cmp_state(sh, ds);
        else sl.t->cmp_state(sh, ds);
        int cls = 0;
        ks.reserve((size_t)n);
        for (long i = 0; i < n; ++i) {
            int low = sh ? (int)((unsigned)i & ((1u << sh) - 1)) : 0;
            ks.push_back(KD(((cls * (int)step) << sh) | low, fresh_datum()));
            if (!rep || ((i + 1) % (1 + (long)rep * 2)) == 0) ++cls; // runs of 3, 5, 7 entries per class
        }
        std::stable_sort(ks.begin(), ks.end(), [&](const KD& a, const KD& b) { return less(c, a.first, b.first); });
        if (SC)
            for (const KD& e : ks) U = std::max(U, e.first + 3); // the universe follows the loaded keys
    }

    //! scale mode: how many elements the next fill loads. `f` = wanted number of entries of the big node(s), drawn
    //! relative to the capacity C of that node kind (more than half, exactly full +-1, one more node, at an 8-/15-/16-bit
    //! threshold, anything); leaf dimension: n = f; inner dimension: f separators = f+1 leaves.
    long draw_scale_n(bool by_insert) {
        const long L = ci.leaf, I = ci.inner;
        const long C = inner_dim ? I : L;
        unsigned cls = (unsigned)src.weighted({3, 2, 2, 2, 1});
        long f;
        switch (cls) {
        case 0: f = src.range(C / 2, C); break;
        case 1: f = C + (long)src.index(3) - 1; break;
        case 2: f = src.range(C + 1, 2 * C + 2); break;
        case 3: {
            static const long T[9] = {255, 256, 257, 32767, 32768, 32769, 43691, 65534, 65535};
            size_t cnt = 0;
            while (cnt < 9 && T[cnt] <= 2 * C + 2) ++cnt;
            f = cnt ? T[src.index(cnt)] : C;
            break;
        }
        default: f = src.range(1, 2 * C + 2); break;
        }
        static const char* fl[5] = {"scale:fill_half..full", "scale:fill_full+-1", "scale:fill_second_node", "scale:fill_at_threshold", "scale:fill_any"};
        lab(fl[cls]);
        long n = f;
        if (inner_dim) {
            long per = by_insert ? std::max(1l, L / 2) : L; // ascending inserts leave the split-off leaves half full
            n = (f + 1) * per - (long)src.index((size_t)per);
        }
        if (n > NB) n = NB;
        if (n < 0) n = 0;
        return n;
    }

    //! itk != 0 (api mode): the sorted range is presented through another random-access iterator type (ITree::bulk_load_it)
    void op_bulk_load(int c, unsigned itk = 0) {
        Slot& sl = S(c);
        if (!sl.obs.empty()) op_clear(c); // bulk_load() is defined for an empty tree only
        const long L = ci.leaf, I = ci.inner;
        long n;
        unsigned rep;
        if (SC) {
            n = draw_scale_n(false);
            rep = sc_rep;
        }
        else {
            unsigned variant = (unsigned)src.index(5);
            long jit = (long)src.index(3) - 1; // -1, 0, +1
            switch (variant) {
            case 0: n = src.range(0, 3 * L); break;
            case 1: n = (long)src.range(1, 12) * L + jit; break;
            case 2: n = L * (I + 1) + jit; break;
            case 3: n = L * (I + 1) * (I + 1) + jit; break;
            default: n = (long)src.range(1, 6) * L * (I + 1) + jit; break;
            }
            if (n > (long)MAXSIZE) n = (long)src.range(1, 12) * L + jit;
            if (n < 0) n = 0;
            // strictly increasing equivalence classes for the unique containers, runs of equivalent keys otherwise
            rep = ci.multi() ? (unsigned)src.index(4) : 0;
        }
        std::vector<KD> ks;
        sorted_keys(c, n, rep, SC ? stride : 1u, ks);
        opname = "bulk_load(first,last)";
        lab("op:bulk_load");
        if (n > 0 && n % L == 0) lab("bulk_exact_multiple");
        if (n == L * (I + 1) || n == L * (I + 1) * (I + 1)) lab("bulk_exact_full_level");
        if (n > L) lab("bulk_multi_leaf");
        PBT_LOG("#" << nsteps << " " << opname << " slot " << c << " n=" << n << " " << show(ks, ci.is_map()) << "\n");
        arm_bulk(ks.size());
        if (itk) {
            static const char* bl[4] = {"", "api:bulk_load_pointers", "api:bulk_load_deque_iterators", "api:bulk_load_const_iterators"};
            lab(bl[itk & 3]);
            sl.t->bulk_load_it(ks, itk);
        }
        else sl.t->bulk_load(ks);
        if (WM) sl.m->append(ks);
        if (!ks.empty()) recent_key = ks[ks.size() / 2].first;
        finish(1 << c, OC_OTHER);
        sl.bulk_pending = sl.shape.leaves >= 2;
        if (sl.shape.height >= 3) lab("bulk_height>=3");
    }

    // ----- ALIASING operations (alias mode only) ---------------------------------------------------------------------
    //! rank of an element of slot c (non-empty) whose reference is handed to the container: by position in the
    //! structure (last / first / middle / upper half of a leaf: the slots a split or a shift moves), then optionally
    //! moved inside its run of equivalent keys (first / last / second entry of the run)
    size_t draw_alias_rank(int c) {
        const std::vector<KD>& o = S(c).obs;
        unsigned b = src.u8();
        size_t r = (b & 3) != 3 ? rank_by_position(c) : src.index(o.size());
        size_t lo = r, hi = r + 1;
        while (lo > 0 && equiv(c, o[lo - 1].first, o[r].first)) --lo;
        while (hi < o.size() && equiv(c, o[hi].first, o[r].first)) ++hi;
        switch ((b >> 2) & 3) {
        case 1: r = hi - 1; break;
        case 2: r = lo + (hi - lo >= 2 ? 1 : 0); break;
        case 3: r = lo; break;
        default: break;
        }
        if (hi - lo >= 2) lab(r == lo ? "alias:arg_first_of_dup_run" : "alias:arg_inside_dup_run");
        return r;
    }
    size_t first_of_run(int c, size_t r) {
        const std::vector<KD>& o = S(c).obs;
        while (r > 0 && equiv(c, o[r - 1].first, o[r].first)) --r;
        return r;
    }

    //! c.insert(*it) / c.insert(hint, *it) / c.insert2(it_a->first, it_b->second) / c.insert2(hint, ...): the std
    //! containers accept a reference to their own element and insert a copy of it
    void op_insert_alias(int c) {
        Slot& sl = S(c);
        if (sl.obs.empty()) return op_insert(c, false);
        if (sl.obs.size() >= MAXSIZE) return op_erase_sweep(c);
        const size_t n = sl.obs.size();
        size_t ra = draw_alias_rank(c);
        // known-findings switch (only if listed as excluded): an argument that is not the first entry of its run
        if (ci.multi() && pbt::excluded("C01/aliased-insert")) ra = first_of_run(c, ra);
        unsigned vb = src.u8();
        const unsigned two = ci.is_map() ? (vb & 1) : 0;
        const bool with_hint = (vb & 2) != 0;
        size_t rb = ra;
        if (two && (vb & 4)) rb = src.index(n); // data reference from another element of the same container
        size_t hint_rank = 0;
        if (with_hint) hint_rank = (vb & 8) ? ra : src.index(n + 1); // also c.insert(it, *it)
        const int k = sl.obs[ra].first, d = two ? sl.obs[rb].second : sl.obs[ra].second;
        opname = with_hint ? (two ? "insert2(hint, it_a->first, it_b->second) [aliased]" : "insert(hint, *it) [aliased]")
                           : (two ? "insert2(it_a->first, it_b->second) [aliased]" : "insert(*it) [aliased]");
        lab(two ? "op:insert2_alias" : "op:insert_alias");
        if (with_hint) lab("op:insert_alias_hint");
        if (rb != ra) lab("alias:insert2_data_of_other_element");
        PBT_LOG("#" << nsteps << " " << opname << " slot " << c << " it_a@" << ra << " it_b@" << rb << " -> " << k << ":" << d);
        if (with_hint) PBT_LOG(" hint@" << hint_rank);
        PBT_LOG("\n");
        recent_key = k;
        // classes: will the leaf of the referenced element split, and is the element in its upper half?
        {
            const std::vector<int>& lf = sl.shape.leaf_fill;
            size_t off = 0;
            for (size_t i = 0; i < lf.size(); ++i) {
                if (ra < off + (size_t)lf[i]) {
                    if (lf[i] == ci.leaf && ci.multi()) {
                        lab("alias:arg_in_full_leaf");
                        if (ra - off >= (size_t)lf[i] / 2) lab("alias:arg_in_upper_half_of_full_leaf");
                    }
                    break;
                }
                off += (size_t)lf[i];
            }
        }
        int hb = sl.shape.height;
        size_t lbr = 0, ubr = 0;
        if (WM) lbr = sl.m->lower_rank(k), ubr = sl.m->upper_rank(k);
        Pos p;
        bool ok = true, have_ok = false;
        arm_key(2, k);
        sl.t->insert_alias(ra, rb, two | (with_hint ? 2u : 0u), hint_rank, n, p, ok, have_ok, WM);
        if (WM) {
            size_t er = 0;
            bool mok = true;
            KD mat;
            sl.m->insert(k, d, er, mok, mat);
            need_reachable(p, opname, n + 1);
            BT_CHECK(!p.is_end, "insert-result", "returned end()");
            if (ci.multi()) {
                BT_CHECK(p.rank >= lbr && p.rank <= ubr, "insert-result",
                         "returned iterator at rank " << p.rank << " is outside the run of equivalent keys [" << lbr << "," << ubr << "]");
                BT_CHECK(p.value == KD(k, d), "insert-result",
                         "returned iterator points to " << show(p.value) << ", the referenced element(s) of the container held " << k << ":" << d);
            }
            else {
                if (have_ok) BT_CHECK(ok == mok, "insert-result", "returned bool " << ok << ", std container returned " << mok);
                BT_CHECK(p.rank == er && p.value == mat, "insert-result",
                         "returned iterator at rank " << p.rank << " -> " << show(p.value) << ", std container's at rank " << er << " -> " << show(mat));
            }
        }
        if (ci.multi()) note_mutation(c, false, hb);
        finish(1 << c, OC_INSERT);
    }

    //! c.erase(*it) / c.erase(it->first) / c.erase_one(...): the key is a reference to an element that is erased by the call
    void op_erase_alias(int c) {
        Slot& sl = S(c);
        if (sl.obs.empty()) return op_erase_key(c);
        const size_t n = sl.obs.size();
        size_t ra = draw_alias_rank(c);
        const int k = sl.obs[ra].first;
        bool one = src.index(3) == 0;
        // known-findings switch (only if listed as excluded): erase(key) of a duplicate-key container with an aliased key
        if (!one && ci.multi() && pbt::excluded("C01/aliased-erase")) one = true;
        if (one) {
            lab("op:erase_one_alias");
            do_erase_one(c, k, (long)ra);
            return;
        }
        opname = "erase(key of *it) [aliased]";
        lab("op:erase_key_alias");
        PBT_LOG("#" << nsteps << " " << opname << " slot " << c << " it@" << ra << " k=" << k << "\n");
        recent_key = k;
        int hb = sl.shape.height;
        arm_key(2 + dups(c, k) + (WM ? 0 : n), k);
        size_t cnt = sl.t->erase_key_alias(ra, n);
        if (WM) {
            size_t e = sl.m->erase_key(k);
            BT_CHECK(cnt == e, "erase-result", "erase(key of the element at rank " << ra << " = " << k << ") returned " << cnt << ", std container erased " << e);
        }
        if (cnt > 1) lab("alias:erase_key_removes_run");
        if (cnt) note_mutation(c, true, hb);
        finish(1 << c, OC_ERASE);
    }

    //! exists / count / find / lower_bound / upper_bound / equal_range with a key reference into the container
    void op_query_alias(int c) {
        Slot& sl = S(c);
        if (sl.obs.empty()) return op_lookup(c);
        const size_t n = sl.obs.size();
        size_t ra = draw_alias_rank(c);
        const int k = sl.obs[ra].first;
        unsigned q = (unsigned)src.index(6);
        bool constant = src.boolean();
        static const char* names[6] = {"exists(key of *it) [aliased]", "count(key of *it) [aliased]", "find(key of *it) [aliased]", "lower_bound(key of *it) [aliased]",
                                       "upper_bound(key of *it) [aliased]", "equal_range(key of *it) [aliased]"};
        opname = names[q];
        lab("op:query_alias");
        PBT_LOG("#" << nsteps << " " << opname << " slot " << c << " it@" << ra << " k=" << k << "\n");
        size_t cnt = 0, lbr = 0, ubr = 0;
        if (WM) cnt = sl.m->count(k), lbr = sl.m->lower_rank(k), ubr = sl.m->upper_rank(k);
        arm_key(3 + cnt + (WM ? 0 : n), k);
        size_t got = 0;
        Pos a, b;
        sl.t->query_alias(ra, n, q, constant, got, a, b, WM);
        if (WM) {
            if (q == 0) BT_CHECK(got == 1, "lookup", "exists(key of an element of the container) is false");
            else if (q == 1) BT_CHECK(got == cnt, "lookup", "count(" << k << ") = " << got << ", std count = " << cnt);
            else if (q == 2) {
                need_reachable(a, opname, n);
                BT_CHECK(!a.is_end && a.rank >= lbr && a.rank < ubr && a.value == sl.obs[a.rank], "lookup",
                         "find(" << k << ") " << (a.is_end ? "== end()" : "at rank ") << a.rank << ", the run is [" << lbr << "," << ubr << ")");
            }
            else if (q == 3) check_pos(c, a, lbr, "lower");
            else if (q == 4) check_pos(c, a, ubr, "upper");
            else {
                check_pos(c, a, lbr, "first");
                check_pos(c, b, ubr, "second");
            }
        }
        finish(1 << c, OC_OTHER, nullptr, false);
    }

    //! c.swap(c): must leave the container as it is
    void op_swap_self(int c) {
        opname = "swap (self)";
        lab("op:swap_self");
        PBT_LOG("#" << nsteps << " slot" << c << ".swap(slot" << c << ") (size " << S(c).obs.size() << ")\n");
        arm_bulk();
        S(c).t->swap_self();
        finish(1 << c, OC_OTHER);
    }

    // ----- operations found by the API audit (api mode only) ---------------------------------------------------------
    //! where the argument of a lookup / bound query lies relative to the contents
    void key_class(int c, int k, bool present) {
        if (!AP) return;
        const std::vector<KD>& o = S(c).obs;
        if (o.empty()) lab("key:container_empty");
        else if (present) lab("key:present");
        else if (less(c, k, o.front().first)) lab("key:below_minimum");
        else if (less(c, o.back().first, k)) lab("key:above_maximum");
        else lab("key:absent_inside");
    }
    void range_label(unsigned itk) {
        static const char* rl[5] = {"", "api:range_single_pass_input_iterator", "api:range_pointers", "api:range_list_iterators", "api:range_convertible_elements"};
        lab(rl[itk % 5]);
    }
    size_t count_equiv(int c, int k) {
        if (WM) return S(c).m->count(k);
        size_t cnt = 0;
        for (const KD& e : S(c).obs) cnt += equiv(c, e.first, k);
        return cnt;
    }

    //! btree_map::operator[] (read, write through the returned reference) and writes through iterators ((*it).second = d,
    //! it->second = d: iterator::reference is value_type&), as std::map / std::multimap allow
    void op_subscript(int c) {
        Slot& sl = S(c);
        if (!ci.is_map()) return op_lookup(c);
        unsigned v = (unsigned)src.index(3); // 0: m[k] = d   1: read m[k]   2: write through an iterator
        if (ci.kind != MAP) v = 2;           // btree_multimap has no operator[]
        const size_t n = sl.obs.size();
        if (v == 2) {
            if (n == 0) return op_insert(c, false);
            unsigned how = (unsigned)src.index(4); // 0 begin()+r  1 end()-(n-r)  2 find(k)  3 lower_bound(k)
            size_t r = src.index(n);
            const int k = sl.obs[r].first;
            const int d = fresh_datum();
            const bool arrow = src.boolean();
            opname = arrow ? "it->second = d" : "(*it).second = d";
            lab("op:write_through_iterator");
            PBT_LOG("#" << nsteps << " " << opname << " slot " << c << " iterator from " << how << " rank " << r << " key " << k << " d=" << d << "\n");
            Pos p;
            arm_key(3 + count_equiv(c, k), k);
            sl.t->locate(how, r, n, k, p, true);
            need_reachable(p, "iterator for a write", n);
            BT_CHECK(!p.is_end && p.rank < n, "iterator-position", "iterator to an existing element (rank " << r << ", key " << k << ") is end()");
            if (WM) BT_CHECK(p.value == sl.obs[p.rank], "iterator-position", "iterator at rank " << p.rank << " dereferences to " << show(p.value) << ", expected " << show(sl.obs[p.rank]));
            sl.t->write_cursor(d, arrow);
            if (WM) sl.m->write_rank(p.rank, d);
            recent_key = k;
            finish(1 << c, OC_OTHER);
            return;
        }
        int k = draw_key(c);
        if (n >= MAXSIZE) k = sl.obs[src.index(n)].first;
        const int d = fresh_datum();
        const int dflt = sl.t->default_datum();
        bool write = (v == 0);
        const bool present = count_equiv(c, k) > 0;
        // a default-constructed std::string datum decodes to the moved-from poison: never leave it in the container
        if (!present && dflt == kPoison) write = true;
        opname = write ? "m[k] = d" : "read m[k]";
        lab("op:subscript");
        lab(present ? "api:subscript_existing_key" : "api:subscript_inserts_default");
        if (!write) lab("api:subscript_read_only");
        PBT_LOG("#" << nsteps << " " << opname << " slot " << c << " k=" << k << " d=" << d << "\n");
        recent_key = k;
        int hb = sl.shape.height;
        int before = 0, after = 0, mbefore = 0, mafter = 0;
        bool same = true;
        arm_key(6, k);
        bool have = sl.t->subscript(k, write, d, before, after, same);
        BT_CHECK(have, "subscript", "internal: operator[] not available for this kind");
        if (WM) {
            sl.m->subscript(k, write, d, mbefore, mafter);
            if (!present) mbefore = dflt, mafter = write ? d : dflt; // (int() == 0 == the model's default; Tracked() holds 0 as well)
            BT_CHECK(before == mbefore, "subscript",
                     "m[" << k << "] referred to the datum " << before << ", std::map's refers to " << mbefore << (present ? " (existing key)" : " (new key: data_type())"));
            BT_CHECK(after == mafter && same, "subscript",
                     "a second m[" << k << "] gives " << after << (same ? "" : " in ANOTHER element") << ", std::map gives " << mafter << " in the same element");
        }
        if (!present) note_mutation(c, false, hb);
        finish(1 << c, present ? OC_OTHER : OC_INSERT);
    }

    //! conversions between the iterator flavours / std iterator algorithms at a drawn position (often next to a leaf border)
    void op_convert(int c) {
        Slot& sl = S(c);
        const size_t n = sl.obs.size();
        unsigned b = src.u8();
        size_t pos;
        const std::vector<int>& lf = sl.shape.leaf_fill;
        bool border = false;
        if ((b & 1) && lf.size() >= 2) { // first slot of a leaf, or one before / after it
            size_t li = 1 + src.index(lf.size() - 1), off = 0;
            for (size_t i = 0; i < li; ++i) off += (size_t)lf[i];
            pos = off + ((b >> 1) % 3) - 1;
            border = true;
        }
        else pos = src.index(n + 1);
        if (pos > n) pos = n;
        unsigned which = (unsigned)src.index(8);
        static const char* names[8] = {"const_iterator(iterator)",
                                       "const_reverse_iterator(reverse_iterator)",
                                       "reverse_iterator(iterator)",
                                       "const_reverse_iterator(iterator / const_iterator)",
                                       "iterator(reverse_iterator)",
                                       "const_iterator(reverse_iterator / const_reverse_iterator)",
                                       "std::distance / next / prev / advance / reverse_iterator<> on the iterators",
                                       "default-constructed, copied and assigned iterators"};
        static const char* labs[8] = {"api:convert_iterator_to_const",     "api:convert_reverse_to_const_reverse", "api:convert_iterator_to_reverse", "api:convert_to_const_reverse",
                                      "api:convert_reverse_to_iterator", "api:convert_reverse_to_const_iterator", "api:std_iterator_algorithms",     "api:default_and_copied_iterators"};
        opname = names[which];
        lab("op:iterator_conversion");
        PBT_LOG("#" << nsteps << " " << opname << " slot " << c << " position " << pos << " of " << n << "\n");
        arm_bulk();
        unsigned flags = 0;
        std::string msg = sl.t->convert(which, pos, n, flags);
        if (flags & 1) lab("api:convert_skipped_noncanonical_pair");
        else {
            lab(labs[which]);
            if (border) lab("api:convert_next_to_leaf_border");
        }
        if (WM) BT_CHECK(msg.empty(), "iterator-conversion", msg << " (" << n << " elements in " << lf.size() << " leaves)");
        finish(1 << c, OC_OTHER, nullptr, false);
    }

    //! key_comp() / value_comp() on drawn pairs, max_size(), get_allocator(), get_stats() on a container that was not just mutated
    void op_observers(int c) {
        Slot& sl = S(c);
        ITree& t = *sl.t;
        const int a = draw_key(c), b = draw_key(c);
        const int da = ci.is_map() ? (int)src.range(0, 3) : 0, db = ci.is_map() ? (int)src.range(0, 3) : 0;
        opname = "key_comp() / value_comp() / max_size() / get_allocator() / get_stats()";
        lab("op:observers");
        PBT_LOG("#" << nsteps << " " << opname << " slot " << c << " a=" << a << ":" << da << " b=" << b << ":" << db << "\n");
        arm_keys(8);
        const bool kl = t.less(a, b), kg = t.less(b, a);
        bool avail = false;
        const bool vl = t.value_less(KD(a, da), KD(b, db), avail), vg = avail ? t.value_less(KD(b, db), KD(a, da), avail) : false;
        lab(avail ? "api:value_comp" : "api:value_comp_not_callable_for_sets");
        if (WM) {
            IModel& m = *sl.m;
            BT_CHECK(kl == m.less(a, b) && kg == m.less(b, a), "comparator",
                     "key_comp()(" << a << "," << b << ") = " << kl << ", reversed " << kg << "; the std container's key_comp() gives " << m.less(a, b) << ", " << m.less(b, a));
            if (avail)
                BT_CHECK(vl == m.value_less(KD(a, da), KD(b, db)) && vg == m.value_less(KD(b, db), KD(a, da)), "comparator",
                         "value_comp()(" << a << ":" << da << ", " << b << ":" << db << ") = " << vl << ", reversed " << vg << "; the std container's value_comp() gives "
                                         << m.value_less(KD(a, da), KD(b, db)) << ", " << m.value_less(KD(b, db), KD(a, da)));
        }
        // stateless allocators: always equal; arena allocators (C02): equal exactly when the two containers share an arena
        BT_CHECK(t.alloc_equal(*S(1 - c).t) == (t.alloc_arena() == S(1 - c).t->alloc_arena()) && t.alloc_equal(t), "get-allocator",
                 "get_allocator() of the two containers compare " << t.alloc_equal(*S(1 - c).t) << " but they are arenas " << t.alloc_arena() << " and "
                                                                  << S(1 - c).t->alloc_arena());
        // (max_size(), get_stats() and the comparator state are compared by the full observation below)
        force_full = true;
        finish(1 << c, OC_OTHER);
        force_full = false;
    }

    //! insert(first,last) / bulk_load(first,last) / range constructors with other iterator types, empty ranges
    void op_range_types(int c) {
        Slot& sl = S(c);
        unsigned what = (unsigned)src.weighted({3, 2, 2});
        if (what == 1) return op_bulk_load(c, 1 + (unsigned)src.index(3));
        if (what == 2) return op_construct(c, true);
        if (sl.obs.size() >= MAXSIZE) return op_erase_sweep(c);
        unsigned itk = 1 + (unsigned)src.index(4);
        unsigned count = (unsigned)src.range(0, 24); // 0: empty range
        std::vector<KD> ks;
        if (count) draw_pattern(ks, count);
        opname = "insert(first,last) [other iterator type]";
        lab("op:insert_range");
        range_label(itk);
        if (!count) lab("api:range_empty");
        PBT_LOG("#" << nsteps << " " << opname << " slot " << c << " iterator kind " << itk << " " << show(ks, ci.is_map()) << "\n");
        int hb = sl.shape.height;
        arm_keys(ks.size() + 1);
        sl.t->insert_range_it(ks, itk);
        if (WM) sl.m->insert_range(ks);
        if (count) recent_key = ks.back().first;
        if (count) note_mutation(c, false, hb);
        finish(1 << c, OC_INSERT);
    }

    //! rvalue arguments: Tree(std::move(x)), x = std::move(y) (tlx declares no move members: both copy), and the generic
    //! std::swap(x, y) (tlx provides no overload). The destination must hold the former contents of the source; the source is left
    //! "valid but unspecified": whatever it holds is adopted by the model, and has to pass every check of the following steps.
    void op_rvalue(int c) {
        unsigned v = (unsigned)src.index(3);
        int j = (int)src.index(2);
        arm_bulk(s0.obs.size() + s1.obs.size());
        if (v == 2) {
            opname = "std::swap(a, b)";
            lab("op:std_swap");
            PBT_LOG("#" << nsteps << " std::swap(slot0, slot1) (sizes " << s0.obs.size() << ", " << s1.obs.size() << ")\n");
            s0.t->std_swap(*s1.t);
            if (WM) s0.m->swap(*s1.m);
            std::swap(s0.bulk_pending, s1.bulk_pending);
            finish(3, OC_OTHER);
            return;
        }
        if (v == 1 && j == c) j = 1 - c; // (self-move-assignment is not generated)
        opname = v == 0 ? "Tree(std::move(x))" : "x = std::move(y)";
        lab(v == 0 ? "op:move_construct" : "op:move_assign");
        PBT_LOG("#" << nsteps << " slot " << j << (v == 0 ? " = new Tree(std::move(slot " : " = std::move(slot ") << c << ") (size " << S(c).obs.size() << ")\n");
        std::unique_ptr<IModel> expect;
        if (WM) expect.reset(S(c).m->clone());
        if (v == 0) {
            std::unique_ptr<ITree> n(S(c).t->move_clone());
            if (j != c && WM) { // the source lives on: adopt what it holds now
                observe(c);
                S(c).m->clear();
                S(c).m->append(S(c).obs);
            }
            S(j).t = std::move(n); // destroys the previous container of slot j (j == c: the moved-from source)
        }
        else {
            S(j).t->move_assign(*S(c).t);
            if (WM) {
                observe(c);
                S(c).m->clear();
                S(c).m->append(S(c).obs);
            }
        }
        if (WM) S(j).m = std::move(expect);
        S(j).bulk_pending = false;
        finish(3, OC_OTHER);
    }

    void op_relops() {
        int i = (int)src.index(2), j = (int)src.index(2);
        opname = "relational operators";
        lab("op:relops");
        bool r[6];
        arm_bulk();
        S(i).t->relops(*S(j).t, r);
        PBT_LOG("#" << nsteps << " relops slot " << i << " vs slot " << j << ": == " << r[0] << " < " << r[2] << "\n");
        if (WM) {
            const std::vector<KD>&x = S(i).obs, &y = S(j).obs;
            bool eq = (x == y);
            bool lt = std::lexicographical_compare(x.begin(), x.end(), y.begin(), y.end());
            bool gt = std::lexicographical_compare(y.begin(), y.end(), x.begin(), x.end());
            bool e[6] = {eq, !eq, lt, gt, !gt, !lt};
            bool ms[6];
            S(i).m->relops(*S(j).m, ms);
            static const char* on[6] = {"==", "!=", "<", ">", "<=", ">="};
            for (int q = 0; q < 6; ++q) {
                BT_CHECK(r[q] == e[q] && r[q] == ms[q], "relational",
                         "slot" << i << " " << on[q] << " slot" << j << " = " << r[q] << " but the std containers give " << ms[q] << " (the element sequences give "
                                << e[q] << ")\n  a: " << show(x, ci.is_map()) << "\n  b: " << show(y, ci.is_map()));
            }
            if (eq && i != j && !x.empty()) minor("relops_equal_nonempty");
            if (!eq) minor("relops_different");
        }
        finish(3, OC_OTHER, nullptr, false);
    }

    void end_of_history() {
        opname = "end of history";
        nsteps |= 3; // both slots, full comparison
        force_full = true;
        finish(0, OC_OTHER);
        force_full = false;
        if (!INV) return;
        // the containers die in one of three ways; afterwards nothing may be left behind
        PBT_LOG("end: " << (endmode == 0 ? "destroy" : endmode == 1 ? "clear() then reuse, then destroy" : "swap contents out, then destroy") << "\n");
        if (endmode == 1) {
            lab("end:clear_reuse");
            op_clear(0);
            std::vector<KD> ks;
            draw_pattern(ks, 9);
            arm_keys(ks.size());
            s0.t->insert_range(ks);
            opname = "reuse after clear()";
            finish(1, OC_INSERT);
        }
        else if (endmode == 2) {
            lab("end:swap_out");
            std::unique_ptr<ITree> x(cfg.create(shift, desc));
            x->swap(*s0.t);
            s0.t.swap(x); // slot 0 owns the contents again (now inside the other object); x is the emptied one
            x.reset();
            opname = "swap contents out";
            finish(1, OC_OTHER);
        }
        else lab("end:destroy");
        s0.t.reset();
        s1.t.reset();
        opname = "after destruction";
        if (ci.counting) {
            AllocLedger& al = AllocLedger::get();
            if (al.frees > 0) lab("nodes_freed");
            BT_CHECK(al.live_count() == 0 && al.allocs == al.frees, "leak-nodes",
                     al.live_count() << " node(s) still allocated after all containers died (allocations " << al.allocs << ", frees " << al.frees << ")");
        }
        if (ci.tracked) {
            Ledger& lg = Ledger::get();
            BT_CHECK(lg.live_count() == 0 && lg.constructed == lg.destroyed, "leak-elements",
                     lg.live_count() << " element(s) still alive after all containers died (constructed " << lg.constructed << ", destroyed " << lg.destroyed << ")");
        }
    }

public:
    History(pbt::Source& s, const ConfigEntry& e, bool model, bool scale = false, bool alias = false, bool api = false)
        : src(s), cfg(e), ci(e.info), WM(model), INV(!model), SC(scale), AL(alias), AP(api), prefix(model ? "C01" : "C02") {
        g_runaway.prefix = prefix;
        g_runaway.describe = &History::describe_for_runaway;
        g_runaway.self = this;
        cmp_budget() = CmpBudget();
    }
    ~History() {
        g_runaway.self = nullptr;
        cmp_budget().limit = cmp_budget().alloc_limit = ~0ull;
    }

    // ----- scale mode: fill the big nodes first, then a modest, cost-bounded history ---------------------------
    static constexpr long NBMAX = 270000; // hard bound on the elements of one fill (65536 leaves of 4 slots and a bit)

    //! first fill of slot 0: bulk_load / insert(first,last) of an ascending range / range constructor
    void scale_fill(unsigned method) {
        const long cap = std::max(ci.leaf, ci.inner);
        // element-by-element fills cost one in-node search per element: with the linear strategy that is O(n * slots)
        if (method != 0 && !ci.binary && cap > 2000) method = 0;
        if (method == 0) {
            lab("scale:fill_by_bulk_load");
            op_bulk_load(0);
            return;
        }
        Slot& sl = S(0);
        long n = draw_scale_n(true);
        std::vector<KD> ks;
        sorted_keys(0, n, sc_rep, stride, ks);
        if (method == 1) {
            opname = "insert(first,last) of an ascending range";
            lab("scale:fill_by_ascending_inserts");
            PBT_LOG("#" << nsteps << " " << opname << " slot 0 n=" << n << " " << show(ks, ci.is_map()) << "\n");
            arm_keys(ks.size());
            sl.t->insert_range(ks);
            if (WM) sl.m->append(ks);
        }
        else {
            opname = "Tree(first,last,cmp) of an ascending range";
            lab("scale:fill_by_range_constructor");
            PBT_LOG("#" << nsteps << " " << opname << " slot 0 n=" << n << " " << show(ks, ci.is_map()) << "\n");
            arm_keys(ks.size());
            std::unique_ptr<ITree> t(sl.t->make(4, ks, shift, desc));
            sl.t = std::move(t);
            if (WM) sl.m->append(ks);
        }
        if (!ks.empty()) recent_key = ks[ks.size() / 2].first;
        finish(1, OC_INSERT);
    }

    void run_scale() {
        const long L = ci.leaf, I = ci.inner;
        unsigned cs = (unsigned)src.index(6);
        shift = ci.stateful() ? cs % 3 : 0;
        desc = ci.stateful() ? (cs / 3) != 0 : false;
        stride = 1 + (unsigned)src.index(3);
        sc_rep = ci.multi() ? (unsigned)src.index(4) : 0;
        unsigned method = (unsigned)src.weighted({5, 2, 1});
        profile = (unsigned)src.index(3);
        // which node kind do the fill sizes aim at? an inner node of I slots is half full with (I/2+1) leaves
        const bool leaf_big = L >= 200, inner_ok = I >= 200 && (I / 2 + 1) * L <= NBMAX;
        inner_dim = inner_ok && (!leaf_big || src.boolean());
        NB = inner_dim ? std::min(NBMAX, (2 * I + 3) * L) : std::min(NBMAX, 2 * L + 2);
        MAXSIZE = (size_t)NB + 64;
        MAXOPS = 64;
        MAXSTEPS = 160;
        COSTMAX = 2000000ul + 10ul * (unsigned long)NB; // a handful of fully compared steps on the largest fill, dozens of queries
        lab(inner_dim ? "scale:aim_at_inner_node" : "scale:aim_at_leaf");
        if (shift) lab("coarse_equivalence");
        if (ci.stateful() && desc) lab("descending_state");
        PBT_LOG("scale config " << ci.name << " shift=" << shift << " desc=" << desc << " stride=" << stride << " rep=" << sc_rep << " fill method=" << method
                                << " aim=" << (inner_dim ? "inner" : "leaf") << " profile=" << profile << "\n");
        for (int c = 0; c < 2; ++c) {
            S(c).t.reset(cfg.create(shift, desc));
            if (WM) S(c).m.reset(model_factory()(ci.kind, ci.cmp, shift, desc));
        }
        opname = "construct";
        force_full = true;
        finish(3, OC_OTHER);
        force_full = false;
        scale_fill(method);

        // weights: insert, erase_one, erase_iter, insert_range, erase_sweep, erase_key, insert_hint, lookup, bounds, walk,
        //          bulk_load, copy, assign, swap, construct, clear, relops
        static const unsigned W[3][17] = {
            {10, 6, 6, 3, 3, 3, 3, 40, 50, 8, 1, 1, 1, 1, 0, 0, 2},  // queries (cheap steps: many of them fit the cost bound)
            {16, 14, 14, 6, 8, 6, 6, 14, 18, 4, 2, 2, 2, 2, 1, 1, 2}, // mutations around the node boundaries
            {8, 6, 6, 3, 3, 2, 2, 12, 14, 4, 6, 8, 8, 6, 2, 2, 6},    // whole-container operations on big nodes
        };
        const unsigned* w = W[profile];
        while (nops < MAXOPS && nsteps < MAXSTEPS && cost <= COSTMAX) {
            if (src.exhausted()) break;
            unsigned mb = src.u8();
            if (mb == 0) break;
            int c = (mb & 0xC0) == 0xC0 ? 1 : 0;
            size_t op = src.weighted({w[0], w[1], w[2], w[3], w[4], w[5], w[6], w[7], w[8], w[9], w[10], w[11], w[12], w[13], w[14], w[15], w[16]});
            sep_changed_prev = sep_changed;
            ++nops;
            dispatch(op, c);
            // queries are not re-observed in scale mode, but walking to the returned position costs O(rank)
            cost += S(c).obs.size() / 2 + 64;
        }
        end_of_history();
    }

    void dispatch(size_t op, int c) {
        switch (op) {
        case 0: op_insert(c, false); break;
        case 1: op_erase_one(c); break;
        case 2: op_erase_iter(c); break;
        case 3: op_insert_range(c); break;
        case 4: op_erase_sweep(c); break;
        case 5: op_erase_key(c); break;
        case 6: op_insert(c, true); break;
        case 7: op_lookup(c); break;
        case 8: op_bounds(c); break;
        case 9: op_walk(c); break;
        case 10: op_bulk_load(c); break;
        case 11: op_copy(c); break;
        case 12: op_assign(c); break;
        case 13: op_swap(); break;
        case 14: op_construct(c); break;
        case 15: op_clear(c); break;
        case 16: op_relops(); break;
        case 17: op_insert_alias(c); break;
        case 18: op_erase_alias(c); break;
        case 19: op_query_alias(c); break;
        case 20: op_swap_self(c); break;
        case 21: op_subscript(c); break;
        case 22: op_convert(c); break;
        case 23: op_observers(c); break;
        case 24: op_range_types(c); break;
        case 25: op_rvalue(c); break;
        default: op_relops(); break;
        }
    }

    // ----- alias mode: the ordinary history (all operations of the main target, now on element types with a destructive
    // move) interleaved with the aliasing operations ---------------------------------------------------------------
    void run_alias() {
        static const int UT[16] = {8, 3, 24, 64, 1, 12, 2, 32, 6, 96, 4, 16, 48, 128, 256, 5};
        U = UT[src.index(16)];
        unsigned cs = (unsigned)src.index(6);
        shift = ci.stateful() ? cs % 3 : 0;
        desc = ci.stateful() ? (cs / 3) != 0 : false;
        profile = (unsigned)src.index(4);
        endmode = (unsigned)src.index(3);
        if (U <= 4) lab("universe<=4");
        if (U >= 128) lab("universe>=128");
        if (shift) lab("coarse_equivalence");
        if (ci.stateful() && desc) lab("descending_state");
        PBT_LOG("alias config " << ci.name << " U=" << U << " shift=" << shift << " desc=" << desc << " profile=" << profile << "\n");
        for (int c = 0; c < 2; ++c) {
            S(c).t.reset(cfg.create(shift, desc));
            if (WM) S(c).m.reset(model_factory()(ci.kind, ci.cmp, shift, desc));
        }
        opname = "construct";
        finish(3, OC_OTHER);
        // weights: insert, erase_one, erase_iter, insert_range, erase_sweep, erase_key, insert_hint, lookup, bounds, walk,
        //          bulk_load, copy, assign, swap, construct, clear, relops | insert_alias, erase_alias, query_alias, swap_self
        static const unsigned W[4][21] = {
            {30, 12, 12, 10, 8, 5, 6, 6, 6, 4, 5, 4, 5, 4, 3, 2, 3, 40, 16, 8, 3},      // balanced, a third aliasing
            {30, 4, 4, 16, 3, 2, 6, 4, 4, 2, 4, 3, 3, 3, 1, 1, 2, 70, 6, 6, 2},         // growing mostly through its own elements
            {16, 20, 24, 10, 20, 8, 3, 6, 8, 4, 5, 3, 3, 3, 2, 2, 3, 24, 40, 8, 2},      // draining mostly through its own keys
            {14, 8, 8, 10, 6, 3, 3, 6, 6, 4, 12, 18, 20, 16, 10, 6, 12, 20, 8, 6, 16},  // whole-container operations, self-assign / self-swap
        };
        const unsigned* w = W[profile];
        while (nops < MAXOPS && nsteps < MAXSTEPS) {
            if (src.exhausted()) break;
            unsigned mb = src.u8();
            if (mb == 0) break;
            int c = (mb & 0xC0) == 0xC0 ? 1 : 0;
            size_t op = src.weighted({w[0], w[1], w[2], w[3], w[4], w[5], w[6], w[7], w[8], w[9], w[10], w[11], w[12], w[13], w[14], w[15], w[16], w[17], w[18],
                                      w[19], w[20]});
            sep_changed_prev = sep_changed;
            ++nops;
            dispatch(op, c);
        }
        end_of_history();
    }

    // ----- api mode: the complete operation set of the main and alias targets plus the public members found by the API audit ---
    void run_api() {
        static const int UT[16] = {8, 3, 24, 64, 1, 12, 2, 32, 6, 96, 4, 16, 48, 128, 256, 5};
        U = UT[src.index(16)];
        unsigned cs = (unsigned)src.index(6);
        shift = ci.stateful() ? cs % 3 : 0;
        desc = ci.stateful() ? (cs / 3) != 0 : false;
        profile = (unsigned)src.index(4);
        endmode = (unsigned)src.index(3);
        PBT_LOG("api config " << ci.name << " U=" << U << " shift=" << shift << " desc=" << desc << " profile=" << profile << "\n");
        for (int c = 0; c < 2; ++c) {
            S(c).t.reset(cfg.create(shift, desc));
            if (WM) S(c).m.reset(model_factory()(ci.kind, ci.cmp, shift, desc));
        }
        opname = "construct";
        finish(3, OC_OTHER);
        // weights: insert, erase_one, erase_iter, insert_range, erase_sweep, erase_key, insert_hint, lookup, bounds, walk,
        //          bulk_load, copy, assign, swap, construct, clear, relops | insert_alias, erase_alias, query_alias, swap_self |
        //          subscript / write through iterator, iterator conversions, observers, ranges of other iterator types, rvalues / std::swap
        static const unsigned W[4][26] = {
            {30, 12, 12, 8, 8, 5, 6, 8, 8, 6, 5, 4, 4, 4, 3, 2, 4, 6, 4, 3, 2, 14, 14, 8, 12, 8},       // balanced
            {40, 6, 6, 10, 4, 3, 8, 6, 6, 4, 6, 3, 3, 3, 3, 1, 2, 4, 2, 2, 1, 24, 8, 4, 24, 4},         // growing through operator[] and ranges
            {16, 16, 16, 6, 12, 6, 3, 24, 28, 16, 4, 3, 3, 3, 2, 2, 4, 3, 3, 3, 1, 8, 40, 12, 6, 4},    // queries and iterators
            {14, 8, 8, 6, 6, 3, 3, 6, 6, 4, 10, 10, 10, 8, 10, 5, 10, 3, 2, 2, 4, 8, 8, 16, 16, 30},    // whole-container: constructors, moves, observers
        };
        const unsigned* w = W[profile];
        while (nops < MAXOPS && nsteps < MAXSTEPS) {
            if (src.exhausted()) break;
            unsigned mb = src.u8();
            if (mb == 0) break;
            int c = (mb & 0xC0) == 0xC0 ? 1 : 0;
            size_t op = src.weighted({w[0],  w[1],  w[2],  w[3],  w[4],  w[5],  w[6],  w[7],  w[8],  w[9],  w[10], w[11], w[12],
                                      w[13], w[14], w[15], w[16], w[17], w[18], w[19], w[20], w[21], w[22], w[23], w[24], w[25]});
            sep_changed_prev = sep_changed;
            ++nops;
            dispatch(op, c);
        }
        end_of_history();
    }

    void run() {
        if (SC) return run_scale();
        if (AP) return run_api();
        if (AL) return run_alias();
        // header: universe, comparator state, operation profile, way to die (the configuration id was drawn by the caller)
        // (ordered so that the small byte values favoured by the driver already give very different universes)
        static const int UT[16] = {8, 64, 3, 24, 1, 256, 12, 96, 2, 32, 6, 128, 4, 16, 48, 512};
        U = UT[src.index(16)];
        unsigned cs = (unsigned)src.index(6);
        shift = ci.stateful() ? cs % 3 : 0;
        desc = ci.stateful() ? (cs / 3) != 0 : false;
        profile = (unsigned)src.index(5);
        endmode = (unsigned)src.index(3);
        if (U <= 4) lab("universe<=4");
        if (U >= 128) lab("universe>=128");
        if (shift) lab("coarse_equivalence");
        if (ci.stateful() && desc) lab("descending_state");
        PBT_LOG("config " << ci.name << " U=" << U << " shift=" << shift << " desc=" << desc << " profile=" << profile << "\n");
        for (int c = 0; c < 2; ++c) {
            S(c).t.reset(cfg.create(shift, desc));
            if (WM) S(c).m.reset(model_factory()(ci.kind, ci.cmp, shift, desc));
        }
        opname = "construct";
        finish(3, OC_OTHER);

        // weights: insert, erase_one, erase_iter, insert_range, erase_sweep, erase_key, insert_hint, lookup, bounds, walk,
        //          bulk_load, copy, assign, swap, construct, clear, relops
        static const unsigned W[5][17] = {
            {40, 22, 22, 14, 12, 8, 8, 12, 14, 10, 8, 5, 5, 5, 4, 3, 6},   // balanced
            {60, 10, 10, 40, 6, 4, 10, 8, 10, 6, 6, 4, 4, 4, 2, 1, 4},     // growing
            {24, 34, 34, 16, 30, 12, 4, 8, 12, 6, 6, 3, 3, 3, 2, 2, 4},    // draining
            {24, 12, 12, 10, 6, 4, 4, 40, 50, 30, 6, 3, 3, 3, 2, 1, 8},    // queries
            {20, 10, 10, 14, 8, 4, 4, 8, 8, 6, 14, 22, 22, 22, 14, 8, 18}, // whole-container operations
        };
        const unsigned* w = W[profile];
        while (nops < MAXOPS && nsteps < MAXSTEPS) {
            if (src.exhausted()) break;
            unsigned mb = src.u8();
            if (mb == 0) break;
            int c = (mb & 0xC0) == 0xC0 ? 1 : 0;
            size_t op = src.weighted({w[0], w[1], w[2], w[3], w[4], w[5], w[6], w[7], w[8], w[9], w[10], w[11], w[12], w[13], w[14], w[15], w[16]});
            sep_changed_prev = sep_changed;
            ++nops;
            dispatch(op, c);
        }
        end_of_history();
    }
#undef BT_CHECK
};

const char* cap_class(int L, int I) {
    if (L >= 16 || I >= 16) return "cap:large";
    if (L != I) return "cap:asymmetric";
    if (L % 2) return "cap:odd";
    return L == 4 ? "cap:4x4" : "cap:even";
}

} // namespace

void run_property(pbt::Source& src, bool model) {
    std::vector<ConfigEntry>& t = config_table();
    static bool sorted = false;
    if (!sorted) { // static-initialisation order of the cfg TUs must not matter
        std::sort(t.begin(), t.end(), [](const ConfigEntry& a, const ConfigEntry& b) { return a.info.id < b.info.id; });
        sorted = true;
    }
    Ledger::get().reset();
    AllocLedger::get().reset();
    tlx::set_die_with_exception(true);
    // configuration = permuted first byte modulo table size: byte 0 is still entry 0 (simplest), but the small byte
    // values the driver's generator favours are spread over the whole table instead of hitting its first entries
    unsigned b = src.u8();
    const ConfigEntry& e = t[((b * 37u) & 255u) % t.size()];
    static const char* kl[4] = {"kind:set", "kind:multiset", "kind:map", "kind:multimap"};
    static const char* cl[3] = {"cmp:less", "cmp:greater", "cmp:stateful"};
    pbt::label(kl[e.info.kind]);
    pbt::label(cl[e.info.cmp]);
    pbt::label(e.info.binary ? "search:binary" : "search:linear");
    pbt::label(cap_class(e.info.leaf, e.info.inner));
    if (e.info.tracked) pbt::label("elem:Tracked");
    if (e.info.raw) pbt::label("api:BTree_base_class");
    History h(src, e, model);
    h.run();
}

void run_alias_property(pbt::Source& src, bool model) {
    std::vector<ConfigEntry>& t = alias_table();
    static bool sorted = false;
    if (!sorted) {
        std::sort(t.begin(), t.end(), [](const ConfigEntry& a, const ConfigEntry& b) { return a.info.id < b.info.id; });
        sorted = true;
    }
    if (t.empty()) {
        pbt::inconclusive();
        return;
    }
    Ledger::get().reset();
    AllocLedger::get().reset();
    tlx::set_die_with_exception(true);
    unsigned b = src.u8();
    const ConfigEntry& e = t[((b * 37u) & 255u) % t.size()];
    static const char* kl[4] = {"kind:set", "kind:multiset", "kind:map", "kind:multimap"};
    static const char* cl[3] = {"cmp:less", "cmp:greater", "cmp:stateful"};
    pbt::label(kl[e.info.kind]);
    pbt::label(cl[e.info.cmp]);
    pbt::label(e.info.binary ? "search:binary" : "search:linear");
    pbt::label(cap_class(e.info.leaf, e.info.inner));
    {
        static std::map<std::string, std::string> names; // label strings must outlive the case
        std::string& l = names[e.info.elem];
        if (l.empty()) l = std::string("elem:") + e.info.elem;
        pbt::label(l.c_str());
    }
    if (e.info.raw) pbt::label("api:BTree_base_class");
    History h(src, e, model, false, true);
    h.run();
}

//! targets btree_api (C01) / btree_api_invariants (C02): configurations = the main table followed by the alias table
void run_api_property(pbt::Source& src, bool model) {
    static std::vector<ConfigEntry> t;
    if (t.empty()) {
        std::vector<ConfigEntry> a = config_table(), b = alias_table();
        auto by_id = [](const ConfigEntry& x, const ConfigEntry& y) { return x.info.id < y.info.id; };
        std::sort(a.begin(), a.end(), by_id);
        std::sort(b.begin(), b.end(), by_id);
        t = a;
        t.insert(t.end(), b.begin(), b.end());
    }
    if (t.empty()) {
        pbt::inconclusive();
        return;
    }
    Ledger::get().reset();
    AllocLedger::get().reset();
    tlx::set_die_with_exception(true);
    unsigned b = src.u8();
    const ConfigEntry& e = t[((b * 37u) & 255u) % t.size()];
    static const char* kl[4] = {"kind:set", "kind:multiset", "kind:map", "kind:multimap"};
    pbt::label(kl[e.info.kind]);
    {
        static std::map<std::string, std::string> names; // label strings must outlive the case
        std::string& l = names[e.info.elem];
        if (l.empty()) l = std::string("elem:") + e.info.elem;
        pbt::label(l.c_str());
    }
    if (e.info.raw) pbt::label("api:BTree_base_class");
    History h(src, e, model, false, true, true);
    h.run();
}

static const char* scale_cap_class(int L, int I, bool leaf) {
    int c = leaf ? L : I;
    if (c > 32768) return leaf ? "cap:leaf>32768" : "cap:inner>32768";
    if (c >= 1000) return leaf ? "cap:leaf>=1000" : "cap:inner>=1000";
    if (c >= 255) return leaf ? "cap:leaf>=255" : "cap:inner>=255";
    return leaf ? "cap:leaf_small" : "cap:inner_small";
}

void run_scale_property(pbt::Source& src) {
    std::vector<ConfigEntry>& t = scale_table();
    static bool sorted = false;
    if (!sorted) {
        std::sort(t.begin(), t.end(), [](const ConfigEntry& a, const ConfigEntry& b) { return a.info.id < b.info.id; });
        sorted = true;
    }
    if (t.empty()) {
        pbt::inconclusive();
        return;
    }
    Ledger::get().reset();
    AllocLedger::get().reset();
    tlx::set_die_with_exception(true);
    unsigned b = src.u8();
    const ConfigEntry& e = t[((b * 37u) & 255u) % t.size()];
    static const char* kl[4] = {"kind:set", "kind:multiset", "kind:map", "kind:multimap"};
    static const char* cl[3] = {"cmp:less", "cmp:greater", "cmp:stateful"};
    pbt::label(kl[e.info.kind]);
    pbt::label(cl[e.info.cmp]);
    pbt::label(e.info.binary ? "search:binary" : "search:linear");
    pbt::label(scale_cap_class(e.info.leaf, e.info.inner, true));
    pbt::label(scale_cap_class(e.info.leaf, e.info.inner, false));
    History h(src, e, true, true);
    h.run();
}

} // namespace bt
} // namespace verif
