// C03 — UCharStringSet (unsigned char* strings) and the char** / unsigned char** / vector front-ends.
#include "C03_rep_char.hpp"

namespace c03 {
namespace {

typedef CharRep<unsigned char, false> URep;

template <>
bool URep::call_front(const Case& c, uint32_t* lcp, size_t mem) {
    size_t n = arr.size();
    bool dflt = (mem == 0 && (c.mem_rsel & 1)); // use the defaulted memory argument
    switch (c.front % 4) {
    case 0:
        C03_FRONT(arr.data(), n);
        break;
    case 1: {
        char** p = reinterpret_cast<char**>(arr.data());
        C03_FRONT(p, n);
        break;
    }
    case 2: {
        std::vector<char*> v(n);
        for (size_t i = 0; i < n; ++i) v[i] = reinterpret_cast<char*>(arr[i]);
        C03_FRONT(v);
        PBT_CHECK(v.size() == n, "C03/permutation", "vector<char*> front-end changed the vector size");
        for (size_t i = 0; i < n; ++i) arr[i] = reinterpret_cast<unsigned char*>(v[i]);
        break;
    }
    default:
        C03_FRONT(arr);
        PBT_CHECK(arr.size() == n, "C03/permutation", "vector<unsigned char*> front-end changed the vector size");
        break;
    }
    return true;
}

} // namespace

C03_DEFINE_RUN(run_uchar, URep)

} // namespace c03
