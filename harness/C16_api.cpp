// C16 (part 5) — API COMPLETENESS of tlx::RingBuffer / tlx::SimpleVector (target ring_api here; targets simplevec_api,
// simplevec_modes in C16_api_vec.cpp, a separate translation unit only to keep the parallel build short).  The other C16 targets drive the core operations; this file calls every remaining public entry
// point / overload / value category / observer / template-argument combination side by side with the headers and
// OBSERVES each result.  Same exact oracles: std::deque / std::vector model, verif::Tracked ledger (alive iff stored),
// allocator ledger (one storage block per allocated buffer; a block goes back through an allocator equal to the one it
// came from).
//
// ring_api (RingBuffer):
//   * configurations: stateful allocator (every default-constructed allocator is its own arena), the DEFAULT template
//     argument std::allocator, a MOVE-ONLY element type, int with std::allocator;
//   * constructors RingBuffer(), RingBuffer(alloc), RingBuffer(n), RingBuffer(n, alloc), copy, move; the storage of a
//     buffer built with an allocator argument comes from that allocator;
//   * capacity(): documented in the class comment — "rounded up to the next power of two, even for powers of two";
//   * push/emplace forms: const&, non-const lvalue, &&, emplace(v), emplace() WITHOUT arguments (value-initialised
//     element), emplace(const lvalue), emplace(non-const lvalue), emplace(converted arithmetic argument), push(v) with an
//     implicit conversion;
//   * operator= (copy and move) returns *this (also for self-assignment); chained assignment a = b = c;
//   * an UNALLOCATED buffer (default constructed, moved-from, deallocated) as the SOURCE of copy/move construction and
//     assignment, and size() == 0 / empty() of unallocated buffers; std::swap of two buffers (allocated or not);
//   * copy_to / move_to APPEND to a caller vector that already holds elements, twice into the same vector;
//   * the cereal hooks save() / load() with a minimal archive functor: load into a buffer with elements, into an
//     unallocated one, into the saved buffer itself;
//   * std::vector<RingBuffer> (relocation through the noexcept move constructor, emplace_back(n), vector(n, rb)).
// simplevec_api (SimpleVector, default mode): the alias tlx::simple_vector<T>, a move-only element type and a nested
//   SimpleVector<SimpleVector<..>>-like element; begin/end/cbegin/cend/data const and non-const as ITERATORS (identity
//   of all of them with data(), range-for reading and writing, reverse iterators, std::algorithms), address identity
//   of front/back/[]/at const and non-const with data() + i, operator=(&&) returns *this, swap with a temporary,
//   SimpleVector(const size_type&) from lvalues, std::vector<SimpleVector> relocation, type traits (non-copyable,
//   nothrow movable, member typedefs).
// simplevec_modes: the two NO-INIT modes with a non-trivial element type, asserting only what the enum documents:
//   NoInitButDestroy  "Do not initialize objects at allocation, but destroy on deallocation. Thus, all objects must
//                      be constructed from outside."
//   NoInitNoDestroy   "Do not initialize objects at allocation and do not destroy them."
#include "../engine/pbt.hpp"
#include "../engine/tracked.hpp"

#include <algorithm>
#include <cstdint>
#include <deque>
#include <iterator>
#include <memory>
#include <new>
#include <string>
#include <type_traits>
#include <utility>
#include <vector>

#include <tlx/container/ring_buffer.hpp>

namespace {

using verif::Tracked;

//! move-only element: owns a Tracked, cannot be copied
struct MoveOnly {
    Tracked t;
    MoveOnly() {}
    MoveOnly(int v) : t(v) {} // NOLINT implicit
    MoveOnly(MoveOnly&&) = default;
    MoveOnly& operator=(MoveOnly&&) = default;
    MoveOnly(const MoveOnly&) = delete;
    MoveOnly& operator=(const MoveOnly&) = delete;
};

inline int val(const Tracked& t) { return t.value(); }
inline int val(const MoveOnly& m) { return m.t.value(); }
inline int val(int x) { return x; }

//! CountingAllocator tolerating deallocate(nullptr, n) (see C16_ring.cpp)
template <class T>
struct CountA : verif::CountingAllocator<T> {
    template <class U>
    struct rebind {
        typedef CountA<U> other;
    };
    CountA() noexcept {}
    template <class U>
    CountA(const CountA<U>&) noexcept {}
    void deallocate(T* p, std::size_t n) noexcept {
        if (p == nullptr) return;
        verif::CountingAllocator<T>::deallocate(p, n);
    }
};
//! STATEFUL allocator (every default-constructed instance is its own arena; copies keep the arena; a block must go
//! back through an allocator of its arena), tolerating deallocate(nullptr, n)
template <class T>
struct ArenaA : verif::ArenaAllocator<T> {
    template <class U>
    struct rebind {
        typedef ArenaA<U> other;
    };
    ArenaA() noexcept {}
    template <class U>
    ArenaA(const ArenaA<U>& o) noexcept : verif::ArenaAllocator<T>(o) {}
    void deallocate(T* p, std::size_t n) noexcept {
        if (p == nullptr) return;
        verif::ArenaAllocator<T>::deallocate(p, n);
    }
};
template <class A>
inline int arena_of(const A&) { return 0; }
template <class T>
inline int arena_of(const ArenaA<T>& a) { return a.arena; }

size_t blocks_in_arena(int arena) {
    verif::AllocLedger& l = verif::AllocLedger::get();
    std::lock_guard<std::mutex> g(l.m);
    size_t n = 0;
    for (auto& kv : l.arena_of)
        if (kv.second == arena) ++n;
    return n;
}

struct CfgArena {
    typedef Tracked T;
    typedef ArenaA<Tracked> A;
    typedef tlx::RingBuffer<T, A> RB;
    static constexpr bool copyable = true, blocks = true, arena = true, tracked = true;
};
struct CfgStd {
    typedef Tracked T;
    typedef std::allocator<Tracked> A;
    typedef tlx::RingBuffer<Tracked> RB; // the default template argument
    static constexpr bool copyable = true, blocks = false, arena = false, tracked = true;
};
struct CfgMoveOnly {
    typedef MoveOnly T;
    typedef CountA<MoveOnly> A;
    typedef tlx::RingBuffer<T, A> RB;
    static constexpr bool copyable = false, blocks = true, arena = false, tracked = true;
};
struct CfgInt {
    typedef int T;
    typedef std::allocator<int> A;
    typedef tlx::RingBuffer<int> RB;
    static constexpr bool copyable = true, blocks = false, arena = false, tracked = false;
};

//! minimal cereal-style archives: a functor taking any number of lvalues, processed left to right
template <class T>
struct ArOut {
    std::vector<std::pair<char, long long>> rec;
    void put(const unsigned long& x) { rec.emplace_back('z', (long long)x); }
    void put(const unsigned int& x) { rec.emplace_back('u', (long long)x); }
    void put(const T& x) { rec.emplace_back('e', (long long)val(x)); }
    template <class... X>
    void operator()(X&&... x) {
        int d[] = {0, (put(x), 0)...};
        (void)d;
    }
};
template <class T>
struct ArIn {
    const std::vector<std::pair<char, long long>>& rec;
    size_t pos = 0;
    bool bad = false;
    explicit ArIn(const std::vector<std::pair<char, long long>>& r) : rec(r) {}
    long long next(char kind) {
        if (pos >= rec.size() || rec[pos].first != kind) {
            bad = true;
            return 0;
        }
        return rec[pos++].second;
    }
    void get(unsigned long& x) { x = (unsigned long)next('z'); }
    void get(unsigned int& x) { x = (unsigned int)next('u'); }
    void get(T& x) { x = T((int)next('e')); }
    template <class... X>
    void operator()(X&&... x) {
        int d[] = {0, (get(x), 0)...};
        (void)d;
    }
};

struct AModel {
    bool exists = false, alloc = false;
    size_t max = 0;
    std::deque<int> dq;
};

std::string show(const std::deque<int>& d) {
    std::ostringstream os;
    os << "[";
    for (size_t i = 0; i < d.size(); ++i) os << (i ? "," : "") << d[i];
    os << "]";
    return os.str();
}
std::string show(const std::vector<int>& d) {
    std::ostringstream os;
    os << "[";
    for (size_t i = 0; i < d.size(); ++i) os << (i ? "," : "") << d[i];
    os << "]";
    return os.str();
}

//! "the capacity is rounded up to the next power of two, even for powers of two": smallest power of two > max_size
inline size_t documented_capacity(size_t max) {
    size_t c = 1;
    while (c <= max) c <<= 1;
    return c;
}

enum Piece { P_CTOR_ALLOC = 1, P_EMPLACE0 = 2, P_ASSIGN_RESULT = 4, P_UNALLOC_SRC = 8, P_APPEND = 16, P_SERIALIZE = 32, P_STDVEC = 64, P_STDSWAP = 128, P_CHAIN = 256 };

template <class C>
void ring_api_history(pbt::Source& src) {
    typedef typename C::T T;
    typedef typename C::A A;
    typedef typename C::RB RB;
    constexpr size_t NS = 3;
    verif::Ledger::get().reset();
    verif::AllocLedger::get().reset();
    size_t max0 = (size_t)src.range(0, 9);

    // what the declarations promise (checked at run time so that a changed declaration is a violation, not a build error)
    PBT_CHECK((std::is_same<typename RB::value_type, T>::value && std::is_same<typename RB::allocator_type, A>::value && std::is_same<typename RB::reference, T&>::value &&
               std::is_same<typename RB::const_reference, const T&>::value && std::is_same<typename RB::pointer, T*>::value && std::is_same<typename RB::const_pointer, const T*>::value &&
               std::is_same<typename RB::size_type, typename A::size_type>::value && std::is_same<typename RB::difference_type, typename A::difference_type>::value),
              "C16/ring-traits", "member typedefs of RingBuffer differ from the declaration");
    PBT_CHECK(std::is_nothrow_move_constructible<RB>::value && std::is_nothrow_move_assignable<RB>::value && std::is_nothrow_default_constructible<RB>::value,
              "C16/ring-traits", "RingBuffer(), RingBuffer(RingBuffer&&) and operator=(RingBuffer&&) are declared noexcept");
    PBT_CHECK((!std::is_convertible<size_t, RB>::value && !std::is_convertible<A, RB>::value), "C16/ring-traits", "the size / allocator constructors are declared explicit");

    unsigned pieces = 0;
    {
        std::unique_ptr<RB> rb[NS];
        AModel m[NS];

        auto stored_total = [&]() {
            size_t n = 0;
            for (size_t s = 0; s < NS; ++s)
                if (m[s].exists && m[s].alloc) n += m[s].dq.size();
            return n;
        };
        auto check = [&](const char* after) {
            size_t blocks = 0;
            for (size_t s = 0; s < NS; ++s) {
                if (!m[s].exists) continue;
                RB& r = *rb[s];
                const RB& cr = r;
                if (!m[s].alloc) {
                    // a buffer without storage holds the empty sequence: size and emptiness report it
                    PBT_CHECK(cr.size() == 0 && cr.empty(), "C16/ring-unallocated-not-empty", "after " << after << ": unallocated b" << s << " reports size() = " << cr.size() << ", empty() = " << cr.empty());
                    continue;
                }
                ++blocks;
                const std::deque<int>& d = m[s].dq;
                PBT_CHECK(cr.size() == d.size(), "C16/ring-size", "after " << after << ": b" << s << ".size() = " << cr.size() << " but deque model " << show(d));
                PBT_CHECK(cr.empty() == d.empty(), "C16/ring-empty", "after " << after << ": b" << s << ".empty() = " << cr.empty() << ", model " << show(d));
                PBT_CHECK(cr.max_size() == m[s].max, "C16/ring-max_size", "after " << after << ": b" << s << ".max_size() = " << cr.max_size() << " expected " << m[s].max);
                PBT_CHECK(cr.capacity() == documented_capacity(m[s].max), "C16/ring-capacity",
                          "after " << after << ": b" << s << ".capacity() = " << cr.capacity() << " but the next power of two above max_size " << m[s].max << " is " << documented_capacity(m[s].max));
                if (d.empty()) continue;
                PBT_CHECK(val(cr.front()) == d.front() && val(r.front()) == d.front(), "C16/ring-front", "after " << after << ": b" << s << ".front() = " << val(cr.front()) << " but model " << show(d));
                PBT_CHECK(val(cr.back()) == d.back() && val(r.back()) == d.back(), "C16/ring-back", "after " << after << ": b" << s << ".back() = " << val(cr.back()) << " but model " << show(d));
                for (size_t i = 0; i < d.size(); ++i)
                    PBT_CHECK(val(cr[i]) == d[i] && val(r[i]) == d[i], "C16/ring-index", "after " << after << ": b" << s << "[" << i << "] = " << val(cr[i]) << " but model " << show(d));
                // the const and the non-const accessors name the same objects
                PBT_CHECK(&cr.front() == &r.front() && &cr.back() == &r.back() && &cr[0] == &r.front() && &cr[d.size() - 1] == &r.back(), "C16/ring-accessor-identity",
                          "after " << after << ": front()/back()/[] const and non-const of b" << s << " refer to different objects");
            }
            if (C::tracked)
                PBT_CHECK(verif::Ledger::get().live_count() == stored_total(), "C16/ring-live-elements",
                          "after " << after << ": " << verif::Ledger::get().live_count() << " element objects alive but " << stored_total() << " stored");
            if (C::blocks)
                PBT_CHECK(verif::AllocLedger::get().live_count() == blocks, "C16/ring-live-blocks",
                          "after " << after << ": " << verif::AllocLedger::get().live_count() << " storage blocks alive but " << blocks << " allocated buffers");
        };
        auto set_unallocated = [&](AModel& x) { x.exists = true, x.alloc = false, x.dq.clear(); };
        auto set_allocated = [&](AModel& x, size_t max) { x.exists = true, x.alloc = true, x.max = max, x.dq.clear(); };

        //! slot t was copy-constructed / copy-assigned from a buffer WITHOUT storage: it holds no elements and is itself
        //! a buffer without storage, i.e. it may be deallocate()d, destroyed or allocate(n)d (finding F41: the copy used
        //! to own a zero-length block that allocate() leaked).  One of the three follows at once.
        auto resolve_copy_of_unallocated = [&](size_t t) {
            RB& r = *rb[t];
            PBT_CHECK(r.size() == 0 && r.empty(), "C16/ring-unallocated-not-empty", "the copy b" << t << " of an unallocated buffer reports size() = " << r.size());
            set_unallocated(m[t]);
            if (C::tracked)
                PBT_CHECK(verif::Ledger::get().live_count() == stored_total(), "C16/ring-live-elements",
                          "after copying an unallocated buffer to b" << t << ": " << verif::Ledger::get().live_count() << " element objects alive but " << stored_total() << " stored");
            unsigned f = (unsigned)src.range(0, 2);
            size_t n = f == 2 ? (size_t)src.range(0, 9) : 0;
            if (f == 0) {
                PBT_LOG("b" << t << ".deallocate()\n");
                r.deallocate();
            } else if (f == 1) {
                PBT_LOG("destroy b" << t << "\n");
                rb[t].reset();
                m[t] = AModel();
            } else {
                PBT_LOG("b" << t << ".allocate(" << n << ") [directly on the copy of an unallocated buffer]\n");
                r.allocate(n);
                set_allocated(m[t], n);
                pbt::label("copy_from_unallocated_then_allocate");
            }
            pieces |= P_UNALLOC_SRC;
            pbt::label("copy_from_unallocated");
        };

        //! one push at the given end; returns the value the model gets
        auto push = [&](RB& r, bool back, unsigned how, int v) -> int {
            if (!C::copyable) { // move-only element: the copying forms become the moving ones
                if (how == 0 || how == 6) how = 1;
                if (how == 4 || how == 5) how = 9;
            }
            static const char* const HN[] = {"push(const&)", "push(&&)", "emplace(int)", "emplace()", "emplace(const lvalue)", "emplace(non-const lvalue)", "push(non-const lvalue)", "emplace(converted)", "push(implicit conversion)", "emplace(&&)"};
            PBT_LOG((back ? "back " : "front ") << HN[how] << " " << v << "\n");
            pbt::label(HN[how]);
            switch (how) {
            case 1: {
                T tmp(v);
                back ? r.push_back(std::move(tmp)) : r.push_front(std::move(tmp));
                return v;
            }
            case 2: back ? r.emplace_back(v) : r.emplace_front(v); return v;
            case 3: // no constructor arguments: a value-initialised element (Tracked() / MoveOnly() / int() == 0)
                back ? r.emplace_back() : r.emplace_front();
                pieces |= P_EMPLACE0;
                return 0;
            case 7: {
                unsigned k = (unsigned)v % 3;
                if (k == 0) {
                    short a = (short)v;
                    back ? r.emplace_back(a) : r.emplace_front(a);
                } else if (k == 1) {
                    const long a = v;
                    back ? r.emplace_back(a) : r.emplace_front(a);
                } else {
                    unsigned char a = (unsigned char)v;
                    back ? r.emplace_back(std::move(a)) : r.emplace_front(std::move(a));
                }
                return v;
            }
            case 8: back ? r.push_back(v) : r.push_front(v); return v; // int -> T temporary: the && overload
            case 9: {
                T tmp(v);
                back ? r.emplace_back(std::move(tmp)) : r.emplace_front(std::move(tmp));
                return v;
            }
            default: break;
            }
            if constexpr (C::copyable) {
                if (how == 0 || how == 4) {
                    const T tmp(v);
                    if (how == 0) back ? r.push_back(tmp) : r.push_front(tmp);
                    else back ? r.emplace_back(tmp) : r.emplace_front(tmp);
                    PBT_CHECK(val(tmp) == v, "C16/ring-lvalue-argument-changed", "the caller's const lvalue argument " << v << " of " << HN[how] << " was modified");
                } else { // 5, 6: NON-CONST lvalue: copied, the caller's object keeps its value
                    T tmp(v);
                    if (how == 6) back ? r.push_back(tmp) : r.push_front(tmp);
                    else back ? r.emplace_back(tmp) : r.emplace_front(tmp);
                    PBT_CHECK(val(tmp) == v, "C16/ring-lvalue-argument-changed", "the caller's lvalue argument " << v << " of " << HN[how] << " was modified: now " << val(tmp));
                }
            }
            return v;
        };

        PBT_LOG("b0 = RingBuffer(" << max0 << ")\n");
        rb[0].reset(new RB(max0));
        set_allocated(m[0], max0);
        check("construction");
        unsigned nops = 0;
        while (src.more() && nops < 100) {
            ++nops;
            size_t s = src.weighted({4, 2, 1});
            //                                    pb  pf pof pob wr clr ctor cpa mva chain dea all append ser vec swap del
            unsigned op = (unsigned)src.weighted({10, 8, 3, 3, 2, 1, 5, 4, 4, 2, 2, 3, 3, 3, 2, 2, 1});
            if (!m[s].exists && op != 6) op = 6;
            AModel& x = m[s];
            switch (op) {
            case 0:
            case 1: {
                if (!x.alloc || x.max == 0) continue;
                RB& r = *rb[s];
                bool back = op == 0;
                if (x.dq.size() == x.max) { // slide the window so that long histories wrap both cursors
                    if (back) r.pop_front(), x.dq.pop_front();
                    else r.pop_back(), x.dq.pop_back();
                }
                int v = (int)src.range(0, 99);
                unsigned how = (unsigned)src.range(0, 9);
                int got = push(r, back, how, v);
                if (back) x.dq.push_back(got);
                else x.dq.push_front(got);
                break;
            }
            case 2: {
                if (!x.alloc || x.dq.empty()) continue;
                PBT_LOG("b" << s << ".pop_front()\n");
                rb[s]->pop_front(), x.dq.pop_front();
                break;
            }
            case 3: {
                if (!x.alloc || x.dq.empty()) continue;
                PBT_LOG("b" << s << ".pop_back()\n");
                rb[s]->pop_back(), x.dq.pop_back();
                break;
            }
            case 4: { // write through the non-const reference, read back through the const accessors (check)
                if (!x.alloc || x.dq.empty()) continue;
                RB& r = *rb[s];
                int v = (int)src.range(0, 99);
                unsigned how = (unsigned)src.range(0, 2);
                size_t i = how == 0 ? 0 : how == 1 ? x.dq.size() - 1 : src.index(x.dq.size());
                PBT_LOG("b" << s << (how == 0 ? ".front() = " : how == 1 ? ".back() = " : ".operator[] = ") << v << " (index " << i << ")\n");
                T& ref = how == 0 ? r.front() : how == 1 ? r.back() : r[i];
                ref = T(v);
                x.dq[i] = v;
                break;
            }
            case 5: {
                if (!x.alloc) continue;
                PBT_LOG("b" << s << ".clear()\n");
                rb[s]->clear(), x.dq.clear();
                break;
            }
            case 6: { // every constructor form; the new object replaces slot t
                unsigned form = (unsigned)src.range(0, 5);
                size_t t = m[s].exists ? src.index(NS) : s;
                if ((form == 4 || form == 5) && (!m[s].exists || t == s)) form = 2;
                if (form == 4 && !C::copyable) form = 5;
                static const char* const FN[] = {"RingBuffer()", "RingBuffer(alloc)", "RingBuffer(n)", "RingBuffer(n, alloc)", "RingBuffer(const RingBuffer&)", "RingBuffer(RingBuffer&&)"};
                pbt::label(FN[form]);
                switch (form) {
                case 0: {
                    PBT_LOG("b" << t << " = RingBuffer()\n");
                    rb[t].reset();
                    rb[t].reset(new RB());
                    set_unallocated(m[t]);
                    break;
                }
                case 1: { // the allocator is used by a later allocate()
                    bool then_allocate = src.boolean();
                    size_t n = then_allocate ? (size_t)src.range(0, 9) : 0;
                    PBT_LOG("b" << t << " = RingBuffer(alloc)" << (then_allocate ? "; allocate(" + std::to_string(n) + ")" : std::string()) << "\n");
                    rb[t].reset();
                    A a;
                    rb[t].reset(new RB(a));
                    set_unallocated(m[t]);
                    if (then_allocate) {
                        rb[t]->allocate(n);
                        set_allocated(m[t], n);
                        if (C::arena)
                            PBT_CHECK(blocks_in_arena(arena_of(a)) == 1, "C16/ring-allocator-argument", "RingBuffer(alloc).allocate(" << n << ") did not take its storage from the allocator passed to the constructor");
                    }
                    pieces |= P_CTOR_ALLOC;
                    break;
                }
                case 2: {
                    size_t n = (size_t)src.range(0, 9);
                    PBT_LOG("b" << t << " = RingBuffer(" << n << ")\n");
                    rb[t].reset();
                    rb[t].reset(new RB(n));
                    set_allocated(m[t], n);
                    break;
                }
                case 3: {
                    size_t n = (size_t)src.range(0, 9);
                    PBT_LOG("b" << t << " = RingBuffer(" << n << ", alloc)\n");
                    rb[t].reset();
                    const A a;
                    rb[t].reset(new RB(n, a));
                    set_allocated(m[t], n);
                    if (C::arena)
                        PBT_CHECK(blocks_in_arena(arena_of(a)) == 1, "C16/ring-allocator-argument", "RingBuffer(" << n << ", alloc) did not take its storage from the allocator passed to the constructor");
                    pieces |= P_CTOR_ALLOC;
                    break;
                }
                case 4: {
                    if constexpr (C::copyable) {
                        PBT_LOG("b" << t << " = RingBuffer(b" << s << ") [copy-construct" << (x.alloc ? "" : " from an UNALLOCATED buffer") << "]\n");
                        rb[t].reset();
                        m[t] = AModel();
                        rb[t].reset(new RB(static_cast<const RB&>(*rb[s])));
                        if (x.alloc) m[t] = x;
                        else resolve_copy_of_unallocated(t);
                    }
                    break;
                }
                default: {
                    PBT_LOG("b" << t << " = RingBuffer(std::move(b" << s << ")) [move-construct" << (x.alloc ? "" : " from an UNALLOCATED buffer") << "]\n");
                    rb[t].reset();
                    rb[t].reset(new RB(std::move(*rb[s])));
                    if (!x.alloc) pieces |= P_UNALLOC_SRC, pbt::label("move_from_unallocated");
                    m[t] = x;
                    set_unallocated(x);
                    break;
                }
                }
                break;
            }
            case 7: { // copy-assignment: result is *this; the source may be unallocated
                size_t t = src.index(NS);
                if (!m[t].exists || !C::copyable) continue;
                if constexpr (C::copyable) {
                    PBT_LOG("b" << t << " = b" << s << " [copy-assign" << (t == s ? ", self" : "") << (x.alloc ? "" : ", source UNALLOCATED") << (m[t].alloc ? "" : ", target unallocated") << "]\n");
                    RB& lhs = *rb[t];
                    const RB& rhs = *rb[s];
                    RB* ret = &(lhs = rhs);
                    PBT_CHECK(ret == &lhs, "C16/ring-assign-result", "b" << t << " = b" << s << " (copy) did not return a reference to the left operand");
                    pieces |= P_ASSIGN_RESULT;
                    pbt::label(t == s ? "copy_assign_self_result" : "copy_assign_result");
                    if (t != s) {
                        if (x.alloc) m[t] = x;
                        else resolve_copy_of_unallocated(t);
                    }
                }
                break;
            }
            case 8: { // move-assignment: result is *this; the source may be unallocated
                size_t t = src.index(NS);
                if (!m[t].exists) continue;
                PBT_LOG("b" << t << " = std::move(b" << s << ") [move-assign" << (t == s ? ", self" : "") << (x.alloc ? "" : ", source UNALLOCATED") << (m[t].alloc ? "" : ", target unallocated") << "]\n");
                RB& lhs = *rb[t];
                RB& rhs = *rb[s];
                RB* ret = &(lhs = std::move(rhs));
                PBT_CHECK(ret == &lhs, "C16/ring-assign-result", "b" << t << " = std::move(b" << s << ") did not return a reference to the left operand");
                pieces |= P_ASSIGN_RESULT;
                pbt::label(t == s ? "move_assign_self_result" : "move_assign_result");
                if (t != s) {
                    if (!x.alloc) pieces |= P_UNALLOC_SRC, pbt::label("move_from_unallocated");
                    if (!x.alloc && m[t].alloc && !m[t].dq.empty()) pbt::label("move_assign_unallocated_over_elements");
                    m[t] = x;
                    set_unallocated(x);
                }
                break;
            }
            case 9: { // chained assignment c = b = a
                size_t b = (s + 1) % NS, c = (s + 2) % NS;
                if (!x.alloc || !m[b].exists || !m[c].exists) continue;
                bool mv = !C::copyable || src.boolean();
                PBT_LOG("b" << c << " = " << (mv ? "std::move(" : "(") << "b" << b << " = " << (mv ? "std::move(" : "(") << "b" << s << ")) [chained]\n");
                if (mv) {
                    *rb[c] = std::move(*rb[b] = std::move(*rb[s]));
                    m[c] = x;
                    set_unallocated(m[b]);
                    set_unallocated(x);
                } else {
                    if constexpr (C::copyable) {
                        *rb[c] = *rb[b] = static_cast<const RB&>(*rb[s]);
                        m[b] = x;
                        m[c] = x;
                    }
                }
                pieces |= P_CHAIN;
                pbt::label(mv ? "chained_move_assign" : "chained_copy_assign");
                break;
            }
            case 10: {
                PBT_LOG("b" << s << ".deallocate()" << (x.alloc ? "" : " [already unallocated]") << "\n");
                rb[s]->deallocate();
                set_unallocated(x);
                break;
            }
            case 11: {
                if (x.alloc) continue;
                size_t n = (size_t)src.range(0, 9);
                PBT_LOG("b" << s << ".allocate(" << n << ")\n");
                rb[s]->allocate(n);
                set_allocated(x, n);
                break;
            }
            case 12: { // copy_to / move_to APPEND to a vector that already holds elements; two calls into the same vector
                if (!x.alloc) continue;
                size_t t = src.index(NS);
                bool second = m[t].exists && m[t].alloc;
                bool mv = !C::copyable || src.boolean();
                if (mv && t == s) second = false;
                size_t pre = (size_t)src.range(0, 3);
                PBT_LOG("vector with " << pre << " elements; b" << s << (mv ? ".move_to" : ".copy_to") << "(&vector)" << (second ? "; then the same with b" + std::to_string(t) : std::string()) << "\n");
                {
                    std::vector<T> out;
                    std::vector<int> want;
                    for (size_t i = 0; i < pre; ++i) out.emplace_back(200 + (int)i), want.push_back(200 + (int)i);
                    for (int round = 0; round < (second ? 2 : 1); ++round) {
                        size_t q = round == 0 ? s : t;
                        for (int v : m[q].dq) want.push_back(v);
                        if (mv) {
                            rb[q]->move_to(&out);
                            m[q].dq.clear();
                            PBT_CHECK(rb[q]->empty() && rb[q]->size() == 0, "C16/ring-move_to", "b" << q << " not empty after move_to");
                        } else {
                            if constexpr (C::copyable) static_cast<const RB&>(*rb[q]).copy_to(&out);
                        }
                        PBT_CHECK(out.size() == want.size(), mv ? "C16/ring-move_to" : "C16/ring-copy_to",
                                  "the vector holds " << out.size() << " elements after appending b" << q << ", expected " << show(want));
                        for (size_t i = 0; i < want.size(); ++i)
                            PBT_CHECK(val(out[i]) == want[i], mv ? "C16/ring-move_to" : "C16/ring-copy_to", "vector element " << i << " = " << val(out[i]) << " after appending b" << q << ", expected " << show(want));
                        if (C::tracked)
                            PBT_CHECK(verif::Ledger::get().live_count() == stored_total() + out.size(), "C16/ring-live-elements",
                                      "after appending b" << q << " to a vector: " << verif::Ledger::get().live_count() << " element objects alive, expected " << stored_total() + out.size());
                    }
                }
                pieces |= P_APPEND;
                pbt::label(mv ? (pre ? "move_to_appends" : "move_to") : (pre ? "copy_to_appends" : "copy_to"));
                if (second) pbt::label("two_buffers_into_one_vector");
                break;
            }
            case 13: { // cereal hooks: save(ar) const, load(ar)
                if (!x.alloc) continue;
                size_t t = src.index(NS);
                ArOut<T> ao;
                static_cast<const RB&>(*rb[s]).save(ao);
                if (!m[t].exists) {
                    PBT_LOG("b" << t << " = RingBuffer()\n");
                    rb[t].reset(new RB());
                    set_unallocated(m[t]);
                }
                PBT_LOG("b" << s << ".save(archive); b" << t << ".load(archive)" << (t == s ? " [into itself]" : m[t].alloc ? "" : " [target unallocated]") << "\n");
                pbt::label(t == s ? "load_into_itself" : !m[t].alloc ? "load_into_unallocated" : m[t].dq.empty() ? "load_into_empty" : "load_over_elements");
                ArIn<T> ai(ao.rec);
                rb[t]->load(ai);
                PBT_CHECK(!ai.bad && ai.pos == ao.rec.size(), "C16/ring-serialize", "load() did not read back what save() wrote (" << ao.rec.size() << " archive items, " << ai.pos << " consumed)");
                if (t != s) m[t] = x;
                pieces |= P_SERIALIZE;
                break;
            }
            case 14: { // the buffer as an element of std::vector (noexcept move constructor => relocation moves)
                if (!x.alloc) continue;
                bool copies = C::copyable && src.boolean();
                if (copies) {
                    if constexpr (C::copyable) {
                        PBT_LOG("std::vector<RingBuffer>(2, b" << s << ")\n");
                        std::vector<RB> vec(2, static_cast<const RB&>(*rb[s]));
                        for (const RB& c : vec) {
                            PBT_CHECK(c.size() == x.dq.size() && c.max_size() == x.max, "C16/ring-size", "a copy inside std::vector has size " << c.size() << ", model " << show(x.dq));
                            for (size_t i = 0; i < x.dq.size(); ++i) PBT_CHECK(val(c[i]) == x.dq[i], "C16/ring-index", "a copy inside std::vector has [" << i << "] = " << val(c[i]) << ", model " << show(x.dq));
                        }
                    }
                    pbt::label("std_vector_of_copies");
                } else {
                    size_t extra = (size_t)src.range(1, 4);
                    PBT_LOG("std::vector<RingBuffer>: push_back(std::move(b" << s << ")), " << extra << " x emplace_back(n) [relocation], b" << s << " = std::move(vector[0])\n");
                    std::vector<RB> vec;
                    vec.push_back(std::move(*rb[s]));
                    for (size_t i = 0; i < extra; ++i) vec.emplace_back(i);
                    const RB& c = vec[0];
                    PBT_CHECK(c.size() == x.dq.size() && c.max_size() == x.max, "C16/ring-size", "after relocation inside std::vector: size " << c.size() << ", model " << show(x.dq));
                    for (size_t i = 0; i < x.dq.size(); ++i) PBT_CHECK(val(c[i]) == x.dq[i], "C16/ring-index", "after relocation inside std::vector: [" << i << "] = " << val(c[i]) << ", model " << show(x.dq));
                    for (size_t i = 0; i < extra; ++i)
                        PBT_CHECK(vec[1 + i].max_size() == i && vec[1 + i].empty(), "C16/ring-max_size", "vector.emplace_back(" << i << ") built a buffer with max_size " << vec[1 + i].max_size());
                    *rb[s] = std::move(vec[0]);
                    pbt::label("std_vector_relocation");
                }
                pieces |= P_STDVEC;
                break;
            }
            case 15: { // std::swap = move-construct + two move-assignments; either side may be unallocated
                size_t t = src.index(NS);
                if (!m[t].exists) continue;
                PBT_LOG("std::swap(b" << s << ", b" << t << ")" << (t == s ? " [self]" : "") << "\n");
                std::swap(*rb[s], *rb[t]);
                if (t != s) std::swap(m[s], m[t]);
                pieces |= P_STDSWAP;
                pbt::label(t == s ? "std_swap_self" : (m[s].alloc != m[t].alloc) ? "std_swap_with_unallocated" : "std_swap");
                break;
            }
            default: {
                PBT_LOG("destroy b" << s << "\n");
                rb[s].reset();
                x = AModel();
                break;
            }
            }
            check("op");
        }
        unsigned np = 0;
        for (unsigned p = pieces; p; p &= p - 1) ++np;
        if (np >= 3) pbt::nontrivial();
        size_t first = src.index(NS);
        for (size_t i = 0; i < NS; ++i) {
            size_t s = (first + i) % NS;
            rb[s].reset();
            m[s] = AModel();
            check("destruction");
        }
    }
    if (C::tracked)
        PBT_CHECK(verif::Ledger::get().live_count() == 0 && verif::Ledger::get().constructed == verif::Ledger::get().destroyed, "C16/ring-live-elements",
                  "at the end: constructed " << verif::Ledger::get().constructed << " destroyed " << verif::Ledger::get().destroyed);
    if (C::blocks) PBT_CHECK(verif::AllocLedger::get().live_count() == 0, "C16/ring-live-blocks", "at the end: " << verif::AllocLedger::get().live_count() << " blocks not freed");
}

} // namespace

PBT_PROPERTY(ring_api) {
    unsigned cfg = (unsigned)src.weighted({3, 2, 2, 1});
    static const char* const L[] = {"cfg=Tracked+stateful allocator", "cfg=Tracked+std::allocator (default argument)", "cfg=move-only element", "cfg=int+std::allocator"};
    pbt::label(L[cfg]);
    PBT_LOG("RingBuffer, " << L[cfg] << "\n");
    switch (cfg) {
    case 0: return ring_api_history<CfgArena>(src);
    case 1: return ring_api_history<CfgStd>(src);
    case 2: return ring_api_history<CfgMoveOnly>(src);
    default: return ring_api_history<CfgInt>(src);
    }
}
