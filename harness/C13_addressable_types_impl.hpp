// C13 (types) — tlx::DAryAddressableIntHeap<uint32_t, Arity, Compare> with comparator objects that OWN state
// (shared_ptr table, std::function, a std::vector owned by value) and the call patterns the plain target does not
// make: remove()/update() with a key read through the reference top() returns, push(extract_top()), build_heap from
// deque / list / reverse iterators and from vectors the caller goes on using, more copy / move / swap round trips,
// a moved-from heap reused after clear().  Same interface as C13_addressable_impl.hpp (extended), history in
// C13_addressable.cpp (ext mode), instantiations in C13_addressable_types_{a,b}.cpp.
#pragma once
#include "../engine/pbt.hpp"

#include <array>
#include <deque>
#include <list>
#include <memory>

#include "C13_addressable_impl.hpp"

namespace c13 {

[[noreturn]] inline void acmp_bad(const char* kind, const char* what) {
    pbt::fail("C13/cmp-state", std::string(kind) + " comparator " + what);
}
//! shared_ptr to a copy of the table, kept in sync by set_prio(). Moved-from: null.
struct ASharedCmp {
    std::shared_ptr<std::vector<int>> prio;
    bool operator()(AKey a, AKey b) const {
        if (!prio) acmp_bad("shared_ptr-table", "called although its table pointer is null (moved-from comparator object)");
        if (a >= prio->size() || b >= prio->size()) acmp_bad("shared_ptr-table", "called with a key that was never inserted");
        return (*prio)[a] < (*prio)[b];
    }
};
//! owns a std::vector (key -> slot of the history's table, the identity). Moved-from: empty vector.
struct AOwnVecCmp {
    std::vector<AKey> slot;
    const std::vector<int>* prio;
    bool operator()(AKey a, AKey b) const {
        if (a >= slot.size() || b >= slot.size()) acmp_bad("vector-table", "called although its table is gone (moved-from comparator object) or with a key that was never inserted");
        return (*prio)[slot[a]] < (*prio)[slot[b]];
    }
};
//! std::function around a closure too large for the in-place buffer. Moved-from: empty -> std::bad_function_call.
typedef std::function<bool(AKey, AKey)> AFnCmp;
inline AFnCmp make_afn(const std::vector<int>* prio) {
    std::array<int, 8> ballast = {{1, 2, 3, 4, 5, 6, 7, 8}};
    return [prio, ballast](AKey a, AKey b) -> bool {
        if (ballast[7] != 8 || a >= prio->size() || b >= prio->size()) acmp_bad("std::function", "called with a key that was never inserted");
        return (*prio)[a] < (*prio)[b];
    };
}

static const unsigned N_ABUILD = 4, N_ALIFE = 5;

template <unsigned A, class Cmp, bool STATELESS>
struct AddrImplX : AddrImpl<A, Cmp> {
    typedef AddrImpl<A, Cmp> Base;
    typedef typename Base::Heap Heap;
    using Base::cmp;
    using Base::h;
    std::shared_ptr<std::vector<int>> shared;
    AddrImplX(Cmp c, std::shared_ptr<std::vector<int>> sh) : Base(c), shared(std::move(sh)) {}
    void set_prio(AKey k, int p) override {
        if (shared) (*shared)[k] = p;
    }
    void remove_top_alias(unsigned how) override {
        if (how == 0) {
            h.remove(h.top());
        } else {
            const AKey& r = h.top(); // reference into the heap's storage
            h.remove(r);
        }
    }
    void update_top_alias() override { h.update(h.top()); }
    void push_extracted() override { h.push(h.extract_top()); }
    void build_ext(unsigned how, const std::vector<AKey>& keys) override {
        switch (how) {
        case 0: {
            std::deque<AKey> d;
            for (size_t i = keys.size(); i > 0; --i) d.push_front(keys[i - 1]);
            h.build_heap(d.begin(), d.end());
            PBT_CHECK(std::equal(d.begin(), d.end(), keys.begin()) && d.size() == keys.size(), "C13/addr-build-source", "build_heap(deque iterators) changed its source");
            break;
        }
        case 1: {
            std::list<AKey> l(keys.begin(), keys.end());
            h.build_heap(l.begin(), l.end());
            PBT_CHECK(std::equal(l.begin(), l.end(), keys.begin()) && l.size() == keys.size(), "C13/addr-build-source", "build_heap(list iterators) changed its source");
            break;
        }
        case 2: {
            std::vector<AKey> r(keys.rbegin(), keys.rend());
            h.build_heap(r.rbegin(), r.rend());
            break;
        }
        default: { // the caller goes on using its vectors
            std::vector<AKey> v(keys);
            const std::vector<AKey>& cv = v;
            h.build_heap(cv);
            PBT_CHECK(v == keys, "C13/addr-build-source", "build_heap(const vector&) changed its source");
            std::fill(v.begin(), v.end(), (AKey)0);
            v = keys;
            h.build_heap(std::move(v));
            v.clear();
            v.push_back(0);
            break;
        }
        }
    }
    void copy_move(unsigned how, AKey extra) override {
        if (how < 4) return Base::copy_move(how, extra);
        const size_t n0 = h.size();
        switch (how) {
        case 4: { // an independent copy: changing the copy must not change the original
            Heap c(h);
            PBT_CHECK(c.size() == n0, "C13/addr-copy", "copy has size " << c.size() << ", original " << n0);
            if (!c.empty()) c.remove(c.top());
            if (!c.contains(extra)) c.push(extra);
            c.update(c.top());
            c.clear();
            break;
        }
        case 5: { // std::swap with another heap and back
            Heap o(cmp);
            o.push(extra);
            std::swap(h, o);
            PBT_CHECK(h.size() == 1 && h.top() == extra && h.contains(extra) && o.size() == n0, "C13/addr-swap",
                      "after std::swap: sizes " << h.size() << "/" << o.size() << ", expected 1/" << n0);
            std::swap(o, h);
            break;
        }
        case 6: { // move away, give the moved-from heap a defined state again, use it, move back
            Heap m(std::move(h));
            if (STATELESS) h.clear(); // clear() resets both arrays of a moved-from heap
            else h = Heap(cmp);       // the comparator was moved from as well
            PBT_CHECK(h.empty() && !h.contains(extra), "C13/addr-after-move", "moved-from heap not empty after clear()/assignment: size " << h.size());
            h.push(extra);
            PBT_CHECK(h.size() == 1 && h.top() == extra && h.contains(extra), "C13/addr-after-move", "reused moved-from heap: wrong contents after one push");
            h.remove(h.top());
            h = std::move(m); // move-assign over a used heap
            break;
        }
        case 7: {
            Heap m(std::move(h));
            h = std::move(m); // move-assign into a moved-from heap
            break;
        }
        default: { // copy of a copy, destroy the first copy before using the second
            std::unique_ptr<Heap> c1(new Heap(h));
            Heap c2(*c1);
            c1.reset();
            h = std::move(c2);
            break;
        }
        }
        PBT_CHECK(h.size() == n0, "C13/addr-copy", "copy/move/swap round trip " << how << " changed the size from " << n0 << " to " << h.size());
    }
};

//! the state-owning comparator kind instantiated for an arity (3 shared_ptr, 4 std::function, 5 owned vector)
inline unsigned addr_stateful_kind(unsigned arity) { return 3 + arity % 3; }

//! ck: 0 less, 2 pointer to the history's table (as in target addressable), 3..5 the state-owning kind of this arity
template <unsigned A>
IAddr* make_addr_x(unsigned ck, const std::vector<int>* prio) {
    constexpr unsigned SK = 3 + A % 3;
    if (ck == 0) return new AddrImplX<A, std::less<AKey>, true>(std::less<AKey>(), nullptr);
    if (ck == 2) return new AddrImplX<A, APrioCmp, true>(APrioCmp{prio}, nullptr); // trivially copyable: a moved-from copy is intact
    if (ck != SK) abort();
    if constexpr (SK == 3) {
        auto sh = std::make_shared<std::vector<int>>(*prio);
        return new AddrImplX<A, ASharedCmp, false>(ASharedCmp{sh}, sh);
    } else if constexpr (SK == 4) {
        return new AddrImplX<A, AFnCmp, false>(make_afn(prio), nullptr);
    } else {
        std::vector<AKey> slot(prio->size());
        for (size_t i = 0; i < slot.size(); ++i) slot[i] = (AKey)i;
        return new AddrImplX<A, AOwnVecCmp, false>(AOwnVecCmp{slot, prio}, nullptr);
    }
}
IAddr* make_addr_x_lo(unsigned arity, unsigned ck, const std::vector<int>* prio); // arity 1..4
IAddr* make_addr_x_hi(unsigned arity, unsigned ck, const std::vector<int>* prio); // arity 5..8

} // namespace c13
